"""C17: star force is a function of (gear, reference stat, stars) -- not of what was computed before.

Run as a program it reads a JSON list of {"meta": GearMeta dump, "ref": Stat dump, "star": n} from stdin, evaluates
`Starforce(star=n).calculate_improvement(meta, ref)` on each IN THE GIVEN ORDER in this (new) process and prints the list
of answers (short_dict or exception name).  check_C17 evaluates the same items in the opposite order in its own process
and compares: an answer that depends on the order is an answer that depends on history."""
import json
import sys


def evaluate(items: list[dict]) -> list:
    from simaple.core import Stat
    from simaple.gear.gear import GearMeta
    from simaple.gear.improvements.starforce import Starforce
    out = []
    for it in items:
        try:
            meta = GearMeta.model_validate(it["meta"])
            r = Starforce(star=it["star"]).calculate_improvement(meta, Stat(**it["ref"]))
            out.append(r.short_dict())
        except Exception as e:  # noqa: BLE001 -- the exception type is the observation
            out.append(type(e).__name__)
    return out


if __name__ == "__main__":
    print(json.dumps(evaluate(json.load(sys.stdin))))
