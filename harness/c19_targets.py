"""C19, part "Targets" -- the CONCRETE step-wise optimizer targets (used by check_C19.py).

Lean side: Gen/Systems.lean (generated on every run by tools/py2lean/gen_systems.py), Model/Targets.lean,
Props/C19_Targets.lean (built and audited by `ck.prove("Simaple.Props.C19")` as a part file).

This module
  1. evaluates the part's statements directly on the real code (before the Lean lock is taken):
       cost monotone / zero / non-negative on the four real targets, the hyper stat budget non-decreasing in the
       character level, the per-level / per-size tables of the live prototypes non-negative and non-decreasing,
       get_value() non-decreasing in every slot in the positive-damage domain
     -> `ck.add_failing` with the concrete state / table cell;
  2. builds the driver requests and compares the model with the real code afterwards:
       the generated tables and limits with the live objects (exact),
       `Hyperstat.get_maximum_cost_from_level` on levels -20..400 (exact),
       get_cost() (exact), get_value() (rel 1e-9) and the system stat (rel 1e-9 per field) of the four real targets
       on seeded states x armour 0/100/300 x the five damage logics x seeded reference stats, including states on
       which the real code raises (wrong length, level past the table),
       get_index / block sizes of the prototypes, and whole optimizer runs (real StepwizeOptimizer vs the Lean
       `optimize` over the concrete problem).
"""
from __future__ import annotations

import inspect
import math
import random
from fractions import Fraction

from vlib import frac_str, parse_frac

from simaple.core import JobType, Stat
from simaple.core.base import ActionStat
from simaple.data.system.union_block import create_with_some_large_blocks
from simaple.optimizer import (
    HyperstatTarget,
    LinkSkillTarget,
    StepwizeOptimizer,
    UnionOccupationTarget,
    UnionSquadTarget,
)
from simaple.optimizer.optimizer import DiscreteTarget
from simaple.system.hyperstat import Hyperstat
from simaple.system.union import (
    UnionOccupation,
    get_buff_duration_preempted_union_occupation_state,
    get_empty_union_occupation_state,
)

REL = 1e-9
STAT_FIELDS = list(Stat.model_fields)
ACTION_FIELDS = list(ActionStat.model_fields)
# the fields a damage logic reads (Proofs/Targets.lean `plain`, plus final damage% and ignore-defence)
PLAIN = ["STR", "LUK", "INT", "DEX", "STR_multiplier", "LUK_multiplier", "INT_multiplier", "DEX_multiplier",
         "STR_static", "LUK_static", "INT_static", "DEX_static", "attack_power", "magic_attack",
         "attack_power_multiplier", "magic_attack_multiplier", "critical_rate", "critical_damage",
         "boss_damage_multiplier", "damage_multiplier", "elemental_resistance"]
READ = PLAIN + ["final_damage_multiplier", "ignored_defence"]
KINDS = ["hyperstat", "unionSquad", "unionOccupation", "linkSkill"]
CLASS = {"hyperstat": "HyperstatTarget", "unionSquad": "UnionSquadTarget",
         "unionOccupation": "UnionOccupationTarget", "linkSkill": "LinkSkillTarget"}
ARMORS = [0, 100, 300]


def close(a: float, b: float) -> bool:
    return math.isclose(a, b, rel_tol=REL, abs_tol=1e-9)


def ge(a: float, b: float) -> bool:
    return a >= b - REL * max(1.0, abs(a), abs(b))


def vec(s: Stat) -> list[str]:
    return [frac_str(getattr(s, f)) for f in STAT_FIELDS]


def floats(v: list[str]) -> list[float]:
    return [float(parse_frac(x)) for x in v]


def stat_floats(s, fields) -> list[float]:
    return [float(getattr(s, f)) for f in fields]


class Part:
    def __init__(self, ck, logics: dict, make_logic, make_reference_stat, data, squad, stat_of_state):
        # own generator: the draws of this part do not shift the seeded cases of the rest of check_C19
        self.ck, self.rng = ck, random.Random(f"C19-targets:{ck.seed}")
        self.logics, self.make_logic, self.make_ref = logics, make_logic, make_reference_stat
        self.data, self.squad, self.stat_of_state = data, squad, stat_of_state
        self.reqs: list[dict] = []
        self.paths: dict[int, tuple] = {}     # request index -> (target, budget, step size) of a whole optimizer run
        self.diverged: list[tuple] = []       # whole runs whose end state differs from the model's: judged step by step
        self.expect: list[tuple] = []
        self.evaluations = 0
        self.counts = {"cost_steps": 0, "value_steps": 0, "table_cells": 0, "budget_levels": 0, "eval_states": 0,
                       "raising_states": 0, "optimize_runs": 0, "optimize_tie_divergences": 0, "optimize_tie_steps": 0,
                       "optimize_runs_judged_step_by_step": 0}
        self.disagreements = 0
        self.per_point: dict[str, int] = {}
        self.samples: list[dict] = []
        self.distinct: set = set()

    # ------------------------------------------------------------------------------------------ real targets
    def build(self, kind: str, ref: Stat, logic, armor, jobs=()):
        if kind == "hyperstat":
            return HyperstatTarget(ref, logic, self.data("hyperstat"), armor=armor)
        if kind == "linkSkill":
            return LinkSkillTarget(ref, logic, self.data("links"), preempted_jobs=[], armor=armor)
        if kind == "unionSquad":
            return UnionSquadTarget(ref, logic, self.squad(tuple(JobType(j) for j in jobs)), preempted_jobs=[], armor=armor)
        return UnionOccupationTarget(ref, logic, UnionOccupation(), armor=armor)

    @staticmethod
    def limit(kind: str) -> int:
        return {"hyperstat": 15, "linkSkill": 1, "unionSquad": 1, "unionOccupation": 40}[kind]

    def fail(self, what: str, **inputs):
        item = {"kind": "tgt:" + what}
        item.update(inputs)
        self.ck.add_failing(item)

    def config(self, lname: str, armor: int):
        logic = self.make_logic(lname, self.rng)
        refd = self.make_ref(lname, armor, self.rng)
        return logic, refd

    def desc(self, lname, logic, refd, armor):
        return {"logic": lname, "armor": armor, "ref": refd,
                "logic_params": {"attack_range_constant": logic.attack_range_constant, "mastery": logic.mastery}}

    def logic_json(self, lname, logic):
        return {"kind": self.logics[lname][0].__name__, "arc": frac_str(logic.attack_range_constant),
                "mastery": frac_str(logic.mastery)}

    # ------------------------------------------------------------------------------------------ 1. the real code
    def table_cell(self, table: str, slot, level, stat: Stat, prev: Stat | None):
        """non-negative on the read fields, ignore-defence <= 100, not below the previous level"""
        self.counts["table_cells"] += 1
        for f in READ:
            v = getattr(stat, f)
            if v < 0 or (f == "ignored_defence" and v > 100):
                self.fail("table cell out of range", table=table, slot=slot, level=level, field=f, value=v)
            if prev is not None and v < getattr(prev, f):
                self.fail("table decreases with the level", table=table, slot=slot, level=level, field=f, value=v,
                          previous=getattr(prev, f))

    def real_tables(self):
        hs = self.data("hyperstat")
        for prop, opts in hs.options:
            for lv, st in enumerate(opts):
                self.table_cell("hyperstat", prop.value, lv, st, opts[lv - 1] if lv else None)
            if len(opts) != len(hs.cost):
                self.fail("hyper stat option and cost list differ in length", slot=prop.value, levels=len(opts), costs=len(hs.cost))
        for i, c in enumerate(hs.cost):
            if c < 0:
                self.fail("negative hyper stat price", level=i + 1, value=c)
        sq = self.squad(())
        for b in sq.blocks:
            for sz, st in enumerate(b.options):
                self.table_cell("union_block", b.job.value, sz + 1, st, b.options[sz - 1] if sz else None)
        jobs = [b.job for b in sq.blocks]
        for j in set(jobs):
            if jobs.count(j) > 1:
                self.fail("two union blocks for one job", job=j.value)
        for li, l in enumerate(self.data("links").links):
            for lv, st in enumerate(l.options):
                self.table_cell("link_skill", l.name, lv + 1, st, l.options[lv - 1] if lv else None)
        for ri, row in enumerate(UnionOccupation().occupation_value):
            for n, (st, _a) in enumerate(row):
                self.table_cell("union_occupation", ri, n, st, row[n - 1][0] if n else None)

    def real_budget(self):
        prev = None
        for lv in range(100, 321):
            b = Hyperstat.get_maximum_cost_from_level(lv)
            self.counts["budget_levels"] += 1
            if b < 0 or (prev is not None and b < prev):
                self.fail("hyper stat budget decreases with the character level", level=lv, budget=b, previous=prev)
            prev = b
        top = sum(self.data("hyperstat").cost[:16])
        if not Hyperstat.get_maximum_cost_from_level(300) < top:
            self.fail("hyper stat budget of level 300 reaches the price of level 16", budget=Hyperstat.get_maximum_cost_from_level(300), price=top)

    def real_cost(self):
        ref, logic = Stat(STR=1000, attack_power=100), self.logics["STR"][0](attack_range_constant=1.2, mastery=0.9)
        for kind in KINDS:
            t = self.build(kind, ref, logic, 300)
            n = t.state_length
            t.set_state([0] * n)
            if t.get_cost() != 0:
                self.fail("cost of the empty state is not 0", target=kind, cost=t.get_cost())
            states = [[0] * n]
            if kind == "hyperstat":
                # every slot through every level, 16 included (the 999999 sentinel)
                for k in range(n):
                    for lv in range(0, 16):
                        s = [0] * n
                        s[k] = lv
                        states.append(s)
            for _ in range(12):
                states.append([self.rng.randint(0, self.limit(kind)) for _ in range(n)])
            for s in states:
                t.set_state(list(s))
                c0 = t.get_cost()
                if c0 < 0:
                    self.fail("negative cost", target=kind, state=s, cost=c0)
                slots = range(n) if kind == "hyperstat" and sum(s) == max(s) else self.rng.sample(range(n), min(n, 6))
                for i in slots:
                    s2 = list(s)
                    s2[i] += 1
                    t.set_state(s2)
                    c1 = t.get_cost()
                    self.counts["cost_steps"] += 1
                    if c1 < c0:
                        self.fail("raising a slot lowers the cost", target=kind, state=s, slot=i, cost=c0, raised_cost=c1)
                    elif kind != "hyperstat" and c1 == c0:
                        self.fail("raising a slot does not change the cost", target=kind, state=s, slot=i, cost=c0, raised_cost=c1)

    def real_value(self):
        """single-slot steps from the empty state and from seeded states, every damage logic"""
        quick = self.ck.tier == "quick"
        for lname in self.logics:
            for armor in ([300] if quick else ARMORS):
                logic, refd = self.config(lname, armor)
                ref = Stat(**refd)
                d = self.desc(lname, logic, refd, armor)
                for kind in KINDS:
                    large = ["hero"] if kind == "unionSquad" and self.rng.random() < 0.5 else []
                    t = self.build(kind, ref, logic, armor, jobs=large)
                    n, lim = t.state_length, self.limit(kind)
                    bases = [[0] * n] + [[self.rng.randint(0, lim) for _ in range(n)] for _ in range(1 if quick else 4)]
                    for bi, base in enumerate(bases):
                        t.set_state(list(base))
                        v0 = t.get_value()
                        if not v0 > 0:
                            continue
                        for k in range(n):
                            # from the empty state: the whole column of slot k; from a seeded state: one more level
                            levels = range(base[k] + 1, lim + 1) if bi == 0 else range(base[k] + 1, min(lim, base[k] + 1) + 1)
                            prev_v, prev_s = v0, list(base)
                            for lv in levels:
                                s = list(base)
                                s[k] = lv
                                t.set_state(s)
                                v = t.get_value()
                                self.counts["value_steps"] += 1
                                if not ge(v, prev_v):
                                    self.fail("raising a slot lowers get_value()", target=kind, large=large, state=prev_s,
                                              slot=k, raised_state=s, value=prev_v, raised_value=v, **d)
                                prev_v, prev_s = v, s

    def real_code(self):
        self.real_tables()
        self.real_budget()
        self.real_cost()
        self.real_value()
        self.evaluations += sum(self.counts[k] for k in ("cost_steps", "value_steps", "table_cells", "budget_levels"))

    # ------------------------------------------------------------------------------------------ 2. requests
    def add(self, req: dict, what: str, exp):
        self.reqs.append(req)
        self.expect.append((what, exp))

    def live_tables(self) -> dict:
        hs, links, sq = self.data("hyperstat"), self.data("links"), self.squad(())
        sig = inspect.signature(create_with_some_large_blocks)
        ref, logic = Stat(), self.logics["STR"][0](attack_range_constant=1.0, mastery=1.0)
        tg = {k: self.build(k, ref, logic, 300) for k in KINDS}
        return {
            "hyperstat_cost": [int(c) for c in hs.cost],
            "hyperstat_options": [[p.value, [stat_floats(s, STAT_FIELDS) for s in opts]] for p, opts in hs.options],
            "union_blocks": [[b.job.value, [stat_floats(s, STAT_FIELDS) for s in b.options],
                              [stat_floats(a, ACTION_FIELDS) for a in b.action_stat_options]] for b in sq.blocks],
            "union_default_size": sig.parameters["default_size"].default,
            "union_large_size": sig.parameters["large_size"].default,
            "union_occupation_values": [[[stat_floats(s, STAT_FIELDS), stat_floats(a, ACTION_FIELDS)] for s, a in row]
                                        for row in UnionOccupation().occupation_value],
            "union_occupation_empty_state": get_empty_union_occupation_state(),
            "union_occupation_buff_duration_state": get_buff_duration_preempted_union_occupation_state(),
            "link_skills": [[l.name, [j.value for j in l.providing_jobs], [stat_floats(s, STAT_FIELDS) for s in l.options]]
                            for l in links.links],
            "link_levels": list(links.link_levels),
            "maximum_step": {CLASS[k]: tg[k].maximum_step for k in KINDS},
            "state_length": {CLASS[k]: tg[k].state_length for k in KINDS},
        }

    @staticmethod
    def model_tables(m: dict) -> dict:
        fl = floats
        return {
            "hyperstat_cost": [int(c) for c in m["hyperstat_cost"]],
            "hyperstat_options": [[n, [fl(s) for s in opts]] for n, opts in m["hyperstat_options"]],
            "union_blocks": [[j, [fl(s) for s in o], [fl(a) for a in acts]] for j, o, acts in m["union_blocks"]],
            "union_default_size": m["union_default_size"], "union_large_size": m["union_large_size"],
            "union_occupation_values": [[[fl(s), fl(a)] for s, a in row] for row in m["union_occupation_values"]],
            "union_occupation_empty_state": m["union_occupation_empty_state"],
            "union_occupation_buff_duration_state": m["union_occupation_buff_duration_state"],
            "link_skills": [[n, jobs, [fl(s) for s in o]] for n, jobs, o in m["link_skills"]],
            "link_levels": m["link_levels"], "maximum_step": m["maximum_step"], "state_length": m["state_length"],
        }

    def seeded_states(self, kind: str, n: int) -> list[list[int]]:
        lim, rng = self.limit(kind), self.rng
        out = [[0] * n, [lim] * n]
        for _ in range(3 if self.ck.tier == "quick" else 10):
            p = rng.choice([0.2, 0.5, 0.8])
            out.append([rng.randint(1, lim) if rng.random() < p else 0 for _ in range(n)])
        return out

    def raising_states(self, kind: str, n: int) -> list[list[int]]:
        rng = self.rng
        base = [rng.randint(0, self.limit(kind)) for _ in range(n)]
        out = [base[:-1], base + [1], []]
        if kind in ("hyperstat", "unionOccupation"):
            over = list(base)
            over[rng.randrange(n)] = self.limit(kind) + 1
            far = list(base)
            far[rng.randrange(n)] = self.limit(kind) + rng.randint(2, 30)
            out += [over, far]
        else:
            out.append([rng.choice([0, 2, 3]) for _ in range(n)])     # any non-zero int selects the slot
        return out

    def observe(self, t, s: list[int], stat_of):
        def call(f):
            try:
                return f()
            except (AssertionError, IndexError) as e:
                return type(e).__name__
        t.set_state(list(s))
        return {"cost": call(t.get_cost), "value": call(t.get_value), "stat": call(lambda: stat_of(s))}

    def build_requests(self):
        rng, quick = self.rng, self.ck.tier == "quick"
        self.add({"fn": "tgt_tables"}, "tables", self.live_tables())
        levels = list(range(-20, 401))
        self.add({"fn": "tgt_max_cost", "levels": [str(l) for l in levels]}, "max_cost",
                 [Hyperstat.get_maximum_cost_from_level(l) for l in levels])
        all_squad_jobs = [b.job.value for b in self.squad(()).blocks]
        link_jobs = sorted({j.value for l in self.data("links").links for j in l.providing_jobs})
        for large in ([], rng.sample(all_squad_jobs, 2), rng.sample(all_squad_jobs, 5)):
            sq = self.squad(tuple(JobType(j) for j in large))
            self.add({"fn": "tgt_squad_sizes", "large": large}, "squad_sizes", list(sq.block_size))
            jobs = rng.sample(all_squad_jobs, 6) + ["virtual_maplestory_m"]
            self.add({"fn": "tgt_index", "kind": "unionSquad", "large": large, "jobs": jobs}, "index",
                     [sq.get_index(JobType(j)) for j in jobs])
        jobs = rng.sample(link_jobs, 8) + [j for j in all_squad_jobs if j not in link_jobs][:3]
        exp = []
        for j in jobs:
            try:
                exp.append(self.data("links").get_index(JobType(j)))
            except KeyError:
                exp.append(None)
        self.add({"fn": "tgt_index", "kind": "linkSkill", "jobs": jobs}, "index", exp)
        # get_cost / get_value / system stat
        lnames = list(self.logics)
        combos = [(l, a) for l in lnames for a in ARMORS]
        for kind in KINDS:
            for ci, (lname, armor) in enumerate(combos):
                if quick and (ci + KINDS.index(kind)) % 2 == 1 and kind != "hyperstat":
                    continue
                logic, refd = self.config(lname, armor)
                ref = Stat(**refd)
                large = rng.sample(all_squad_jobs, rng.choice([0, 1, 3])) if kind == "unionSquad" else []
                t = self.build(kind, ref, logic, armor, jobs=large)
                n = t.state_length
                stat_of = lambda s, _t=t, _k=kind: self.stat_of_state(_k, _t, s)  # noqa: E731
                states = self.seeded_states(kind, n)
                if ci % 5 == 0:
                    states += self.raising_states(kind, n)
                obs = [self.observe(t, s, stat_of) for s in states]
                self.counts["eval_states"] += len(states)
                self.counts["raising_states"] += sum(1 for o in obs if isinstance(o["value"], str))
                for s, o in zip(states, obs):
                    self.distinct.add((kind, lname, armor, tuple(s)))
                if len(self.samples) < 4:
                    self.samples.append({"target": kind, "logic": lname, "armor": armor, "state": states[2],
                                         "cost": obs[2]["cost"], "value": obs[2]["value"]})
                self.add({"fn": "tgt_eval", "kind": kind, "large": large, "default": vec(ref), "armor": str(armor),
                          "logic": self.logic_json(lname, logic), "states": states}, "eval",
                         {"case": {"target": kind, "large": large, **self.desc(lname, logic, refd, armor)},
                          "states": states, "obs": obs})
        # whole runs: the real optimizer on the real target vs the model's optimize on the concrete problem
        runs = [("hyperstat", Hyperstat.get_maximum_cost_from_level(rng.choice([141, 150, 160])), 1),
                ("linkSkill", rng.choice([2, 3, 5]), 1), ("unionSquad", rng.choice([2, 4]), 1),
                ("unionOccupation", rng.choice([5, 12, 30]), 2)]
        if not quick:
            runs += [("hyperstat", Hyperstat.get_maximum_cost_from_level(rng.choice([200, 250])), 1),
                     ("linkSkill", 13, 1), ("unionSquad", 12, 1), ("unionOccupation", 80, 2)]
        for kind, budget, step in runs:
            lname = rng.choice(lnames)
            armor = rng.choice(ARMORS)
            logic, refd = self.config(lname, armor)
            ref = Stat(**refd)
            large = rng.sample(all_squad_jobs, 2) if kind == "unionSquad" else []
            t = self.build(kind, ref, logic, armor, jobs=large)
            try:
                out = StepwizeOptimizer(t, budget, step).optimize()
            except Exception as e:  # noqa: BLE001 -- the exception type is the observation
                self.fail("optimizer raised on the real target", target=kind, large=large, budget=budget, step_size=step,
                          error=type(e).__name__, **self.desc(lname, logic, refd, armor))
                continue
            self.counts["optimize_runs"] += 1
            self.paths[len(self.reqs)] = (t, budget, step)
            self.add({"fn": "tgt_optimize", "kind": kind, "large": large, "default": vec(ref), "armor": str(armor),
                      "logic": self.logic_json(lname, logic), "budget": str(budget), "stepSize": str(step),
                      "init": [0] * t.state_length}, "optimize",
                     {"case": {"target": kind, "large": large, "budget": budget, "step_size": step,
                               **self.desc(lname, logic, refd, armor)},
                      "state": list(out.state), "cost": out.get_cost(), "value": out.get_value(),
                      "n": t.state_length, "maxStep": t.maximum_step})
        self.evaluations += len(self.reqs) + self.counts["eval_states"]

    # ------------------------------------------------------------------------------------------ 3. compare
    def disagree(self, point: str, i: int, model, impl, case=None):
        self.disagreements += 1
        if self.disagreements <= 6:
            r = dict(self.reqs[i])
            if "states" in r:
                r["states"] = f"<{len(r['states'])} states>"
            r.pop("default", None)
            self.ck.broken.append({"kind": "correspondence", "part": "C19_Targets", "point": point, "request": r,
                                   "case": case, "model": model, "implementation": impl})

    def correspond(self, res):
        if res is None:
            return
        for i, (r, (what, exp)) in enumerate(zip(res, self.expect)):
            self.per_point[what] = self.per_point.get(what, 0) + 1
            if "ok" not in r:
                self.disagree(what, i, r, None if what in ("tables", "eval") else exp)
                continue
            m = r["ok"]
            if what == "tables":
                mt = self.model_tables(m)
                for key, live in exp.items():
                    if mt.get(key) != live:
                        diff = None
                        if isinstance(live, list) and isinstance(mt.get(key), list):
                            diff = next(({"index": k, "model": a, "implementation": b}
                                         for k, (a, b) in enumerate(zip(mt[key], live)) if a != b),
                                        {"model_len": len(mt[key]), "implementation_len": len(live)})
                        self.disagree("generated table " + key, i, diff if diff else mt.get(key),
                                      None if diff else live)
            elif what == "max_cost":
                got = [int(x) for x in m]
                if got != exp:
                    k = next(k for k, (a, b) in enumerate(zip(got, exp)) if a != b)
                    self.disagree("get_maximum_cost_from_level", i, {"level": k - 20, "model": got[k]},
                                  {"level": k - 20, "implementation": exp[k]})
            elif what in ("squad_sizes", "index"):
                if m != exp:
                    self.disagree(what, i, m, exp)
            elif what == "eval":
                for s, mo, o in zip(exp["states"], m, exp["obs"]):
                    bad = None
                    if isinstance(o["cost"], str) != (mo["cost"] is None) or \
                            (mo["cost"] is not None and int(mo["cost"]) != o["cost"]):
                        bad = ("get_cost", mo["cost"], o["cost"])
                    elif isinstance(o["value"], str) != (mo["value"] is None) or \
                            (mo["value"] is not None and not close(float(parse_frac(mo["value"])), o["value"])):
                        bad = ("get_value", mo["value"] and float(parse_frac(mo["value"])), o["value"])
                    elif isinstance(o["stat"], str) != (mo["stat"] is None) or \
                            (mo["stat"] is not None and not all(close(a, b) for a, b in
                                                                 zip(floats(mo["stat"]), stat_floats(o["stat"], STAT_FIELDS)))):
                        bad = ("system stat", mo["stat"] and dict(zip(STAT_FIELDS, floats(mo["stat"]))),
                               o["stat"] if isinstance(o["stat"], str) else o["stat"].short_dict())
                    if bad:
                        self.disagree(bad[0], i, {"state": s, "model": bad[1]}, {"state": s, "implementation": bad[2]},
                                      exp["case"])
                        break
            elif what == "optimize":
                if "error" in m:
                    self.disagree("optimize", i, m, {"state": exp["state"]}, exp["case"])
                    continue
                if m["n"] != exp["n"] or m["maxStep"] != exp["maxStep"]:
                    self.disagree("optimize: n / maximum_step", i, {"n": m["n"], "maxStep": m["maxStep"]},
                                  {"n": exp["n"], "maxStep": exp["maxStep"]}, exp["case"])
                elif m["state"] != exp["state"]:
                    # exact rationals vs floats: a different end state is noise only if it costs and is worth the same
                    mv, mc = float(parse_frac(m["value"])), float(parse_frac(m["cost"]))
                    if mc == exp["cost"] and math.isclose(mv, exp["value"], rel_tol=1e-6):
                        self.counts["optimize_tie_divergences"] += 1
                    else:
                        # the greedy loop takes the FIRST strictly best increment: where two increments are equally
                        # good up to float rounding, exact and float arithmetic may pick different ones and the two
                        # runs then part for good.  Not a disagreement by itself: the real run is judged step by step
                        self.diverged.append((i, {"state": m["state"], "cost": mc, "value": mv},
                                              {"state": exp["state"], "cost": exp["cost"], "value": exp["value"]},
                                              exp["case"]))
                elif not close(float(parse_frac(m["value"])), exp["value"]) or float(parse_frac(m["cost"])) != exp["cost"]:
                    self.disagree("optimize: cost / value of the result", i,
                                  {"cost": m["cost"], "value": float(parse_frac(m["value"]))},
                                  {"cost": exp["cost"], "value": exp["value"]}, exp["case"])

    def real_path(self, i: int):
        """the states the real optimizer goes through and the increment it takes at each (the last one is `()`),
        from the optimizer's own public methods"""
        t, budget, step = self.paths[i]
        opt = StepwizeOptimizer(t, budget, step)
        cur, states, incs = t.clone(), [], []
        for _ in range(1200):
            inc = tuple(opt.get_optimal_increment(cur))
            states.append(list(cur.state))
            incs.append(list(inc))
            if not inc:
                break
            cur = cur.get_stepped_target(inc)
        return states, incs

    def judge_diverged(self, driver):
        """whole runs whose end state is not the model's: every step of the REAL run is put to the model at the state
        where it was taken.  The step conforms if the model takes the same increment there, or if the increment the
        real run took is, in exact arithmetic, as good as the model's best up to float rounding (a tie); the real run
        must stop exactly where the model has nothing left that is better than a tie with 'no step'."""
        if not self.diverged:
            return
        reqs, metas = [], []
        for (i, mo, io, case) in self.diverged:
            states, incs = self.real_path(i)
            r = {k: v for k, v in self.reqs[i].items() if k not in ("fn", "init")}
            reqs.append({"fn": "tgt_steps", **r, "states": states, "incs": incs})
            metas.append((i, mo, io, case, states, incs))
        res = driver(reqs, timeout=600.0)
        if res is None:
            return
        for out, (i, mo, io, case, states, incs) in zip(res, metas):
            if "ok" not in out:
                self.disagree("optimize", i, mo, io, case)
                continue
            if states[-1] != io["state"]:
                self.disagree("optimize: the path of get_optimal_increment does not end at optimize()'s result", i,
                              {"path_end": states[-1]}, io, case)
                continue
            bad = None
            for s_, inc, j in zip(states, incs, out["ok"]):
                if "error" in j:
                    bad = (s_, inc, j)
                    break
                best, br = j["best"], float(parse_frac(j["bestReward"]))
                if best == inc:
                    continue
                try:
                    cr = float(parse_frac(j["chosen"])) if inc else -1.0      # no step: INITIAL_REWARD
                except (ValueError, TypeError):
                    bad = (s_, inc, j)           # the model raises on the step the code took
                    break
                if not math.isclose(cr, br, rel_tol=1e-9, abs_tol=1e-15):
                    bad = (s_, inc, {"model_best": best, "model_best_reward": br, "reward_of_the_step_taken": cr})
                    break
                self.counts["optimize_tie_steps"] += 1
            if bad:
                self.disagree("optimize: a step of the real run", i, {"state": bad[0], "model": bad[2]},
                              {"state": bad[0], "increment_taken": bad[1], "end": io}, case)
            else:
                self.counts["optimize_tie_divergences"] += 1
                self.counts["optimize_runs_judged_step_by_step"] += 1

    # ------------------------------------------------------------------------------------------ evidence
    def coverage(self) -> dict:
        return {"targets_part": {
            "rule": "concrete targets: every cell of the live tables; hyper stat budget of character levels 100..320; "
                    "single-slot cost steps (every hyper stat slot through levels 0..16, seeded states of all four "
                    "targets); single-slot value steps (every slot through its whole range from the empty state and one "
                    "step from seeded states, all five damage logics, reference stats in the positive-damage domain); "
                    "model vs code on seeded states x armour {0,100,300} x 5 logics, states on which the code raises, "
                    "whole optimizer runs",
            **self.counts,
            "model_vs_code_requests": len(self.reqs),
            "model_vs_code_per_point": self.per_point,
            "model_vs_code_disagreements": self.disagreements,
            "distinct_eval_cases": len(self.distinct),
            "samples": self.samples,
        }}


# ---------------------------------------------------------------------------------------------- replay
def replay(ck, item: dict, logics: dict, data, squad) -> int:
    """re-evaluate one recorded failing input of this part on the real code"""
    part = Part(ck, logics, None, None, data, squad, None)
    what = item.get("kind", "")[4:]
    if what.startswith("table") or what.startswith("two union") or "hyper stat price" in what or "length" in what:
        part.real_tables()
    elif "budget" in what:
        part.real_budget()
    elif "cost" in what:
        part.real_cost()
    elif "optimizer raised" in what:
        lp = item.get("logic_params") or {}
        logic = logics[item["logic"]][0](**lp)
        t = part.build(item["target"], Stat(**item["ref"]), logic, item["armor"], jobs=item.get("large") or ())
        try:
            StepwizeOptimizer(t, item["budget"], item["step_size"]).optimize()
        except Exception as e:  # noqa: BLE001
            part.fail("optimizer raised on the real target", **{**{k: v for k, v in item.items() if k != "kind"},
                                                                "error": type(e).__name__})
    elif "get_value" in what:
        lp = item.get("logic_params") or {}
        logic = logics[item["logic"]][0](**lp)
        t = part.build(item["target"], Stat(**item["ref"]), logic, item["armor"], jobs=item.get("large") or ())
        t.set_state(list(item["state"]))
        v0 = t.get_value()
        t.set_state(list(item["raised_state"]))
        v1 = t.get_value()
        if not ge(v1, v0):
            part.fail("raising a slot lowers get_value()", **{k: v for k, v in item.items() if k != "kind"})
    return 1
