"""C20 -- memoized environments equal freshly computed ones.

regenerate Gen/Memo.lean from the provider / memoizer source -> prove Props/C20 -> correspondence
(generated facts vs pydantic + recorded attribute reads + real dictionaries; the memoizer state machine of the
Lean model vs the real memoizers on the same histories: hit/miss, which stored entry answered, store sizes)
-> the property on the real code: every `memoizer.compute_environment(p)` of every history equals
`p.get_simulation_environment()`; successive providers differ in exactly one field (every declared field of
both provider kinds), hits and misses, in-memory and file-backed memoizers, across export / json save+load and
across fresh processes (every segment of a history runs in its own subprocess: `--worker`).
"""
from __future__ import annotations

import hashlib
import json
import math
import os
import shutil
import subprocess
import sys
import tempfile
import time

KINDS = ["MinimalEnvironmentProvider", "BaselineEnvironmentProvider"]
JOBS = ["archmagefb", "archmagetc", "bishop", "mechanic", "adele", "windbreaker", "soulmaster", "dualblade"]
TIERS = ["Legendary", "Unique", "Epic", "EpicUnique", "LegendaryHalf", "Legendary18"]


# =================================================================================================== real code
def classes():
    from simaple.container.environment_provider import BaselineEnvironmentProvider, MinimalEnvironmentProvider
    return {"MinimalEnvironmentProvider": MinimalEnvironmentProvider,
            "BaselineEnvironmentProvider": BaselineEnvironmentProvider}


def build(kind: str, cfg: dict):
    return classes()[kind].model_validate(cfg)


def cfg_of(p) -> dict:
    return json.loads(p.model_dump_json())


def jnorm(x):
    return json.loads(json.dumps(x, default=lambda o: getattr(o, "value", str(o)), ensure_ascii=False))


def direct_outcome(kind: str, cfg: dict) -> dict:
    try:
        return {"ok": build(kind, cfg).get_simulation_environment().model_dump(mode="json")}
    except Exception as e:  # noqa: BLE001
        return {"exc": type(e).__name__}


class RealRunner:
    """executes one segment (no restart inside) of a history on the real memoizers"""

    def __init__(self, root: str):
        self.root = root
        self.heap: list[dict] = []
        self.mem = {}

    def path(self, name: str) -> str:
        return os.path.join(self.root, name)

    def sizes(self) -> dict:
        files = {}
        for n in sorted(os.listdir(self.root)):
            try:
                with open(self.path(n)) as f:
                    files[n] = len(json.load(f))
            except Exception:  # noqa: BLE001
                files[n] = None
        return {"heap_sizes": [len(d) for d in self.heap], "file_sizes": files}

    def memoizer(self, h: dict):
        from simaple.container.memoizer import InMemoryMemoizer, PersistentStorageMemoizer
        if "inmem" in h:
            r = h["inmem"]
            if r >= len(self.heap):
                return None, None
            if r not in self.mem:
                self.mem[r] = InMemoryMemoizer(self.heap[r])
            mz = self.mem[r]
            return mz, (lambda: mz.memos)
        path = self.path(h["file"])
        if not os.path.exists(path):
            return None, None
        mz = PersistentStorageMemoizer(path)

        def store():
            with open(path) as f:
                return json.load(f)
        return mz, store

    def run_op(self, op: dict) -> dict:
        from simaple.container.memoizer import InMemoryMemoizer, PersistentStorageMemoizer
        o = op["op"]
        if o == "new_inmem":
            saved = op.get("saved")
            if saved is None:
                mz = InMemoryMemoizer()
                self.heap.append(mz.memos)
                self.mem[len(self.heap) - 1] = mz
                return {"kind": "ref", "ref": len(self.heap) - 1}
            if saved >= len(self.heap):
                return {"kind": "raised", "msg": "dangling dict"}
            mz = InMemoryMemoizer(self.heap[saved])
            if mz.memos is not self.heap[saved]:
                return {"kind": "raised", "msg": "InMemoryMemoizer copied the saved dict"}
            self.mem[saved] = mz
            return {"kind": "ref", "ref": saved}
        if o == "new_file":
            PersistentStorageMemoizer(self.path(op["path"]))
            return {"kind": "done"}
        if o == "export":
            mz, _ = self.memoizer({"inmem": op["ref"]})
            if mz is None:
                return {"kind": "raised", "msg": "dangling memoizer"}
            ex = mz.export()
            idx = [i for i, d in enumerate(self.heap) if d is ex]
            if not idx:  # export() returned a copy: a new dict object
                self.heap.append(ex)
                idx = [len(self.heap) - 1]
            return {"kind": "ref", "ref": idx[0]}
        if o == "save":
            if op["ref"] >= len(self.heap):
                return {"kind": "raised", "msg": "dangling dict"}
            with open(self.path(op["path"]), "w") as f:
                json.dump(self.heap[op["ref"]], f)
            return {"kind": "done"}
        if o == "load":
            if not os.path.exists(self.path(op["path"])):
                return {"kind": "raised", "msg": "FileNotFoundError"}
            with open(self.path(op["path"])) as f:
                self.heap.append(json.load(f))
            return {"kind": "ref", "ref": len(self.heap) - 1}
        if o == "request":
            mz, store = self.memoizer(op["h"])
            if mz is None:
                return {"kind": "raised", "msg": "dangling"}
            p = build(op["p"]["kind"], op["p"]["cfg"])
            # requests are not always made with freshly constructed providers: every third request derives the provider
            # from the previous provider object of that kind with model_copy(update=...), every other third by
            # assigning the changed fields in place (both are legitimate ways to ask for a different environment)
            self.nreq = getattr(self, "nreq", 0) + 1
            prevs = self.__dict__.setdefault("prev_provider", {})
            prev = prevs.get(op["p"]["kind"])
            if prev is not None and self.nreq % 4 != 0:
                fresh = p
                diff = {k: getattr(fresh, k) for k in type(fresh).model_fields if getattr(fresh, k) != getattr(prev, k)}
                try:
                    if self.nreq % 4 == 1:
                        cand = prev.model_copy(update=diff)
                    elif self.nreq % 4 == 2:
                        for k, v in diff.items():
                            setattr(prev, k, v)
                        cand = prev
                    else:
                        # the SAME provider object again, edited in place inside its nested values
                        # (provider.stat.INT += 5, provider.hexa_skill_levels[name] = 17, ...)
                        for k, v in diff.items():
                            cur = getattr(prev, k)
                            if hasattr(cur, "model_fields") and type(cur) is type(v):
                                for sub in type(cur).model_fields:
                                    if getattr(cur, sub) != getattr(v, sub):
                                        setattr(cur, sub, getattr(v, sub))
                            elif isinstance(cur, dict) and isinstance(v, dict):
                                cur.clear()
                                cur.update(v)
                            else:
                                setattr(prev, k, v)
                        cand = prev
                    if cand == fresh:
                        p = cand
                except Exception:  # noqa: BLE001
                    p = fresh
            # ... and every other request of the star pattern re-uses THE provider object of the previous request to the
            # same memoizer, edited in place (nested values included) to the new configuration
            lasts = self.__dict__.setdefault("last_on_handle", {})
            hkey = json.dumps(op["h"], sort_keys=True)
            mode_ = (op.get("meta") or {}).get("mode")
            old = lasts.get(hkey)
            if old is not None and type(old) is type(p) and mode_ in ("star", "return"):
                try:
                    for k in type(p).model_fields:
                        cur, v = getattr(old, k), getattr(p, k)
                        if cur == v:
                            continue
                        if hasattr(cur, "model_fields") and type(cur) is type(v):
                            for sub in type(cur).model_fields:
                                if getattr(cur, sub) != getattr(v, sub):
                                    setattr(cur, sub, getattr(v, sub))
                        elif isinstance(cur, dict) and isinstance(v, dict):
                            cur.clear()
                            cur.update(v)
                        else:
                            setattr(old, k, v)
                    if old == p:
                        p = old
                except Exception:  # noqa: BLE001
                    pass
            lasts[hkey] = p
            prevs[op["p"]["kind"]] = p
            captured = {}
            orig = mz.memoize

            def spy(prov):
                memo, hit = orig(prov)
                captured["hit"] = bool(hit)
                captured["memo"] = json.loads(memo.model_dump_json())
                captured["obj"] = memo
                return memo, hit
            mz.memoize = spy
            try:
                try:
                    env = mz.compute_environment(p)
                    out = {"ok": env.model_dump(mode="json")}
                except Exception as e:  # noqa: BLE001
                    out = {"exc": type(e).__name__, "msg": str(e)[:200]}
            finally:
                del mz.memoize
            # the provider memoize() handed out for the PREVIOUS request to this memoizer is a value of its own: asked
            # again now, after this request, it still answers what it answered then
            late = None
            handed = self.__dict__.setdefault("handed_out", {})
            if hkey in handed:
                old_obj, old_env = handed.pop(hkey)
                try:
                    again = old_obj.get_simulation_environment().model_dump(mode="json")
                except Exception as e:  # noqa: BLE001
                    again = {"exc": type(e).__name__}
                if again != old_env:
                    late = {"differs_in": sorted(k for k in set(old_env) | set(again)
                                                 if old_env.get(k) != (again.get(k) if isinstance(again, dict) else None))[:8]}
            if "obj" in captured and "ok" in out:
                handed[hkey] = (captured["obj"], out["ok"])
            if "hit" not in captured:
                if "ok" in out:
                    # an answer that did not go through memoize() at all: still an answer, judged against the direct one
                    return {"kind": "answer", "hit": False, "bypassed_memo": True, "env": out, "key": mz._compute_memo_key(p),
                            "entry_sha": None, "memo_part": None, "indep_part": None, "want_indep": None}
                return {"kind": "raised", "msg": out.get("exc", "?")}
            key = mz._compute_memo_key(p)
            text = store().get(key)
            try:
                want_indep = jnorm(p.get_memoization_independent_environment())
            except Exception as e:  # noqa: BLE001
                want_indep = {"exc": type(e).__name__}
            return {"kind": "answer", "hit": captured["hit"], "env": out, "key": key, "late": late,
                    "entry_sha": hashlib.sha256(text.encode()).hexdigest()[:16] if text is not None else None,
                    "memo_part": captured["memo"]["memoizable_environment"],
                    "indep_part": captured["memo"]["independent_environment"], "want_indep": want_indep}
        raise ValueError(o)


def worker_main():
    import logging
    try:
        from loguru import logger
        logger.remove()
    except Exception:  # noqa: BLE001
        pass
    logging.disable(logging.CRITICAL)
    job = json.load(sys.stdin)
    out = {}
    for h in job["jobs"]:
        rr = RealRunner(h["dir"])
        res = []
        for op in h["ops"]:
            t = time.time()
            try:
                r = rr.run_op(op)
            except Exception as e:  # noqa: BLE001
                r = {"kind": "crashed", "msg": f"{type(e).__name__}: {e}"[:300]}
            r.update(rr.sizes())
            r["t"] = round(time.time() - t, 3)
            res.append(r)
        out[h["hid"]] = res
    json.dump({"results": out, "pid": os.getpid()}, sys.stdout)


# =================================================================================================== histories
def alt_value(kind: str, f: str, cfg: dict, rng, profile_names):
    """a valid value of field f different from cfg[f]; None if there is none in the current configuration"""
    v = cfg[f]
    if f == "jobtype":
        if cfg["hexa_mastery_skill_levels"] or cfg["hexa_skill_levels"] or cfg["hexa_improvement_levels"]:
            return None  # explicit names belong to the current job
        return rng.choice([j for j in (JOBS if kind == KINDS[0] else JOBS[:6]) if j != v])
    if f == "tier":
        return rng.choice([t for t in TIERS[:3] if t != v])
    if f in ("hexa_mastery_skill_levels", "hexa_skill_levels", "hexa_improvement_levels"):
        names = profile_names(cfg["jobtype"])[f]
        if not names:
            return None
        new = dict(v)
        n = rng.choice(names)
        new[n] = (new.get(n, 0) % 20) + rng.randint(1, 9)
        return new
    if f == "stat":
        new = dict(v)
        k = rng.choice(sorted(new))
        new[k] = new[k] + rng.randint(1, 64) / 8 if k != "ignored_defence" else (new[k] + 12.5) % 100
        return new
    if f == "action_stat":
        new = dict(v)
        k = rng.choice(sorted(new))
        new[k] = new[k] + rng.randint(1, 40) / 4
        return new
    if isinstance(v, bool):
        return not v
    if isinstance(v, float):
        return v + rng.choice([0.25, 0.5, 1.5])
    if isinstance(v, int):
        if f == "combat_orders_level":
            return rng.choice([x for x in (0, 1, 2) if x != v])
        if f == "passive_skill_level":
            return rng.choice([x for x in (0, 1, 2) if x != v])
        if f in ("level", "mob_level"):
            return v + rng.choice([-3, -1, 1, 2, 5])
        if f in ("propensity_level", "link_count", "union_block_count", "artifact_level"):
            return v - rng.choice([1, 2, 3])
        return max(0, v + rng.choice([-2, -1, 1, 3, 7])) if v > 2 else v + rng.choice([1, 2, 5])
    return None  # a field of a type this harness has no alternative for: not exercised (visible in coverage)


def make_profile_names():
    cache = {}

    def names(job: str):
        if job not in cache:
            from simaple.core import JobType
            from simaple.data.jobs import get_skill_profile
            sp = get_skill_profile(JobType(job))
            cache[job] = {"hexa_skill_levels": sorted(sp.hexa_skill_names),
                          "hexa_mastery_skill_levels": sorted(sp.hexa_mastery.values()),
                          "hexa_improvement_levels": sorted(sp.hexa_improvement_names)}
        return cache[job]
    return names


def minimal_base(rng, explicit: bool, profile_names) -> dict:
    from simaple.container.environment_provider import MinimalEnvironmentProvider
    from simaple.core import ActionStat, JobType, Stat
    job = rng.choice(JOBS)
    stat_fields = list(Stat.model_fields)
    stat = {k: rng.randint(0, 40000) / 8 for k in rng.sample(stat_fields, 6)}
    if "ignored_defence" in stat:
        stat["ignored_defence"] = rng.randint(0, 700) / 8
    kw = dict(level=rng.randint(200, 295), action_stat=ActionStat(buff_duration=rng.randint(0, 200) / 4),
              stat=Stat(**stat), jobtype=JobType(job), weapon_pure_attack_power=rng.randint(0, 400),
              combat_orders_level=rng.choice([0, 1, 2]))
    if explicit:
        kw.update(use_doping=rng.random() < 0.5, armor=rng.randint(0, 400), mob_level=rng.randint(200, 290),
                  force_advantage=rng.choice([1.0, 1.5, 0.8]), v_skill_level=rng.randint(1, 30),
                  hexa_skill_level=rng.randint(1, 30), hexa_mastery_level=rng.randint(1, 30),
                  v_improvements_level=rng.randint(0, 60), hexa_improvements_level=rng.randint(0, 30),
                  weapon_attack_power=rng.randint(0, 700))
        nm = profile_names(job)
        for f in ("hexa_skill_levels", "hexa_mastery_skill_levels", "hexa_improvement_levels"):
            if nm[f] and rng.random() < 0.7:
                kw[f] = {rng.choice(nm[f]): rng.randint(1, 25)}
    return cfg_of(MinimalEnvironmentProvider(**kw))


def baseline_base(rng, explicit: bool) -> dict:
    from simaple.container.environment_provider import BaselineEnvironmentProvider
    from simaple.core import JobType
    job = rng.choice(JOBS[:6])
    kw = dict(tier=rng.choice(TIERS[:2]), union_block_count=rng.randint(20, 40), artifact_level=rng.randint(20, 45),
              jobtype=JobType(job), level=rng.randint(260, 285), passive_skill_level=rng.choice([0, 1]),
              combat_orders_level=rng.choice([1, 2]), propensity_level=rng.choice([100, 100, rng.randint(0, 100)]),
              link_count=rng.choice([13, rng.randint(6, 13)]))
    if explicit:
        kw.update(armor=rng.randint(100, 380), mob_level=rng.randint(250, 285), hexa_skill_level=rng.randint(1, 20),
                  weapon_attack_power=rng.randint(0, 500), weapon_pure_attack_power=rng.randint(0, 300))
    return cfg_of(BaselineEnvironmentProvider(**kw))


class History:
    def __init__(self, hid: str, kind: str):
        self.hid, self.kind = hid, kind
        self.ops: list[dict] = []
        self.next_id = 0

    def op(self, **kw):
        self.ops.append(kw)

    def request(self, handle: dict, cfg: dict, **meta):
        self.next_id += 1
        self.ops.append({"op": "request", "h": handle, "p": {"kind": self.kind, "id": self.next_id, "cfg": cfg},
                         "meta": meta})

    def segments(self) -> list[list[int]]:
        segs, cur = [], []
        for i, op in enumerate(self.ops):
            if op["op"] == "restart":
                segs.append(cur)
                cur = []
            else:
                cur.append(i)
        segs.append(cur)
        return segs

    def lean_ops(self) -> list[dict]:
        out = []
        for op in self.ops:
            if op["op"] == "request":
                p = op["p"]
                out.append({"op": "request", "h": op["h"],
                            "p": {"kind": p["kind"], "id": p["id"],
                                  "fields": [[f, json.dumps(v, sort_keys=True, ensure_ascii=False)]
                                             for f, v in p["cfg"].items()]}})
            else:
                out.append({k: v for k, v in op.items() if k != "meta"})
        return out


def key_collisions(kind: str, base: dict, fields, rng, profile_names, tries: int = 10) -> list:
    """(field, value) pairs whose one-field change of `base` leaves get_memoization_key() EQUAL: the candidates for
    two different characters sharing one memo entry (cheap: no environment is computed).  Whether the characters
    really differ is decided afterwards by the requests themselves."""
    out = []
    try:
        k0 = jnorm(build(kind, base).get_memoization_key())
    except Exception:  # noqa: BLE001
        return out
    for f in fields:
        seen = []
        cands = []
        if isinstance(base.get(f), int) and not isinstance(base.get(f), bool):
            cands = [base[f] + d for d in (5, -5, 1, -1, 2, -2, 3, -3, 4, -4, 10, -10) if base[f] + d >= 0]
        elif isinstance(base.get(f), float):
            cands = [base[f] + 4e-7, math.nextafter(base[f], math.inf), base[f] + 1e-3]
        elif isinstance(base.get(f), dict) and base[f] and all(isinstance(x, (int, float)) and not isinstance(x, bool)
                                                                for x in base[f].values()):
            # a block of numbers (stat, action_stat): one of them moved by less than any sensible rounding
            for name in sorted(base[f])[:6]:
                for d in (4e-7, 1e-9, 1e-3):
                    nv = dict(base[f])
                    nv[name] = float(nv[name]) + d
                    cands.append(nv)
                nv = dict(base[f])
                nv[name] = math.nextafter(float(nv[name]), math.inf)
                cands.append(nv)
        for _ in range(tries):
            v = alt_value(kind, f, base, rng, profile_names)
            if v is not None:
                cands.append(v)
        for v in cands:
            if v in seen:
                continue
            seen.append(v)
            var = dict(base)
            var[f] = v
            try:
                k1 = jnorm(build(kind, var).get_memoization_key())
            except Exception:  # noqa: BLE001
                continue
            if k1 == k0:
                out.append((f, v))
                break
    return out


def standard_history(hid, kind, base, star_fields, chain_fields, rng, profile_names, first_handles,
                     extra_after_import=True, chain_handles=None, forced=None) -> History:
    """new memoizers -> star (base, base[f], base, ...) -> chain (cumulative one-field changes) -> export, json
    save, load, re-import (alias and copy; the file memoizer's own file imported into an in-memory memoizer)
    -> restart -> file memoizers on the old file and on the exported json, in-memory memoizers on the loaded
    jsons -> replay of every provider seen through every memoizer that should know it (all hits)"""
    H = History(hid, kind)
    mem, fil = {"inmem": 0}, {"file": "a.json"}
    H.op(op="new_inmem", saved=None)
    H.op(op="new_file", path="a.json")
    by_name = {"inmem": mem, "file": fil}
    seen: list[dict] = []
    asked = {"inmem": [], "file": []}

    def ask(cfg, **meta):
        names = first_handles if (meta["mode"] != "chain" or chain_handles is None) else chain_handles
        for n in names:
            H.request(by_name[n], cfg, **meta)
            if cfg not in asked[n]:
                asked[n].append(cfg)
        if cfg not in seen:
            seen.append(cfg)

    ask(base, mode="base", field=None)
    for f in star_fields:
        v = (forced or {}).get(f)
        if v is None:
            v = alt_value(kind, f, base, rng, profile_names)
        if v is None:
            continue
        var = dict(base)
        var[f] = v
        ask(var, mode="star", field=f, prev=base)
        ask(base, mode="return", field=f, prev=var)
    cur = base
    for f in chain_fields:
        v = alt_value(kind, f, cur, rng, profile_names)
        if v is None:
            continue
        nxt = dict(cur)
        nxt[f] = v
        ask(nxt, mode="chain", field=f, prev=cur)
        cur = nxt
    # export / import inside the process
    H.op(op="export", ref=0)
    H.op(op="save", ref=0, path="x.json")
    H.op(op="load", path="x.json")            # -> ref 1: a copy of the exported dict
    H.op(op="load", path="a.json")            # -> ref 2: the file memoizer's store, imported
    H.op(op="new_inmem", saved=1)
    H.op(op="new_inmem", saved=2)
    H.op(op="new_inmem", saved=0)             # the exported dict itself: an alias
    for cfg in asked["inmem"]:
        H.request({"inmem": 1}, cfg, mode="imported", field=None)
    for cfg in asked["file"]:
        H.request({"inmem": 2}, cfg, mode="imported", field=None)
    if extra_after_import and kind == "MinimalEnvironmentProvider":
        fresh = dict(base)
        fresh["level"] = base["level"] + 11
        H.request({"inmem": 1}, fresh, mode="imported-miss", field="level", prev=base)   # miss in the copy only
        H.request({"inmem": 0}, fresh, mode="alias-miss", field="level", prev=base)      # so a miss here too
        H.request({"inmem": 1}, fresh, mode="imported", field=None)
        asked["inmem"].append(fresh)
        H.op(op="save", ref=1, path="x.json")
    H.op(op="restart")
    H.op(op="new_file", path="a.json")        # the file exists: reused
    H.op(op="load", path="x.json")            # -> ref 0 of the new process
    H.op(op="load", path="a.json")            # -> ref 1
    H.op(op="new_inmem", saved=0)
    H.op(op="new_inmem", saved=1)
    H.op(op="new_file", path="x.json")        # a file memoizer over the exported json
    H.op(op="request", h={"inmem": 3}, p={"kind": kind, "id": 10 ** 6, "cfg": base}, meta={"mode": "dangling"})
    for cfg in asked["inmem"]:
        H.request({"inmem": 0}, cfg, mode="after-restart", field=None)
        H.request({"file": "x.json"}, cfg, mode="after-restart", field=None)
    for cfg in asked["file"]:
        H.request(fil, cfg, mode="after-restart", field=None)
        H.request({"inmem": 1}, cfg, mode="after-restart", field=None)
    return H


# =================================================================================================== main check
def run_workers(groups: list[list[dict]]) -> list:
    env = dict(os.environ)
    procs = []
    for g in groups:
        if not g:
            continue
        p = subprocess.Popen([sys.executable, os.path.abspath(__file__), "--worker"], stdin=subprocess.PIPE,
                             stdout=subprocess.PIPE, stderr=subprocess.DEVNULL, text=True, env=env)
        p.stdin.write(json.dumps({"jobs": g}))
        p.stdin.close()
        procs.append(p)
    return procs


def collect(procs, timeout: float) -> tuple[dict, list[int], list[str]]:
    res, pids, errs = {}, [], []
    t_end = time.time() + timeout
    for p in procs:
        try:
            out = p.stdout.read() if timeout is None else _read_with_deadline(p, t_end)
            p.wait(timeout=5)
            d = json.loads(out)
            res.update(d["results"])
            pids.append(d["pid"])
        except Exception as e:  # noqa: BLE001
            p.kill()
            errs.append(f"{type(e).__name__}: {e}"[:200])
    return res, pids, errs


def _read_with_deadline(p, t_end):
    import threading
    buf = []
    th = threading.Thread(target=lambda: buf.append(p.stdout.read()), daemon=True)
    th.start()
    th.join(max(1.0, t_end - time.time()))
    if th.is_alive():
        raise TimeoutError("worker did not finish in time")
    return buf[0]


def recording_subclass(cls, fields):
    log = {"memo": set(), "indep": set(), "phase": None, "memo_result": None}

    class Rec(cls):  # type: ignore[misc, valid-type]
        def __getattribute__(self, name):
            if log["phase"] is not None and name in fields:
                log[log["phase"]].add(name)
            return super().__getattribute__(name)

        def get_memoizable_environment(self):
            log["phase"] = "memo"
            try:
                r = super().get_memoizable_environment()
                log["memo_result"] = r
                return r
            finally:
                log["phase"] = None

        def get_memoization_independent_environment(self):
            log["phase"] = "indep"
            try:
                return super().get_memoization_independent_environment()
            finally:
                log["phase"] = None
    return Rec, log


def compact(cfg: dict) -> dict:
    out = {}
    for k, v in cfg.items():
        if isinstance(v, dict) and all(isinstance(x, (int, float)) for x in v.values()) and len(v) > 8:
            out[k] = {a: b for a, b in v.items() if b}
        else:
            out[k] = v
    return out


def env_diff(a: dict, b: dict) -> dict:
    if "ok" not in a or "ok" not in b:
        return {"memoized": {k: v for k, v in a.items() if k != "ok"} or "ok", "direct": {k: v for k, v in b.items() if k != "ok"} or "ok"}
    d = {}
    for k in sorted(set(a["ok"]) | set(b["ok"])):
        if a["ok"].get(k) != b["ok"].get(k):
            x, y = a["ok"].get(k), b["ok"].get(k)
            if isinstance(x, dict) and isinstance(y, dict):
                sub = {kk: [x.get(kk), y.get(kk)] for kk in sorted(set(x) | set(y)) if x.get(kk) != y.get(kk)}
                if k == "character":
                    sub = {kk: "differs" for kk in sub}
                d[k] = sub
            else:
                d[k] = [x, y]
    return d


def main(ck):
    from vlib import REPO
    import logging
    try:
        from loguru import logger
        logger.remove()
    except Exception:  # noqa: BLE001
        pass
    logging.disable(logging.CRITICAL)
    from simaple.container.memoizer import CharacterProviderMemo, InMemoryMemoizer
    from simaple.container.simulation import SimulationEnvironment

    rng = ck.rng
    quick = ck.tier == "quick"
    CL = classes()
    profile_names = make_profile_names()
    root = tempfile.mkdtemp(prefix="c20_")

    # ------------------------------------------------------------------ static facts as Python data (for planning)
    suspicious = {k: [] for k in KINDS}
    try:
        import gen_memo
        py_facts = gen_memo.analyse(REPO)
        for k in KINDS:
            s = py_facts["specs"][k]
            suspicious[k] = [f for f in s["memoReads"] if f in s["keyExclude"]]
    except Exception as e:  # noqa: BLE001  (reported through ck.regenerate below)
        py_facts = None
        ck.notes.append(f"gen_memo.analyse failed: {type(e).__name__}: {e}"[:300])

    # ------------------------------------------------------------------ histories (pure data)
    hists: list[History] = []
    key_collision_candidates = {k: [] for k in KINDS}
    n_min = 3 if quick else 12
    for i in range(n_min):
        base = minimal_base(rng, explicit=(i % 2 == 1), profile_names=profile_names)
        fields = list(CL[KINDS[0]].model_fields)
        mreads = py_facts["specs"][KINDS[0]]["memoReads"] if py_facts else fields
        coll = key_collisions(KINDS[0], base, [f for f in fields if f in mreads], rng, profile_names)
        key_collision_candidates[KINDS[0]] += [f"{f}={v!r}" for f, v in coll]
        star = [f for f, _ in coll] + suspicious[KINDS[0]] + [f for f in rng.sample(fields, len(fields)) if f not in suspicious[KINDS[0]]]
        star = list(dict.fromkeys(star))
        chain = rng.sample(fields, len(fields))
        # keep the job fixed while explicit names are set: change jobtype first in the chain
        chain.sort(key=lambda f: f != "jobtype")
        hists.append(standard_history(f"min{i}", KINDS[0], base, star, chain, rng, profile_names, ("inmem", "file"),
                                      forced=dict(coll)))
    bfields = list(CL[KINDS[1]].model_fields)
    bspec_reads = (py_facts["specs"][KINDS[1]]["memoReads"] if py_facts else bfields[:10])
    bspec_excl = (py_facts["specs"][KINDS[1]]["keyExclude"] if py_facts else bfields[10:])
    if quick:
        base = baseline_base(rng, explicit=False)
        memo_pick = [f for f in bfields if f in bspec_reads and f not in suspicious[KINDS[1]]]
        excl_pick = [f for f in bfields if f in bspec_excl and f not in suspicious[KINDS[1]]]
        coll = key_collisions(KINDS[1], base, [f for f in bfields if f in bspec_reads], rng, profile_names)
        key_collision_candidates[KINDS[1]] += [f"{f}={v!r}" for f, v in coll]
        star = [f for f, _ in coll][:3] + suspicious[KINDS[1]][:3] + rng.sample(excl_pick, min(2, len(excl_pick))) + rng.sample(memo_pick, 1)
        star = list(dict.fromkeys(star))
        hists.append(standard_history("base0", KINDS[1], base, star, [], rng, profile_names, ("inmem",),
                                      extra_after_import=False, forced=dict(coll)))
    else:
        for i in range(3):
            # base0: every field through an in-memory memoizer + a cumulative chain over every field through a
            # file-backed one; base1: every field through a file-backed memoizer; base2: twelve fields through
            # both kinds in lock step
            base = baseline_base(rng, explicit=(i >= 1))
            order = rng.sample(bfields, len(bfields))
            coll = key_collisions(KINDS[1], base, [f for f in bfields if f in bspec_reads], rng, profile_names)
            key_collision_candidates[KINDS[1]] += [f"{f}={v!r}" for f, v in coll]
            star = [f for f, _ in coll] + suspicious[KINDS[1]] + [f for f in (order if i < 2 else order[:12]) if f not in suspicious[KINDS[1]]]
            star = list(dict.fromkeys(star))
            chain = rng.sample(bfields, len(bfields)) if i == 0 else []
            chain.sort(key=lambda f: f != "jobtype")
            hists.append(standard_history(f"base{i}", KINDS[1], base, star, chain, rng, profile_names,
                                          [("inmem",), ("file",), ("inmem", "file")][i], extra_after_import=False,
                                          chain_handles=("file",), forced=dict(coll)))

    # ------------------------------------------------------------------ real code: segment 1 in fresh processes
    for h in hists:
        os.makedirs(os.path.join(root, h.hid))
    n_seg = max(len(h.segments()) for h in hists)
    real: dict[str, list] = {h.hid: [None] * len(h.ops) for h in hists}
    pids_seen: list[int] = []

    def launch(seg_no: int):
        groups: dict[str, list] = {}
        for h in hists:
            segs = h.segments()
            if seg_no >= len(segs):
                continue
            ops = [h.ops[i] for i in segs[seg_no]]
            g = "minimal" if h.kind == KINDS[0] else h.hid
            groups.setdefault(g, []).append({"hid": h.hid, "dir": os.path.join(root, h.hid), "ops": ops})
        return run_workers(list(groups.values()))

    def absorb(seg_no: int, res: dict):
        for h in hists:
            segs = h.segments()
            if seg_no < len(segs) and h.hid in res:
                for i, r in zip(segs[seg_no], res[h.hid]):
                    real[h.hid][i] = r

    procs = launch(0)

    # ------------------------------------------------------------------ Lean: regenerate, prove, run the model
    with ck.locked():
        ok_gen = ck.regenerate(["memo"])
        proved = ok_gen and ck.prove("Simaple.Props.C20")
        if ck.tier == "thorough" and proved:
            ck.leanchecker(["Simaple.Props.C20"])
        reqs = [{"fn": "memo_specs"}] + [{"fn": "memo_run", "ops": h.lean_ops()} for h in hists]
        model = ck.driver(reqs) if ok_gen else None
    t_lean = ck.elapsed()
    # the budget of the real-code part starts here: waiting for the shared Lean project lock is not ours to spend
    t_after_lean = time.time()
    real_budget = 55.0 if quick else 720.0

    def time_left() -> float:
        return real_budget - (time.time() - t_after_lean)

    # ------------------------------------------------------------------ meanwhile: oracles + fact cross-checks here
    oracle_cache: dict[str, dict] = {}
    oracle_time = [0.0]

    def oracle(kind, cfg):
        k = kind + json.dumps(cfg, sort_keys=True)
        if k not in oracle_cache:
            t = time.time()
            oracle_cache[k] = direct_outcome(kind, cfg)
            oracle_time[0] += time.time() - t
        return oracle_cache[k]

    dyn = {}
    hser = {"strict_equal": 0, "validated_equal": 0, "checked": 0}
    for kind in KINDS:
        h0 = next(h for h in hists if h.kind == kind)
        base = next(op for op in h0.ops if op["op"] == "request")["p"]["cfg"]
        Rec, log = recording_subclass(CL[kind], set(CL[kind].model_fields))
        rp = Rec.model_validate(base)
        try:
            env = rp.get_simulation_environment()
            # the recording subclass only observes: its answer is the oracle of the base provider
            oracle_cache[kind + json.dumps(base, sort_keys=True)] = {"ok": env.model_dump(mode="json")}
        except Exception as e:  # noqa: BLE001
            ck.notes.append(f"{kind} base raised {type(e).__name__}")
        p0 = build(kind, base)
        indep = p0.get_memoization_independent_environment()
        dyn[kind] = {"memoReads": sorted(log["memo"]), "indepReadsDynamic": sorted(log["indep"]),
                     "fields": list(CL[kind].model_fields),
                     "memoKeys": list(log["memo_result"] or {}), "indepKeys": list(indep),
                     "keyFields": list(json.loads(p0.get_memoization_key()))}
        # hSer on real data
        if log["memo_result"] is not None:
            mz = InMemoryMemoizer()
            x = CharacterProviderMemo(memoizable_environment=log["memo_result"], independent_environment=indep)
            y = mz._deserialize_output(mz._serialize_output(x))
            hser["checked"] += 1
            hser["strict_equal"] += int(x.memoizable_environment == y.memoizable_environment)
            same = (SimulationEnvironment.model_validate({**indep, **y.memoizable_environment})
                    == SimulationEnvironment.model_validate({**indep, **x.memoizable_environment}))
            hser["validated_equal"] += int(same)
            if not same:
                ck.add_failing({"law": "a stored memo read back validates to the same environment", "kind": kind,
                                "provider": compact(base)})

    # generated facts vs reality
    facts = None
    if model is not None and "ok" in model[0]:
        facts = {s["name"]: s for s in model[0]["ok"]["specs"]}
        for kind in KINDS:
            s, d = facts.get(kind), dyn[kind]
            if s is None:
                ck.broken.append({"kind": "correspondence", "point": "spec missing", "class": kind})
                continue
            pairs = [("declared fields", s["fields"], d["fields"]),
                     ("reads of get_memoizable_environment (recorded on a live object)", sorted(s["memoReads"]), d["memoReads"]),
                     ("reads of the independent part (recorded ∪ include set)", sorted(s["indepReads"]),
                      sorted(set(d["indepReadsDynamic"]) | set(s["indepInclude"]))),
                     ("keys of the memoizable dictionary", sorted(s["memoKeys"]), sorted(d["memoKeys"])),
                     ("keys of the independent dictionary", sorted(s["indepKeys"]), sorted(d["indepKeys"])),
                     ("fields in the memoization key", sorted(s["keyFields"]), sorted(d["keyFields"]))]
            for what, gen, act in pairs:
                if gen != act:
                    ck.broken.append({"kind": "correspondence", "point": what, "class": kind,
                                      "generated": gen, "implementation": act})
        if model[0]["ok"]["simEnvFields"] != list(SimulationEnvironment.model_fields):
            ck.broken.append({"kind": "correspondence", "point": "SimulationEnvironment fields",
                              "generated": model[0]["ok"]["simEnvFields"],
                              "implementation": list(SimulationEnvironment.model_fields)})

    # oracles of every provider of every history, cheapest first (Baseline ones are slow: watch the budget)
    wanted = []
    for h in hists:
        for op in h.ops:
            if op["op"] == "request" and op["meta"].get("mode") != "dangling":
                wanted.append((h.kind, op["p"]["cfg"]))
    skipped_oracles = 0
    reserve = 12 if quick else 60
    if not quick:
        # the slow Baseline oracles of the thorough tier are computed by a small pool of plain processes
        from concurrent.futures import ProcessPoolExecutor
        todo = {}
        for kind, cfg in wanted:
            k = kind + json.dumps(cfg, sort_keys=True)
            if kind == KINDS[1] and k not in oracle_cache and k not in todo:
                todo[k] = (kind, cfg)
        t = time.time()
        with ProcessPoolExecutor(3) as ex:
            futs = {k: ex.submit(direct_outcome, *kc) for k, kc in todo.items()}
            for k, fu in futs.items():
                try:
                    oracle_cache[k] = fu.result(timeout=max(30.0, time_left() - reserve))
                except Exception:  # noqa: BLE001
                    oracle_cache[k] = {"skipped": True}
                    skipped_oracles += 1
        oracle_time[0] += time.time() - t
    for kind, cfg in sorted(wanted, key=lambda kc: kc[0] != KINDS[0]):
        k = kind + json.dumps(cfg, sort_keys=True)
        if k in oracle_cache:
            continue
        if kind == KINDS[1] and time_left() < reserve:
            skipped_oracles += 1
            oracle_cache[k] = {"skipped": True}
            continue
        oracle(kind, cfg)

    res, pids, errs = collect(procs, max(20.0, time_left() + (40 if quick else 200)))
    absorb(0, res)
    pids_seen += pids
    for seg_no in range(1, n_seg):
        procs = launch(seg_no)
        res, pids, e2 = collect(procs, max(20.0, time_left() + 30))
        absorb(seg_no, res)
        pids_seen += pids
        errs += e2
    if errs:
        ck.broken.append({"kind": "harness", "point": "worker process", "errors": errs})
    shutil.rmtree(root, ignore_errors=True)

    # ------------------------------------------------------------------ compare
    evaluations = 0
    distinct = set()
    per_class = {k: {"requests": 0, "hits": 0, "misses": 0} for k in KINDS}
    per_field = {k: {} for k in KINDS}
    per_mode = {}
    samples = []
    corr_points = corr_bad = 0
    key_groups: dict[str, list] = {}
    fails_reported = set()

    for hi, h in enumerate(hists):
        mres = None
        if model is not None and "ok" in model[1 + hi]:
            mres = model[1 + hi]["ok"]
        elif model is not None:
            ck.broken.append({"kind": "correspondence", "point": "memo_run", "history": h.hid, "model": model[1 + hi]})
        writers: dict[str, set] = {}
        for i, op in enumerate(h.ops):
            r = real[h.hid][i]
            if op["op"] == "restart":
                r = {"kind": "done", "heap_sizes": [], "file_sizes": real[h.hid][i - 1]["file_sizes"] if i and real[h.hid][i - 1] else {}}
                real[h.hid][i] = r
            if r is None:
                continue
            if r["kind"] == "crashed":
                ck.broken.append({"kind": "harness", "point": "operation crashed", "history": h.hid, "op": op["op"], "msg": r["msg"]})
                continue
            is_req = op["op"] == "request" and r["kind"] == "answer"
            if is_req and not r["hit"] and r["entry_sha"]:
                writers.setdefault(r["entry_sha"], set()).add(str(op["p"]["id"]))
            # ---- model vs real
            if mres is not None:
                m = mres[i]
                corr_points += 1
                bad = None
                if m["kind"] != r["kind"]:
                    bad = "kind of result"
                elif m["kind"] == "ref" and m["ref"] != r["ref"]:
                    bad = "returned dict reference"
                elif m["heap_sizes"] != r["heap_sizes"]:
                    bad = "sizes of the in-memory stores"
                elif {a: b for a, b in m["file_sizes"]} != r["file_sizes"]:
                    bad = "sizes of the file stores"
                elif is_req:
                    if m["hit"] != r["hit"]:
                        bad = "hit flag"
                    elif m["indep_origin"] != str(op["p"]["id"]):
                        bad = "model: independent part not from the current request"
                    elif r["hit"] and m["memo_origin"] not in writers.get(r["entry_sha"], set()):
                        bad = "which stored entry answered"
                    elif not r["hit"] and m["memo_origin"] != str(op["p"]["id"]):
                        bad = "model: a miss must answer with its own memoizable part"
                if bad:
                    corr_bad += 1
                    if corr_bad <= 5:
                        ck.broken.append({"kind": "correspondence", "point": bad, "history": h.hid, "op_index": i,
                                          "op": {k: v for k, v in op.items() if k not in ("p",)},
                                          "model": {k: v for k, v in m.items() if k != "env"},
                                          "implementation": {k: v for k, v in r.items() if k in
                                                             ("kind", "ref", "hit", "heap_sizes", "file_sizes", "entry_sha", "msg")}})
            if not is_req:
                continue
            # ---- the property on the real code
            kind, cfg, meta = h.kind, op["p"]["cfg"], op["meta"]
            mz_kind = "in-memory" if "inmem" in op["h"] else "file-backed"
            want = oracle_cache.get(kind + json.dumps(cfg, sort_keys=True), {"skipped": True})
            per_class[kind]["requests"] += 1
            per_class[kind]["hits" if r["hit"] else "misses"] += 1
            per_mode[meta["mode"]] = per_mode.get(meta["mode"], 0) + 1
            if meta.get("field"):
                pf = per_field[kind].setdefault(meta["field"], {"hit": 0, "miss": 0})
                pf["hit" if r["hit"] else "miss"] += 1
            key_groups.setdefault(r["key"], []).append((kind, cfg, want))

            def report(law, **extra):
                sig = (law, kind, meta.get("field"), meta["mode"], mz_kind, r["hit"])
                if sig in fails_reported:
                    return
                fails_reported.add(sig)
                item = {"law": law, "provider_kind": kind, "memoizer": mz_kind, "history_phase": meta["mode"],
                        "changed_field": meta.get("field"), "hit": r["hit"], "history": h.hid, "op_index": i,
                        "provider": compact(cfg)}
                if meta.get("prev") is not None:
                    item["previous_request_differs_in"] = {f: [meta["prev"].get(f), cfg.get(f)] for f in cfg
                                                           if meta["prev"].get(f) != cfg.get(f)}
                item.update(extra)
                if kind == KINDS[0] and meta.get("prev") is not None:
                    # minimal two-request reproduction on the real code
                    try:
                        if mz_kind == "in-memory":
                            m2, ctor = InMemoryMemoizer(), "InMemoryMemoizer()"
                        else:
                            from simaple.container.memoizer import PersistentStorageMemoizer
                            tmpf = tempfile.mkdtemp(prefix="c20r_")
                            m2, ctor = PersistentStorageMemoizer(os.path.join(tmpf, "m.json")), "PersistentStorageMemoizer(tmp)"
                        m2.compute_environment(build(kind, meta["prev"]))
                        got = m2.compute_environment(build(kind, cfg)).model_dump(mode="json")
                        exp = build(kind, cfg).get_simulation_environment().model_dump(mode="json")
                        item["two_request_reproduction"] = {
                            "script": f"m = {ctor}; m.compute_environment(P(prev)); "
                                      "m.compute_environment(P(cur)) == P(cur).get_simulation_environment()",
                            "holds": got == exp}
                    except Exception as e:  # noqa: BLE001
                        item["two_request_reproduction"] = {"error": type(e).__name__}
                    if mz_kind != "in-memory":
                        shutil.rmtree(tmpf, ignore_errors=True)
                ck.add_failing(item)

            if "skipped" not in want:
                evaluations += 1
                same = (r["env"].get("ok") == want.get("ok")) if ("ok" in want and "ok" in r["env"]) else \
                       ("exc" in want and "exc" in r["env"])
                if not same:
                    report("compute_environment(p) == p.get_simulation_environment()",
                           differs_in=env_diff(r["env"], want))
                if meta.get("prev") is not None:
                    pw = oracle_cache.get(kind + json.dumps(meta["prev"], sort_keys=True), {})
                    if "ok" in pw and "ok" in want and pw["ok"] != want["ok"]:
                        distinct.add((kind, meta.get("field"), mz_kind, meta["mode"], r["hit"]))
                    # sensitivity cross-check of the generated read set
                    if facts and "ok" in pw and "ok" in want and meta.get("field") and meta["mode"] in ("star", "chain"):
                        mk = facts[kind]["memoKeys"]
                        changed = any(pw["ok"].get(k) != want["ok"].get(k) for k in mk)
                        if changed and meta["field"] not in facts[kind]["memoReads"]:
                            ck.broken.append({"kind": "correspondence",
                                              "point": "memoizable part changed with a field outside the generated read set",
                                              "class": kind, "field": meta["field"]})
                if len(samples) < 4 and meta["mode"] in ("star", "after-restart") and (len(samples) % 2 == int(r["hit"])):
                    samples.append({"provider_kind": kind, "memoizer": mz_kind, "phase": meta["mode"],
                                    "changed_field": meta.get("field"), "hit": r["hit"],
                                    "environment_equal_to_direct": same})
            if r.get("bypassed_memo"):
                continue
            if r.get("late"):
                evaluations += 1
                report("the provider memoize() handed out for the previous request to this memoizer still answers the same "
                       "after this request", differs_in=r["late"]["differs_in"])
            # independent part from the current request
            evaluations += 1
            if r["indep_part"] != r["want_indep"]:
                report("independent part of the answer comes from the current request",
                       differs_in={k: [r["indep_part"].get(k), (r["want_indep"] or {}).get(k)]
                                   for k in set(r["indep_part"]) | set(r["want_indep"] or {})
                                   if r["indep_part"].get(k) != (r["want_indep"] or {}).get(k)})
            # memoizable part handed out is the provider's own (up to the JSON round trip)
            if "ok" in want and facts:
                mine = {k: want["ok"].get(k) for k in facts[kind]["memoKeys"]}
                try:
                    own = jnorm(r["memo_part"]) == mine or SimulationEnvironment.model_validate(
                        {**r["want_indep"], **r["memo_part"]}).model_dump(mode="json") == want["ok"]
                except Exception:  # noqa: BLE001
                    own = False
                if not own:
                    report("memoizable part of the answer is the requesting provider's own",
                           differs_in={k: "differs" for k in mine if jnorm(r["memo_part"]).get(k) != mine[k]})

    # no sharing: one key -> one memoizable part
    for key, members in key_groups.items():
        evaluations += 1
        parts = {}
        for kind, cfg, want in members:
            if "ok" in want and facts:
                mp = json.dumps({k: want["ok"].get(k) for k in facts[kind]["memoKeys"]}, sort_keys=True)
                parts.setdefault(mp, (kind, cfg))
        if len(parts) > 1:
            (k1, c1), (k2, c2) = list(parts.values())[:2]
            ck.add_failing({"law": "providers with different memoizable parts never share a memo key", "memo_key": key,
                            "provider_kind": k1, "changed_field": ",".join(f for f in c1 if c1.get(f) != c2.get(f)),
                            "provider_a": compact(c1), "provider_b": compact(c2),
                            "differ_in_fields": [f for f in c1 if c1.get(f) != c2.get(f)]})

    fresh_processes = len(set(pids_seen))
    ck.coverage.update({
        "evaluations": evaluations + corr_points,
        "distinct_nontrivial": len(distinct),
        "rule": "seeded provider configurations of both kinds (8 jobs; defaults and explicit settings); per history: "
                "star (base, base[f], base, ...) and chain (cumulative) sequences in which successive requests differ "
                "in exactly one declared field, through an in-memory and a file-backed memoizer in lock step, then "
                "export -> json save -> load -> re-import (alias and copy), then a process restart and a replay; every "
                "segment runs in a fresh subprocess; each answer compared (model_dump(mode='json')) with "
                "get_simulation_environment() computed without a memoizer in the harness process. A case is distinct/"
                "non-trivial if (kind, changed field, memoizer kind, phase, hit) is new and the one-field change "
                "changed the direct environment",
        "samples": samples,
        "per_class": per_class,
        "per_phase": per_mode,
        "fields_exercised": {k: sorted(v) for k, v in per_field.items()},
        "fields_declared": {k: len(CL[k].model_fields) for k in KINDS},
        "key_collision_candidates_probed_first": key_collision_candidates,
        "per_field_hit_miss": per_field,
        "model_vs_code_points": corr_points,
        "model_vs_code_disagreements": corr_bad,
        "distinct_memo_keys": len(key_groups),
        "fresh_processes": fresh_processes,
        "baseline_oracles_skipped_for_time": skipped_oracles,
        "seconds": {"lean": round(t_lean, 1), "direct_oracles": round(oracle_time[0], 1)},
        "serialization_round_trip": hser,
        "suspicious_fields_from_static_analysis": suspicious,
        "recorded_reads": {k: {"memo": v["memoReads"], "indep": v["indepReadsDynamic"]} for k, v in dyn.items()},
    })
    ck.assumptions += [
        "the canonical JSON dump of the keyed fields is injective and sha256 does not collide (hCanon, hDigest)",
        "the memoizable part is a function of the fields the static read-set extraction lists (hReads); cross-checked "
        "by recording attribute reads on live objects and by the one-field sensitivity runs",
        "a stored memo read back is equal after validation (hSerV); the strict round trip does not hold "
        "(JobType.x comes back as 'x'), measured in coverage.serialization_round_trip",
        "json.dump / json.load of a dict[str, str] is the identity (hJson)",
        "providers that raise are outside the driver correspondence (the model then states: both raise)",
    ]
    ck.finish("proof",
              trusted_base=["Lean 4.33 kernel", "axioms: propext, Classical.choice, Quot.sound (checked by #print axioms)",
                            "gen_memo.py extraction (validated against pydantic model_fields, recorded attribute reads "
                            "and the real dictionaries in this run)",
                            "hand-written memoizer model (validated against the real memoizers on every history of this "
                            "run; its control-flow shape is compared with the shape generated from the source by `decide`)"],
              checker_cmd="cd lean && lake build Simaple.Props.C20 && lake env lean Simaple/Audit/C20.lean")


if __name__ == "__main__":
    if "--worker" in sys.argv:
        worker_main()
    else:
        sys.path.insert(0, os.path.dirname(os.path.abspath(__file__)))
        from vlib import run_check
        run_check("C20", main)
