"""C04 -- incremental re-run (with hint) returns exactly what a full run returns."""
from __future__ import annotations

import json
import random
import time

import yaml

from vlib import Check, run_check, pmap
import simlib
from simlib import JOBS, Recorder, command_text, make_engine, op, console

from simaple.api.base import run_plan, run_plan_with_hint
from simaple.api.models.simulation import OperationLogResponse
from simaple.simulate.policy.parser import parse_simaple_runtime

_HEADERS: dict = {}


def header(job, variant, author="verif"):
    key = (job, variant, author)
    if key not in _HEADERS:
        env = simlib.make_env(job, variant)
        _HEADERS[key] = yaml.safe_dump({"author": author, "environment": json.loads(env.model_dump_json())},
                                       indent=2, allow_unicode=True)
    return _HEADERS[key]


def plan_text(job, variant, lines, author="verif"):
    return f"---\n{header(job, variant, author)}\n---\n" + "\n".join(lines)


def dump(resps):
    return [r.model_dump(mode="json") for r in resps]


def via_json(resps):
    return [OperationLogResponse.model_validate(json.loads(json.dumps(r.model_dump(mode="json")))) for r in resps]


def outcome(fn):
    """result of a run as comparable data: the dumped responses, or the exception class when it raises
    (a plan text the grammar rejects, e.g. an empty body, raises in the full and the incremental run alike)"""
    try:
        return dump(fn())
    except Exception as e:
        return {"raised": type(e).__name__}


def first_diff(a, b):
    if isinstance(a, dict) or isinstance(b, dict):
        return None if a == b else {"what": "one run raised", "incremental": a if isinstance(a, dict) else "ok",
                                    "full": b if isinstance(b, dict) else "ok"}
    if len(a) != len(b):
        return {"what": "number of responses", "incremental": len(a), "full": len(b)}
    for i, (x, y) in enumerate(zip(a, b)):
        if x != y:
            for k in x:
                if x[k] != y.get(k):
                    if k == "logs":
                        for j, (p, q) in enumerate(zip(x[k], y[k])):
                            for kk in p:
                                if p[kk] != q.get(kk):
                                    v1, v2 = p[kk], q.get(kk)
                                    if kk in ("checkpoint", "validity_view", "running_view", "report"):
                                        v1, v2 = "<differs>", "<differs>"
                                    return {"what": f"response {i} log {j} field {kk}", "incremental": v1, "full": v2}
                        return {"what": f"response {i}: number of logs", "incremental": len(x[k]), "full": len(y[k])}
                    return {"what": f"response {i} field {k}", "incremental": x[k], "full": y.get(k)}
    return None


def edits(rng, lines, names, delay_skill):
    """(label, new_lines) pairs: edit positions on both sides of every multiple of 10, suffixes starting with
    each command kind (in particular RESOLVE right after a USE/CAST with a delay)"""
    n = len(lines)
    out = []
    boundary = sorted({i for m in range(10, n + 12, 10) for i in (m - 2, m - 1, m, m + 1) if 0 <= i <= n})
    extra = [f'USE "{delay_skill}"', f'RESOLVE "{delay_skill}"', f'CAST "{delay_skill}"', "ELAPSE 130.0",
             f'KEYDOWNSTOP "{rng.choice(names)}"', "!debug \"viewer('clock')\"", "x3 ELAPSE 10.0", "x0 ELAPSE 5.0"]
    out.append(("unchanged", list(lines)))
    out.append(("append", lines + [rng.choice(extra) for _ in range(rng.randint(1, 4))]))
    for i in boundary:
        # command index i-1 is log index i: cut so that the new suffix starts exactly at log index i
        j = max(0, min(n, i - 1))
        out.append((f"truncate@{j}", lines[:j]))
        out.append((f"insert@{j}", lines[:j] + [rng.choice(extra)] + lines[j:]))
        if j < n:
            out.append((f"delete@{j}", lines[:j] + lines[j + 1:]))
            out.append((f"edit@{j}", lines[:j] + [rng.choice(extra)] + lines[j + 1:]))
        # a delayed USE as the last reused command and RESOLVE as the first new one
        if j >= 1:
            out.append((f"use-then-resolve@{j}", lines[:j - 1] + [f'USE "{delay_skill}"', f'RESOLVE "{delay_skill}"'] + lines[j:]))
            out.append((f"debug-then-resolve@{j}", lines[:j - 1] + ["!debug \"viewer('clock')\"", f'RESOLVE "{delay_skill}"'] + lines[j:]))
    for _ in range(4):
        j = rng.randint(0, n)
        out.append((f"replace-suffix@{j}", lines[:j] + [rng.choice(extra) for _ in range(rng.randint(0, 5))]))
    # change only the text of one debug line (everything after it stays: the matched prefix must stop there)
    for j, line in enumerate(lines):
        if line.startswith("!debug"):
            other = "!debug \"len(viewer('running'))\"" if "running" not in line else "!debug \"viewer('clock')\""
            out.append((f"debug-text@{j}", lines[:j] + [other] + lines[j + 1:]))
    out.append(("empty", []))
    return out


def delay_skill_of(job, variant):
    eng = make_engine(job, variant)
    names = [v.name for v in eng.get_current_viewer()("validity")]
    for nme in names:
        e2 = make_engine(job, variant)
        log = e2.exec(op("USE", nme))
        if any(ev["tag"] == "global.delay" and ev["payload"]["time"] > 0 for ev in log.playlogs[0].events):
            return nme, names
    return names[0], names


def lines_to_cmds(lines):
    if not lines:
        return []
    return parse_simaple_runtime("\n".join(lines))[1]


def engine_logs(job, variant, lines):
    eng = make_engine(job, variant)
    for c in lines_to_cmds(lines):
        eng.exec(c)
    return list(eng.operation_logs())


def enc_resps(rec: Recorder, resps):
    out = []
    for r in resps:
        out.append({"index": r.index, "command": simlib.enc_command(r.command), "description": r.description,
                    "logs": [{"clock": simlib.frac(l.clock), "action": simlib.enc_action(l.action),
                              "events": [simlib.enc_event(e) for e in l.events],
                              "ckpt": None if l.checkpoint is None else rec.ckpts.get(l.checkpoint.store_ckpt)}
                             for l in r.logs]})
    return out, simlib.hash_structure([r.previous_hash for r in resps], [r.hash for r in resps])


def model_view(mresps):
    out = [{"index": r["index"], "command": r["command"], "description": r["description"],
            "logs": [{"clock": l["clock"], "action": l["action"], "events": l["events"], "ckpt": l["ckpt"]}
                     for l in r["logs"]]} for r in mresps]
    return out, simlib.hash_structure([r["prev"] for r in mresps], [r["hash"] for r in mresps])


def unit(job, variant, pi, seed, n_edits, chain_len, want_model):
    rng = random.Random(f"C04:{seed}:{job}:{variant}:{pi}")
    out = {"pairs": 0, "chains": 0, "failing": [], "labels": {}, "reqs": [], "expect": [], "sample": None}
    delay_skill, names = delay_skill_of(job, variant)
    base_cmds = simlib.random_plan(rng, job, variant, rng.randint(21, 33), offgrid=True)
    base = [command_text(c) for c in base_cmds]
    # a few debug lines at fixed places, so that edits can change only the TEXT of a debug line
    for pos in (2, 8, 13, 19, 24):
        if pos < len(base) and not base[pos].startswith("!debug"):
            base.insert(pos, "!debug \"viewer('clock')\"")
    prev_text = plan_text(job, variant, base)
    hist = run_plan(prev_text)
    if pi == 0:
        # ... for EVERY value of every entity field, not only the values this plan reaches
        first_ck = next((pl.checkpoint for resp in hist for pl in resp.logs if pl.checkpoint is not None), None)
        for b in (simlib.perturbed_roundtrip(first_ck.store_ckpt) if first_ck is not None else [])[:2]:
            out["failing"].append({"kind": "checkpoint-field-is-lost-on-restore", "job": job, "variant": variant, **b})
        if out["failing"]:
            return out
    # what the incremental runner restarts from: every checkpoint a result carries restores to a store that saves to it
    for resp in hist:
        for pl in resp.logs:
            if pl.checkpoint is None:
                continue
            try:
                again = pl.checkpoint.restore().save()
            except Exception as e:  # noqa: BLE001
                again = f"{type(e).__name__}: {str(e)[:200]}"
            if again != pl.checkpoint.store_ckpt:
                bad = again if isinstance(again, str) else \
                    {k: [pl.checkpoint.store_ckpt.get(k), again.get(k)] for k in pl.checkpoint.store_ckpt
                     if again.get(k) != pl.checkpoint.store_ckpt.get(k)}
                out["failing"].append({"kind": "checkpoint-of-a-result-does-not-restore-to-itself", "job": job,
                                       "variant": variant, "log_index": resp.index, "previous_plan": base,
                                       "entities: [recorded, after restore]": bad if isinstance(bad, str) else dict(list(bad.items())[:3])})
                return out
    all_edits = edits(rng, base, names, delay_skill)
    rng.shuffle(all_edits)
    must = [e for e in all_edits if e[0].startswith("debug-text")][:3]
    chosen = must + [e for e in all_edits if e not in must][: max(0, n_edits - len(must))]
    out["sample"] = {"job": job, "previous": base[:12], "edit": chosen[0][0], "new": chosen[0][1][:12]}
    for label, new in chosen:
        kind = label.split("@")[0]
        out["labels"][kind] = out["labels"].get(kind, 0) + 1
        new_text = plan_text(job, variant, new)
        full = outcome(lambda: run_plan(new_text))
        for mode, h in (("memory", hist), ("json", via_json(hist))):
            out["pairs"] += 1
            d = first_diff(outcome(lambda: run_plan_with_hint(prev_text, h, new_text)), full)
            if d is not None:
                out["failing"].append({"kind": "hint-differs", "job": job, "variant": variant, "hint": mode,
                                       "edit": label, "previous_plan": base, "new_plan": new, "first_difference": d})
                break
    # different metadata: author only, and a different environment
    for label, new_text in (("other-author", plan_text(job, variant, base + ["ELAPSE 10.0"], author="someone else")),
                            ("other-environment", plan_text(job, (variant + 1) % 3, base[:15]))):
        out["pairs"] += 1
        out["labels"][label] = out["labels"].get(label, 0) + 1
        d = first_diff(outcome(lambda: run_plan_with_hint(prev_text, hist, new_text)), outcome(lambda: run_plan(new_text)))
        if d is not None:
            out["failing"].append({"kind": "hint-differs", "job": job, "edit": label, "previous_plan": base,
                                   "first_difference": d})
    # the same body under an environment that differs in ONE setting (also the ones the engine itself does not read:
    # armour, mob level, force advantage enter the damage figures of the answers only)
    env0 = yaml.safe_load(header(job, variant))
    one_field = {"armor": 380, "mob_level": 280, "force_advantage": 1.5, "level": 265, "weapon_attack_power": 100,
                 "combat_orders_level": 2 - env0["environment"].get("combat_orders_level", 1), "use_doping": False,
                 "v_improvements_level": 40, "passive_skill_level": 1}
    for field in rng.sample(sorted(one_field), 3) + (["armor"] if pi == 0 else []):
        env1 = json.loads(json.dumps(env0))
        env1["environment"][field] = one_field[field]
        body = base if rng.random() < 0.5 else base[: rng.randint(3, len(base))] + ["ELAPSE 10.0"]
        new_text = "---\n" + yaml.safe_dump(env1, indent=2, allow_unicode=True) + "\n---\n" + "\n".join(body)
        label = "one-environment-field"
        out["pairs"] += 1
        out["labels"][label] = out["labels"].get(label, 0) + 1
        full = outcome(lambda: run_plan(new_text))
        for mode, h in (("memory", hist), ("json", via_json(hist))):
            d = first_diff(outcome(lambda: run_plan_with_hint(prev_text, h, new_text)), full)
            if d is not None:
                out["failing"].append({"kind": "hint-differs", "job": job, "variant": variant, "hint": mode,
                                       "edit": f"{label}: {field} -> {one_field[field]}", "previous_plan": base,
                                       "new_plan": body, "first_difference": d})
                break
    # chains: each step's hint is the previous step's incremental output
    cur_lines, cur_text, cur_hist = base, prev_text, hist
    chain_plans = [base]
    for step in range(chain_len):
        label, new = rng.choice(all_edits) if step else rng.choice([e for e in all_edits if e[0] != "empty"])
        new = rng.choice(edits(rng, cur_lines, names, delay_skill))[1] if step else new
        new_text = plan_text(job, variant, new)
        out["chains"] += 1
        if not new:
            continue            # an empty body is not a plan the grammar accepts (covered by the pair edits)
        try:
            inc = run_plan_with_hint(cur_text, cur_hist if step % 2 == 0 else via_json(cur_hist), new_text)
            d = first_diff(dump(inc), outcome(lambda: run_plan(new_text)))
        except Exception as e:
            inc, d = None, {"what": f"exception {type(e).__name__}: {e}"}
        if d is not None:
            out["failing"].append({"kind": "hint-chain-differs", "job": job, "step": step,
                                   "plans": chain_plans + [new], "first_difference": d})
            break
        chain_plans.append(new)
        cur_lines, cur_text, cur_hist = new, new_text, inc
    # model correspondence: the Lean runner over the play table recorded from engine-level runs
    if want_model and not out["failing"]:
        rec = Recorder()
        for lines in chain_plans:
            rec.add_history(engine_logs(job, variant, lines))
        if rec.conflicts:
            out["broken"] = [{"kind": "correspondence", "point": "recorded play table is not functional",
                              "job": job, "conflicts": rec.conflicts[:2]}]
        init = rec.ckpt_id(engine_logs(job, variant, [])[0].playlogs[0])
        impl = []
        cur_text, cur_hist = None, None
        for lines in chain_plans:
            text = plan_text(job, variant, lines)
            res = run_plan(text) if cur_text is None else run_plan_with_hint(cur_text, cur_hist, text)
            impl.append({"incremental": enc_resps(rec, res), "full": enc_resps(rec, run_plan(text))})
            cur_text, cur_hist = text, res
        out["reqs"].append({"fn": "hint", "tables": rec.tables(), "init": init,
                            "plans": [[simlib.enc_command(c) for c in lines_to_cmds(l)] for l in chain_plans],
                            "same_meta": [True] * len(chain_plans)})
        out["expect"].append({"job": job, "plans": chain_plans, "impl": impl})
    return out


def long_unit(job, variant, seed):
    """plans of more than a hundred commands (which logs carry a checkpoint must not depend on how long the WHOLE plan
    is): 104 -> 112 -> 95 -> 131 commands, each step's hint the previous step's incremental output"""
    rng = random.Random(f"C04:long:{seed}:{job}:{variant}")
    out = {"pairs": 0, "chains": 0, "failing": [], "labels": {"long-plan": 0}, "reqs": [], "expect": [], "sample": None}
    cmds = simlib.random_plan(rng, job, variant, 131, with_console=True, max_elapse=3000.0)
    lines = [command_text(c) for c in cmds]
    seq = [lines[:104], lines[:112], lines[:95], lines]
    cur_text, cur_hist = None, None
    for step, body in enumerate(seq):
        text = plan_text(job, variant, body)
        full = outcome(lambda: run_plan(text))
        if cur_text is None:
            inc = run_plan(text)
        else:
            out["pairs"] += 1
            out["labels"]["long-plan"] += 1
            try:
                inc = run_plan_with_hint(cur_text, cur_hist if step % 2 else via_json(cur_hist), text)
            except Exception as e:  # noqa: BLE001
                out["failing"].append({"kind": "hint-differs", "job": job, "variant": variant, "edit": "long-plan",
                                       "lengths": [len(b) for b in seq[: step + 1]],
                                       "first_difference": {"what": f"exception {type(e).__name__}: {e}"}})
                break
            d = first_diff(dump(inc), full)
            if d is not None:
                out["failing"].append({"kind": "hint-differs", "job": job, "variant": variant, "edit": "long-plan",
                                       "lengths": [len(b) for b in seq[: step + 1]], "plan": lines,
                                       "first_difference": d})
                break
        cur_text, cur_hist = text, inc
    return out


def any_unit(kind, args):
    return long_unit(*args) if kind == "long" else unit(*args)


def main(ck: Check):
    quick = ck.tier == "quick"
    jobs = JOBS
    variants = [0] if quick else [0, 1]
    plans_per = 1 if quick else 4
    n_edits = 10 if quick else 40
    chain_len = 3 if quick else 5

    work = [(job, v, pi, ck.seed, n_edits, chain_len, True) for job in jobs for v in variants for pi in range(plans_per)]
    pairs = chains = 0
    labels: dict[str, int] = {}
    samples, reqs, expect = [], [], []
    long_jobs = [JOBS[(ck.seed + k) % len(JOBS)] for k in range(2)] if quick else list(JOBS)
    work_all = [("unit", a) for a in work] + [("long", (job, 0, ck.seed)) for job in long_jobs]
    for args, out in pmap(any_unit, work_all, ck.budget_s * 0.75):
        if args is None:
            ck.notes.append(f"budget reached: {out}")
            if out["done"] < max(4, out["total"] // 2):
                raise TimeoutError(f"only {out['done']}/{out['total']} units finished within the budget")
            continue
        pairs += out["pairs"]
        chains += out["chains"]
        for k, v in out["labels"].items():
            labels[k] = labels.get(k, 0) + v
        if len(samples) < 3 and out["sample"]:
            samples.append(out["sample"])
        for f in out["failing"]:
            ck.add_failing(f)
        ck.broken.extend(out.get("broken", []))
        reqs.extend(out["reqs"])
        expect.extend(out["expect"])

    with ck.locked():
        proved = ck.prove("Simaple.Props.C04")
        if not quick and proved:
            ck.leanchecker(["Simaple.Props.C04"])
        res = ck.driver(reqs, timeout=900)
    disagreements = 0
    if res is not None:
        for r, ex in zip(res, expect):
            ok = "ok" in r
            where = None
            if ok:
                for step, (m, i) in enumerate(zip(r["ok"], ex["impl"])):
                    for which in ("incremental", "full"):
                        if model_view(m[which]) != (i[which][0], i[which][1]):
                            ok, where = False, {"step": step, "which": which}
                            break
                    if not ok:
                        break
            if not ok:
                disagreements += 1
                if disagreements <= 3:
                    ck.broken.append({"kind": "correspondence", "point": "Model.Api (runPlan/runPlanWithHint) vs simaple.api.base",
                                      "job": ex["job"], "plans": ex["plans"], "where": where,
                                      "driver": None if "ok" in r else r})

    ck.coverage.update({
        "evaluations": pairs + chains,
        "distinct_nontrivial": pairs // 2 + chains,
        "rule": "per job: a seeded base plan of 21-33 commands (crossing the checkpoint boundaries at log 10/20/30) and "
                "edits of it: unchanged, append, empty, truncate/insert/delete/edit at every index on both sides of every "
                "multiple of 10, a delayed USE (or a !debug line) as the last reused command with RESOLVE as the first new "
                "one, random suffix replacement, xN multipliers, other author, other environment; each with the hint in "
                "memory and after a JSON round trip; chains where each step's hint is the previous incremental output. "
                "distinct = (base plan, edit) pairs + chain steps",
        "samples": samples,
        "edit_kinds": labels,
        "pairs": pairs,
        "chain_steps": chains,
        "model_runner_replays": len(reqs),
        "model_runner_disagreements": disagreements,
    })
    ck.assumptions += [
        "StoreLaws hypothesis of the theorems (validated by C01's check and by the comparison with the full run here)",
        "the JSON round trip of a response list is the identity on what the runner reads (validated by the json-mode pairs)",
        "views, damage records and report entries of a response are functions of the playlog and its checkpoint (render)",
    ]
    ck.finish("proof",
              trusted_base=["Lean 4.33 kernel", "axioms ⊆ {propext, Classical.choice, Quot.sound}",
                            "hand-written model Simaple/Model/Engine.lean (L6) tied to simaple.api.base by the recorded-play-table replay",
                            "StoreLaws hypothesis", "Lark plan parser (validated by C14), pydantic, json, yaml"],
              checker_cmd="cd lean && lake build Simaple.Props.C04 && lake env lean Simaple/Audit/C04.lean")


if __name__ == "__main__":
    run_check("C04", main)
