"""C16 -- every level configuration builds, runs, and upgrading never weakens a skill.

regenerate Gen/Levels.lean from the shipped YAML + _math.py + patch.py -> prove Simaple.Props.C16 -> correspondence
(generated formulas vs the fields of really built components and of the real SkillLevelPatch/ArithmeticPatch stage at
the same levels; the hand models of get_skill_level / _exclude_hexa_skill / the V and hexa enhancement rules vs the real
functions) -> the property itself on the real code, in a process pool: all 8 jobs x each of the seven level axes swept
with the others fixed (two base points) + a seeded sample of joint configurations: the build succeeds, names are
unique, a lower-tier skill is present iff its 6th-job replacement has level 0, no damage figure of any built skill
decreases when a single level is raised, and a random well-formed plan runs to completion on the built engine.
"""
from __future__ import annotations

import math
import os
import random
import re
import traceback
from fractions import Fraction

import simlib
from simlib import JOBS, REF_STAT, canon, command_text
from vlib import Check, frac_str, parse_frac, pmap, run_check

from simaple.container.environment_provider import MinimalEnvironmentProvider
from simaple.container.simulation import get_skill_components
from simaple.core import ActionStat, JobType, Stat
from simaple.data.jobs import get_skill_profile
from simaple.data.jobs.builtin import _as_reference_variables, _exclude_hexa_skill, get_kms_jobs_repository
from simaple.data.jobs.patch import HexaSkillImprovementPatch, SkillLevelPatch, VSkillImprovementPatch
from simaple.spec.patch import ArithmeticPatch

# axis -> (min, max); the documented ranges of the property statement
AXES = {
    "v_skill_level": (0, 30),
    "hexa_skill_level": (0, 30),
    "hexa_mastery_level": (0, 30),
    "v_improvements_level": (0, 60),
    "hexa_improvements_level": (0, 30),
    "combat_orders_level": (0, 2),
    "passive_skill_level": (0, 2),
}
# the three points the single-axis sweeps are anchored at: the provider's defaults, a mid/high point that makes the
# combat-orders and passive bonuses reach their joint maximum, and a point with hexa mastery 0 (only there are the
# lower-tier skills part of the skill set, so only there can their figures be compared along the other axes)
BASES = {
    "defaults": dict(v_skill_level=30, hexa_skill_level=1, hexa_mastery_level=1, v_improvements_level=60,
                     hexa_improvements_level=0, combat_orders_level=1, passive_skill_level=0),
    "upper": dict(v_skill_level=17, hexa_skill_level=12, hexa_mastery_level=9, v_improvements_level=33,
                  hexa_improvements_level=14, combat_orders_level=2, passive_skill_level=2),
    "lower_tier": dict(v_skill_level=1, hexa_skill_level=0, hexa_mastery_level=0, v_improvements_level=10,
                       hexa_improvements_level=1, combat_orders_level=0, passive_skill_level=1),
}
FORMULA_RE = re.compile(r"^\s*{{(.+)}}\s*$")
TOL = 1e-9


def close(a, b) -> bool:
    return math.isclose(float(a), float(b), rel_tol=TOL, abs_tol=1e-7)


# ------------------------------------------------------------------------------------------------ real code
def make_env(job: str, cfg: dict):
    """MinimalEnvironmentProvider has no passive-skill field (it always passes 0): the environment it returns is
    copied with `passive_skill_level` set, which is what BaselineEnvironmentProvider would pass"""
    kw = {k: v for k, v in cfg.items() if k != "passive_skill_level"}
    env = MinimalEnvironmentProvider(level=270, action_stat=ActionStat(), stat=Stat(**REF_STAT), jobtype=JobType(job),
                                     **kw).get_simulation_environment()
    return env.model_copy(update={"passive_skill_level": cfg.get("passive_skill_level", 0)})


def damage_numbers(x, key=None, path=(), out=None) -> dict:
    """every numeric leaf whose own key (for list elements: the key of the list) contains 'damage', and every
    numeric field of a skill's `modifier` block"""
    if out is None:
        out = {}
    if isinstance(x, dict):
        for k, v in x.items():
            damage_numbers(v, str(k), path + (str(k),), out)
    elif isinstance(x, (list, tuple)):
        for i, v in enumerate(x):
            damage_numbers(v, key, path + (i,), out)
    elif isinstance(x, (int, float)) and not isinstance(x, bool):
        # a skill's `modifier` is a stat block applied to every hit of the skill (final damage, defence ignore, ...):
        # all of its fields are damage figures too
        if key is not None and ("damage" in key or "modifier" in path):
            out[path_text(path)] = x
    return out


def path_text(path) -> str:
    out = ""
    for p in path:
        out += f"[{p}]" if isinstance(p, int) else ("." if out else "") + p
    return out


def parse_path(text: str) -> list:
    out = []
    for m in re.finditer(r"\[(\d+)\]|([^.\[\]]+)", text):
        out.append(int(m.group(1)) if m.group(1) is not None else m.group(2))
    return out


def at_path(x, path):
    for p in path:
        if isinstance(p, int):
            if not isinstance(x, (list, tuple)) or p >= len(x):
                return None
            x = x[p]
        else:
            if not isinstance(x, dict) or p not in x:
                return None
            x = x[p]
    return x


def formula_fields(data, key=None, path=()):
    """(path, text) of the `{{ }}` strings in skill_level under a damage key of a raw spec"""
    if isinstance(data, dict):
        for k, v in data.items():
            yield from formula_fields(v, str(k), path + (str(k),))
    elif isinstance(data, list):
        for i, v in enumerate(data):
            yield from formula_fields(v, key, path + (i,))
    elif isinstance(data, str) and key is not None and "damage" in key:
        m = FORMULA_RE.search(data)
        if m and re.search(r"(?<![0-9A-Za-z_.])skill_level(?![0-9A-Za-z_.])", m.group(1)):
            yield path, m.group(1).strip()


def patches_of(env):
    ref = _as_reference_variables({
        "character_stat": env.character.stat, "character_level": env.level,
        "weapon_attack_power": env.weapon_attack_power, "weapon_pure_attack_power": env.weapon_pure_attack_power,
        "passive_skill_level": env.passive_skill_level, "combat_orders_level": env.combat_orders_level})
    slp = SkillLevelPatch(combat_orders_level=env.combat_orders_level, passive_skill_level=env.passive_skill_level,
                          default_skill_levels=env.skill_levels)
    return slp, ArithmeticPatch(variables=ref), ref


def later_modified(loader_groups) -> set:
    """(skill name or name fragment, key) pairs the PassiveHyperskill / SkillImprovement patches rewrite"""
    repo = get_kms_jobs_repository()
    out = set()
    for g in loader_groups:
        for spec in repo.get_all(kind="PassiveHyperskill", group=g):
            d = spec.data
            if "target" in d and "key" in d:
                out.add((d["target"], d["key"], "exact"))
        for spec in repo.get_all(kind="SkillImprovement", group=g):
            for adv in spec.data.get("advantages", []):
                out.add((adv.get("target_name"), adv.get("target_field"), "substring"))
    return out


def correspondence_points(job, env, comps) -> dict:
    """what the real code computes for every damage formula of the job's specs at this environment"""
    profile = get_skill_profile(JobType(job))
    groups = profile.get_groups()
    repo = get_kms_jobs_repository()
    slp, ap, ref = patches_of(env)
    by_name = {c.name: c for c in comps}
    modified = later_modified(groups)
    points, origins, names = [], [], []
    for g in groups:
        for spec in repo.get_all(kind="Component", group=g):
            d = spec.data
            names.append(d["name"])
            origins.append({"name": d.get("name") or None, "default": d.get("default_skill_level"),
                            "passive_enabled": bool(d.get("passive_skill_enabled", False)),
                            "combat_enabled": bool(d.get("combat_orders_enabled", False)),
                            "real": slp.get_skill_level(d), "group": g})
            fields = list(formula_fields(d))
            if not fields:
                continue
            level = slp.get_skill_level(d)
            staged = ap.apply(slp.apply(d))
            rep = d.get("representative_name", d["name"])
            for path, text in fields:
                top = path[0]
                touched = any((kind == "exact" and t == rep and k == top) or
                              (kind == "substring" and t is not None and t in d["name"] and k == top)
                              for t, k, kind in modified)
                comp = by_name.get(d["name"])
                built = None if comp is None else at_path(comp.model_dump(), list(path))
                points.append({"group": g, "skill": d["name"], "field": path_text(path), "source": text,
                               "level": level, "staged": at_path(staged, list(path)),
                               "built": built, "present": comp is not None, "touched_later": touched})
        for spec in repo.get_all(kind="SkillImprovement", group=g):
            d = spec.data
            advs = d.get("advantages") or []
            staged = None
            for i, adv in enumerate(advs):
                v = adv.get("value")
                if "damage" in str(adv.get("target_field", "")) and isinstance(v, str) and FORMULA_RE.search(v) \
                        and "skill_level" in v:
                    if staged is None:
                        staged = ap.apply(slp.apply(d))
                    points.append({"group": g, "skill": d["name"],
                                   "field": f"advantages[{i}].value -> {adv.get('target_name')}.{adv.get('target_field')}",
                                   "source": FORMULA_RE.search(v).group(1).strip(),
                                   "level": slp.get_skill_level(d), "staged": staged["advantages"][i]["value"],
                                   "built": None, "present": False, "touched_later": False})
    repl = profile.get_skill_replacements()
    stubs = [type("C", (), {"name": n})() for n in names]
    try:
        kept = {"kept": [c.name for c in _exclude_hexa_skill(stubs, repl, env.skill_levels)]}
    except AssertionError as e:
        kept = {"assert": str(e)[:60]}
    return {"points": points, "origins": origins, "names": names, "repl": [[a, b] for a, b in repl.items()],
            "levels": [[k, v] for k, v in env.skill_levels.items()], "kept": kept,
            "vars": {k: frac_str(Fraction(v)) for k, v in ref.items() if isinstance(v, (int, float)) and v is not None},
            "passive": env.passive_skill_level, "combat": env.combat_orders_level}


class _Recorder:
    """engine proxy that remembers the commands random_plan executed (so that a raising command is reported)"""

    def __init__(self, eng):
        self.eng = eng
        self.cmds = []

    def exec(self, c):
        self.cmds.append(c)
        return self.eng.exec(c)

    def get_current_viewer(self):
        return self.eng.get_current_viewer()


_REAL_MAKE_ENGINE = simlib.make_engine


def run_plan(job, cfg, comps, action_stat, seed, n):
    """simlib.random_plan (ELAPSE <= 10 s) generated against, and then replayed on, an engine built from exactly
    these components; returns None or a failure description"""
    variant = "C16:" + canon(cfg)
    key = (job, variant, canon({}))
    simlib._SKILL_CACHE[key] = (comps, action_stat)
    last = {}

    def recording(job_, variant_=0, **over):
        last["rec"] = _Recorder(_REAL_MAKE_ENGINE(job_, variant_, **over))
        return last["rec"]

    rng = random.Random(f"C16:plan:{seed}:{job}:{canon(cfg)}")
    simlib.make_engine = recording
    try:
        try:
            cmds = simlib.random_plan(rng, job, variant, n, max_elapse=10000.0)
        except Exception as e:  # noqa: BLE001
            done = [command_text(c) for c in last["rec"].cmds] if "rec" in last else []
            return {"phase": "first run", "error": f"{type(e).__name__}: {e}"[:300], "plan": done,
                    "trace": traceback.format_exc()[-600:]}
        simlib.make_engine = _REAL_MAKE_ENGINE
        eng = simlib.make_engine(job, variant)
        done = []
        try:
            for c in cmds:
                done.append(command_text(c))
                eng.exec(c)
        except Exception as e:  # noqa: BLE001
            return {"phase": "replay", "error": f"{type(e).__name__}: {e}"[:300], "plan": done,
                    "trace": traceback.format_exc()[-600:]}
        return {"ok": True, "commands": len(cmds), "sample": [command_text(c) for c in cmds[:8]]}
    finally:
        simlib.make_engine = _REAL_MAKE_ENGINE
        simlib._SKILL_CACHE.pop(key, None)


def build(job, cfg, seed, plan_len, want_corr):
    """one configuration on the real code: build, names, exclusion rule, damage figures, plan"""
    out = {"job": job, "cfg": cfg, "failing": [], "damage": None, "corr": None, "plan": None, "levels": {}}
    try:
        env = make_env(job, cfg)
        comps = get_skill_components(env)
    except Exception as e:  # noqa: BLE001
        out["failing"].append({"kind": "build-fails", "job": job, "config": cfg,
                               "error": f"{type(e).__name__}: {str(e)[-300:]}"})
        return out
    names = [c.name for c in comps]
    dup = sorted({n for n in names if names.count(n) > 1})
    if dup:
        out["failing"].append({"kind": "duplicate-names", "job": job, "config": cfg, "names": dup})
    profile = get_skill_profile(JobType(job))
    out["replacement_cases"] = 0
    # the level each skill is CONFIGURED at, from the configuration itself and the profile's raw name lists (never read
    # back from the environment under test): v cores, then origin (hexa) skills, then mastery cores, then the two
    # explicit per-skill tables
    configured = {}
    configured.update({k: cfg["v_skill_level"] for k in profile.v_skill_names})
    configured.update({k: cfg["hexa_skill_level"] for k in profile.hexa_skill_names})
    configured.update({k: cfg["hexa_mastery_level"] for k in profile.hexa_mastery.values()})
    configured.update(cfg.get("hexa_mastery_skill_levels") or {})
    configured.update(cfg.get("hexa_skill_levels") or {})
    wrong = {k: [configured[k], env.skill_levels.get(k)] for k in configured if env.skill_levels.get(k) != configured[k]}
    if wrong:
        out["failing"].append({"kind": "configured-level-not-used", "job": job, "config": cfg,
                               "skill: [configured, level in the built environment]": wrong})
    # two pairs of the replacement table that are CROSSED (X is replaced by `Y VI` and Y by `X VI`): each lower-tier skill
    # would be kept or dropped by the level of the other one's replacement
    import re as _re
    norm = {lo_: _re.sub(r" VI\b", "", hi_) for lo_, hi_ in profile.get_skill_replacements().items()}
    for lo1, n1 in norm.items():
        if n1 != lo1 and norm.get(n1) == lo1:
            out["failing"].append({"kind": "replacement-table-crossed", "job": job,
                                   "pairs": {lo1: profile.get_skill_replacements()[lo1], n1: profile.get_skill_replacements()[n1]}})
            break
    for low, high in profile.get_skill_replacements().items():
        lvl = configured.get(high, 0)
        out["replacement_cases"] += 1
        if (low in names) != (lvl == 0) or high not in names:
            out["failing"].append({"kind": "exclusion-rule", "job": job, "config": cfg, "lower_tier": low,
                                   "replacement": high, "replacement_level": lvl,
                                   "lower_tier_present": low in names, "replacement_present": high in names})
    out["damage"] = {c.name: damage_numbers(c.model_dump()) for c in comps}
    out["n_components"] = len(comps)
    # the level each spec of the job is built at (for the range cross-check of the generated file)
    slp, _ap, _ref = patches_of(env)
    repo = get_kms_jobs_repository()
    for g in profile.get_groups():
        for kind in ("Component", "SkillImprovement"):
            for spec in repo.get_all(kind=kind, group=g):
                out["levels"][f"{kind}\t{g}\t{spec.data.get('name')}"] = slp.get_skill_level(spec.data)
    if want_corr:
        out["corr"] = correspondence_points(job, env, comps)
    if plan_len:
        res = run_plan(job, cfg, comps, env.character.action_stat, seed, plan_len)
        out["plan"] = res
        if "ok" not in res:
            out["failing"].append({"kind": "plan-raises", "job": job, "config": cfg, **res})
    return out


def compare(job, a, b, axis):
    """damage figures of configuration b (one level raised) against a"""
    bad, n = [], 0
    if a["damage"] is None or b["damage"] is None:
        return bad, n
    for name, fa in a["damage"].items():
        fb = b["damage"].get(name)
        if fb is None:
            continue
        for field, va in fa.items():
            if field in fb:
                n += 1
                if fb[field] < va - 1e-9 * max(1.0, abs(va)):
                    bad.append({"kind": "damage-decreases", "job": job, "axis": axis,
                                "from": a["cfg"][axis], "to": b["cfg"][axis], "skill": name, "field": field,
                                "before": va, "after": fb[field], "config": a["cfg"], "raised_config": b["cfg"]})
    return bad, n


def slim(r, keep_corr):
    """what a unit sends back for one configuration"""
    return {"cfg": r["cfg"], "plan": r["plan"], "corr": r["corr"] if keep_corr else None,
            "n_components": r.get("n_components", 0), "replacement_cases": r.get("replacement_cases", 0),
            "built": r["damage"] is not None, "n_damage": sum(len(v) for v in (r["damage"] or {}).values())}


def merge_levels(acc, r):
    for k, v in r["levels"].items():
        lo, hi = acc.get(k, (v, v))
        acc[k] = (min(lo, v), max(hi, v))


def sweep_unit(job, base_name, axis, values, seed, plan_len, corr_values, plan_values):
    """one axis of one job swept over `values` with the other six levels fixed at the base point"""
    base = BASES[base_name]
    out = {"failing": [], "configs": [], "comparisons": 0, "levels": {}, "axis": axis, "job": job}
    prev = None
    for v in values:
        cfg = dict(base)
        cfg[axis] = v
        r = build(job, cfg, seed, plan_len if v in plan_values else 0, v in corr_values)
        out["failing"] += r["failing"]
        merge_levels(out["levels"], r)
        if prev is not None:
            bad, n = compare(job, prev, r, axis)
            out["failing"] += bad
            out["comparisons"] += n
        out["configs"].append(slim(r, True))
        prev = r
    return out


def joint_unit(job, seed, count, plan_len, n_corr):
    """seeded joint configurations; each is compared with itself after one randomly chosen level is raised by one"""
    rng = random.Random(f"C16:joint:{seed}:{job}")
    out = {"failing": [], "configs": [], "comparisons": 0, "levels": {}, "axis": "joint", "job": job}
    for i in range(count):
        cfg = {a: rng.randint(lo, hi) for a, (lo, hi) in AXES.items()}
        if i % 2 == 1:
            # mastery cores of one job at DIFFERENT levels (some 0, some levelled, in any order of the profile)
            highs = list(get_skill_profile(JobType(job)).get_skill_replacements().values())
            if len(highs) >= 2:
                lv = {h: rng.choice([0, 0, 1, rng.randint(1, 30)]) for h in highs}
                z = rng.randrange(len(highs))
                lv[highs[z]] = 0
                lv[highs[(z + 1 + rng.randrange(len(highs) - 1)) % len(highs)]] = rng.randint(1, 30)
                cfg["hexa_mastery_skill_levels"] = lv
        axis = rng.choice([a for a in AXES if cfg[a] < AXES[a][1]] or ["v_skill_level"])
        if cfg[axis] >= AXES[axis][1]:
            cfg[axis] = AXES[axis][1] - 1
        up = dict(cfg)
        up[axis] += 1
        ra = build(job, cfg, seed, plan_len if i % 2 == 0 else 0, i < n_corr)
        rb = build(job, up, seed, 0, False)
        for r in (ra, rb):
            out["failing"] += r["failing"]
            merge_levels(out["levels"], r)
            out["configs"].append(slim(r, True))
        bad, n = compare(job, ra, rb, axis)
        out["failing"] += bad
        out["comparisons"] += n
    return out


def grid(lo, hi):
    return sorted({lo, lo + 1, (lo + hi) // 2, hi - 1, hi} & set(range(lo, hi + 1)))


# ------------------------------------------------------------------------------------------------ hand models
def hand_model_requests(rng, n):
    """random inputs of the three patch functions, with what the real code answers"""
    reqs, expect = [], []
    names = ["a", "b", "c", "가", "가 VI", ""]
    for _ in range(n):
        d = {}
        for k in rng.sample(names[:5], rng.randint(0, 4)):
            d[k] = rng.choice([0, 0, 1, 7, 30])
        p, c = rng.randint(0, 2), rng.randint(0, 2)
        origins, real = [], []
        for _ in range(6):
            o = {}
            r = rng.random()
            if r < 0.8:
                o["name"] = rng.choice(names)
            if rng.random() < 0.7:
                o["default_skill_level"] = rng.choice([0, 1, 20, 30])
            for k in ("passive_skill_enabled", "combat_orders_enabled"):
                if rng.random() < 0.6:
                    o[k] = rng.random() < 0.6
            real.append(SkillLevelPatch(combat_orders_level=c, passive_skill_level=p,
                                        default_skill_levels=d).get_skill_level(o))
            origins.append({"name": o.get("name") or None, "default": o.get("default_skill_level"),
                            "passive_enabled": bool(o.get("passive_skill_enabled", False)),
                            "combat_enabled": bool(o.get("combat_orders_enabled", False))})
        reqs.append({"fn": "levels_skill_level", "levels": [[k, v] for k, v in d.items()], "passive": p, "combat": c,
                     "origins": origins})
        expect.append(("get_skill_level", real))
        # _exclude_hexa_skill
        pool = ["s1", "s2", "s3", "s4", "s1 VI", "s2 VI", "s3 VI", "x"]
        comp_names = rng.sample(pool, rng.randint(3, 8))
        if rng.random() < 0.15:
            comp_names.append(rng.choice(comp_names))     # a duplicate name
        repl = {}
        for low in ("s1", "s2", "s3"):
            if rng.random() < 0.7:
                repl[low] = low + " VI" if rng.random() < 0.9 else "x"
        lv = {k: rng.choice([0, 0, 1, 5, 30, -1]) for k in pool if rng.random() < 0.6}
        stubs = [type("C", (), {"name": nm})() for nm in comp_names]
        try:
            real_kept = {"kept": [x.name for x in _exclude_hexa_skill(stubs, repl, lv)]}
        except AssertionError:
            real_kept = {"assert": True}
        reqs.append({"fn": "levels_exclude", "names": comp_names, "repl": [[a, b] for a, b in repl.items()],
                     "levels": [[k, v] for k, v in lv.items()]})
        expect.append(("_exclude_hexa_skill", real_kept))
    # hexa enhancement: every level around the documented range
    lvls = list(range(-2, 34))
    real = []
    for l in lvls:
        try:
            real.append(HexaSkillImprovementPatch()._compute_final_damage_multiplier(l).final_damage_multiplier)
        except ValueError:
            real.append(None)
    reqs.append({"fn": "levels_hexa", "levels": lvls})
    expect.append(("_compute_final_damage_multiplier", real))
    for _ in range(max(4, n // 4)):
        prev = rng.choice([0, 0, 10, 25, 120])
        ls = list(range(0, 31))
        real = []
        for l in ls:
            try:
                o = HexaSkillImprovementPatch(improvements={"s": l}).apply(
                    {"name": "s", "modifier": {"final_damage_multiplier": prev} if prev else {}})
                real.append(o["modifier"].get("final_damage_multiplier", 0))
            except Exception as e:  # noqa: BLE001  (a level of the documented range must not raise)
                real.append(f"raised {type(e).__name__}: {e}")
        reqs.append({"fn": "levels_hexa_modifier", "prev_fd": frac_str(Fraction(prev)), "levels": ls})
        expect.append(("HexaSkillImprovementPatch.apply", real))
        scale = rng.choice([0, 1, 2, 2, 3, Fraction(1, 2)])
        pfd, pign = rng.choice([0, 10, 50]), rng.choice([0, 20, 35])
        ls = list(range(0, 61))
        real = []
        for l in ls:
            raw = {"name": "s", "v_improvement": float(scale) if isinstance(scale, Fraction) else scale,
                   "modifier": {k: v for k, v in (("final_damage_multiplier", pfd), ("ignored_defence", pign)) if v}}
            try:
                o = VSkillImprovementPatch(improvements={"s": l}).apply(raw)
                real.append([o["modifier"].get("final_damage_multiplier", 0), o["modifier"].get("ignored_defence", 0)])
            except Exception as e:  # noqa: BLE001
                real.append(f"raised {type(e).__name__}: {e}")
        reqs.append({"fn": "levels_v", "scale": frac_str(Fraction(scale)), "prev_fd": frac_str(Fraction(pfd)),
                     "prev_ign": frac_str(Fraction(pign)), "levels": ls})
        expect.append(("VSkillImprovementPatch.apply", real))
    # the providers' glue (Model/ProviderLevels.lean): the three class levels, the three per-name tables (valid and
    # unknown names), through `_compute_skill_levels` / `_compute_hexa_improvement_levels` themselves and through
    # both providers' get_memoization_independent_environment()
    from simaple.container import environment_provider as ep

    def items(f):
        try:
            return [[k, v] for k, v in f().items()]
        except AssertionError:
            return {"assert": True}

    for job in JOBS:
        prof = get_skill_profile(JobType(job))
        highs = list(prof.hexa_mastery.values())
        cfgs, real = [], []
        for i in range(max(3, n // 8)):
            lv = lambda: rng.choice([0, 0, 1, rng.randint(0, 30)])  # noqa: E731
            c = {"v": lv(), "h": lv(), "m": lv(), "imp": lv()}
            if c["h"] == c["m"] and i % 2 == 0:
                c["m"] = (c["m"] + 1 + rng.randrange(29)) % 31          # the two hexa levels differ
            pick = lambda pool, k: {nm: lv() for nm in rng.sample(pool, min(len(pool), rng.randint(0, k)))}  # noqa: E731
            em, eh, ei = pick(highs, 3), pick(list(prof.hexa_skill_names) + highs[:1], 2), pick(list(prof.hexa_improvement_names), 3)
            if rng.random() < 0.15:
                rng.choice([em, eh, ei])[rng.choice(["no such skill", (list(prof.v_skill_names) or ["x"])[0] + " "])] = 3
            if rng.random() < 0.3 and prof.v_skill_names:
                rng.choice([em, eh])[rng.choice(list(prof.v_skill_names))] = lv()      # a V core in a hexa table
            cfgs.append({**{k: str(v) for k, v in c.items()}, "em": [[k, str(v)] for k, v in em.items()],
                         "eh": [[k, str(v)] for k, v in eh.items()], "ei": [[k, str(v)] for k, v in ei.items()]})
            row = {"direct": [items(lambda: ep._compute_skill_levels(em, eh, JobType(job), c["v"], c["h"], c["m"])),  # noqa: SLF001
                              items(lambda: ep._compute_hexa_improvement_levels(ei, JobType(job), c["imp"]))]}  # noqa: SLF001
            kw = dict(jobtype=JobType(job), level=270, v_skill_level=c["v"], hexa_skill_level=c["h"],
                      hexa_mastery_level=c["m"], hexa_improvements_level=c["imp"], hexa_mastery_skill_levels=em,
                      hexa_skill_levels=eh, hexa_improvement_levels=ei)
            provs = {"MinimalEnvironmentProvider": lambda: ep.MinimalEnvironmentProvider(
                         action_stat=ActionStat(), stat=Stat(**REF_STAT), **kw),
                     "BaselineEnvironmentProvider": lambda: ep.BaselineEnvironmentProvider(
                         tier="Legendary", artifact_level=40, passive_skill_level=0, combat_orders_level=1, **kw)}
            for nm, mk in provs.items():
                def both(mk=mk):
                    try:
                        ind = mk().get_memoization_independent_environment()
                    except AssertionError:
                        return [{"assert": True}, {"assert": True}]
                    return [[[k, v] for k, v in ind["skill_levels"].items()],
                            [[k, v] for k, v in ind["hexa_improvement_levels"].items()]]
                row[nm] = both()
            real.append(row)
        reqs.append({"fn": "levels_provider", "profile": {
            "v": list(prof.v_skill_names), "hexa": list(prof.hexa_skill_names),
            "mastery": [[a, b] for a, b in prof.hexa_mastery.items()], "imp": list(prof.hexa_improvement_names)},
            "cfgs": cfgs})
        expect.append(("provider levels", {"job": job, "rows": real}))
    return reqs, expect


def hand_model_agrees(what, r, want) -> bool:
    if "ok" not in r:
        return False
    got = r["ok"]
    if what == "get_skill_level":
        return got == want
    if what == "_exclude_hexa_skill":
        if "assert" in want:
            return "assert" in got
        return got.get("kept") == want["kept"]
    if what in ("_compute_final_damage_multiplier", "HexaSkillImprovementPatch.apply"):
        return len(got) == len(want) and all((g is None and w is None) or
                                             (g is not None and w is not None and close(parse_frac(g), w))
                                             for g, w in zip(got, want))
    if what == "provider levels":
        if len(got) != len(want["rows"]):
            return False
        for g, row in zip(got, want["rows"]):
            m_sl, m_imp = g["skill_levels"], g["improvements"]
            for path, real in row.items():
                # a provider raises as a whole when either table refuses
                if path != "direct" and (isinstance(m_sl, dict) or isinstance(m_imp, dict)):
                    if not (isinstance(real[0], dict) and isinstance(real[1], dict)):
                        return False
                    continue
                for m, r_ in zip((m_sl, m_imp), real):
                    if isinstance(m, dict) != isinstance(r_, dict) or (not isinstance(m, dict) and m != r_):
                        return False
        return True
    if what == "VSkillImprovementPatch.apply":
        return len(got) == len(want) and all(close(parse_frac(g[2]), w[0]) and close(parse_frac(g[3]), w[1])
                                             for g, w in zip(got, want))
    return False


# ------------------------------------------------------------------------------------------------ witnesses
def witness_for(formula, a, b):
    """a real configuration pair (one level raised) at which the spec of a generated formula is built at levels
    a and b, and the values the real code gives the field there"""
    group, skill, field = formula["group"], formula["skill"], formula["field"]
    if field.startswith("advantages["):
        return None
    path = parse_path(field)
    for job in JOBS:
        profile = get_skill_profile(JobType(job))
        if group not in profile.get_groups():
            continue
        spec = next((s for s in get_kms_jobs_repository().get_all(kind="Component", group=group)
                     if s.data.get("name") == skill), None)
        if spec is None:
            continue
        for base in BASES.values():
            for p in range(3):
                for c in range(3):
                    for axis in ("v_skill_level", "hexa_skill_level", "hexa_mastery_level", "combat_orders_level",
                                 "passive_skill_level"):
                        for x in range(AXES[axis][0], AXES[axis][1]):
                            cfg = dict(base, passive_skill_level=p, combat_orders_level=c)
                            cfg[axis] = x
                            up = dict(cfg)
                            up[axis] = x + (b - a)
                            if up[axis] > AXES[axis][1]:
                                continue
                            levels = []
                            for k in (cfg, up):
                                sl = profile.get_skill_levels(k["v_skill_level"], k["hexa_skill_level"],
                                                              k["hexa_mastery_level"])
                                levels.append(SkillLevelPatch(combat_orders_level=k["combat_orders_level"],
                                                              passive_skill_level=k["passive_skill_level"],
                                                              default_skill_levels=sl).get_skill_level(spec.data))
                            if levels != [a, b]:
                                continue
                            vals = []
                            for k in (cfg, up):
                                comp = next((q for q in get_skill_components(make_env(job, k)) if q.name == skill), None)
                                vals.append(None if comp is None else at_path(comp.model_dump(), path))
                            if None not in vals and vals[1] < vals[0]:
                                return {"kind": "damage-decreases", "job": job, "axis": axis, "from": cfg[axis],
                                        "to": up[axis], "skill": skill, "field": field, "before": vals[0],
                                        "after": vals[1], "config": cfg, "raised_config": up,
                                        "skill_level_before": a, "skill_level_after": b,
                                        "found_by": "formula that is not non-decreasing in the generated model"}
    return None


# ------------------------------------------------------------------------------------------------ main
def main(ck: Check):
    quick = ck.tier == "quick"
    rng = ck.rng
    plan_len = 16 if quick else 30
    work = []
    for job in JOBS:
        for base_name, base in BASES.items():
            for axis, (lo, hi) in AXES.items():
                # quick: every value of the axis around the provider defaults (plans on the boundary grid only), the
                # boundary grid around the other two base points; thorough: every value everywhere
                every = list(range(lo, hi + 1))
                values = every if (not quick or base_name == "defaults") else grid(lo, hi)
                if quick and hi > 30 and base_name == "defaults":      # v-enhancement 0..60: every second value
                    values = sorted(set(range(lo, hi + 1, 2)) | set(grid(lo, hi)) | {40, 41})
                plan_values = set(grid(lo, hi)) if quick else set(every)
                corr_values = {lo, (lo + hi) // 2, hi} if base_name == "defaults" or not quick else {hi}
                work.append(("sweep", (job, base_name, axis, values, ck.seed, plan_len, corr_values, plan_values)))
        work.append(("joint", (job, ck.seed, 6 if quick else 140, plan_len, 2 if quick else 12)))
        work.append(("order", (job, ck.seed, 6 if quick else 18)))

    results = []
    for args, out in pmap(_dispatch, [(k, a) for k, a in work], ck.budget_s * 0.7):
        if args is None:
            ck.notes.append(f"budget reached: {out}")
            if out["done"] < out["total"] * 0.6:
                raise TimeoutError(f"only {out['done']}/{out['total']} units finished within the budget")
            continue
        results.append(out)

    # ---------------------------------------------------------------- the property on the real code
    evaluations = 0
    distinct = set()
    per_axis: dict[str, int] = {}
    per_job: dict[str, int] = {}
    plans_run, plan_cmds, comparisons, repl_cases, damage_figures = 0, 0, 0, 0, 0
    level_ranges: dict[str, tuple] = {}
    corr_cfgs = []
    samples = []
    order_builds = 0
    for out in results:
        for f in out["failing"]:
            ck.add_failing(f)
        ck.broken.extend(out.get("broken", []))
        order_builds += out.get("order_builds", 0)
        comparisons += out["comparisons"]
        for k, (lo, hi) in out["levels"].items():
            a, b = level_ranges.get(k, (lo, hi))
            level_ranges[k] = (min(a, lo), max(b, hi))
        for c in out["configs"]:
            evaluations += 1
            key = (out["job"], canon(c["cfg"]))
            if c["built"] and key not in distinct:
                distinct.add(key)
                per_axis[out["axis"]] = per_axis.get(out["axis"], 0) + 1
                per_job[out["job"]] = per_job.get(out["job"], 0) + 1
            repl_cases += c["replacement_cases"]
            damage_figures += c["n_damage"]
            if c["plan"] and "ok" in c["plan"]:
                plans_run += 1
                plan_cmds += c["plan"]["commands"]
                if len(samples) < 3:
                    samples.append({"job": out["job"], "config": c["cfg"], "components": c["n_components"],
                                    "plan": c["plan"]["sample"]})
            if c["corr"] is not None:
                corr_cfgs.append((out["job"], c["cfg"], c["corr"]))

    # ---------------------------------------------------------------- Lean: regenerate, prove, correspondence
    with ck.locked():
        ok_gen = ck.regenerate(["levels", "effects"])     # effects: the build path of Props/C16_Effects.lean
        proved = ok_gen and ck.prove("Simaple.Props.C16")
        if not quick and proved:
            ck.leanchecker(["Simaple.Props.C16"])
        effect_rows = ck.effect_entries(16, "Simaple.Props.C16.build_path_wellFormed") if ok_gen else None
        meta = ck.driver([{"fn": "levels_formulas"}]) if ok_gen else None
        formulas = meta[0].get("ok") if meta and "ok" in meta[0] else None
        reqs, expect = [], []
        index = {}
        if formulas is not None:
            for f in formulas:
                k = (f["group"], f["skill"], f["field"])
                if k in index:
                    ck.broken.append({"kind": "translator", "error": f"two generated formulas for {k}"})
                index[k] = f
            for job, cfg, corr in corr_cfgs:
                pts = [[index[(p["group"], p["skill"], p["field"])]["ident"], p["level"]] for p in corr["points"]
                       if (p["group"], p["skill"], p["field"]) in index]
                reqs.append({"fn": "levels_eval", "vars": corr["vars"], "points": pts})
                expect.append(("formulas", job, cfg, corr))
                reqs.append({"fn": "levels_skill_level", "levels": corr["levels"], "passive": corr["passive"],
                             "combat": corr["combat"], "origins": corr["origins"]})
                expect.append(("real get_skill_level", job, cfg, [o["real"] for o in corr["origins"]]))
                reqs.append({"fn": "levels_exclude", "names": corr["names"], "repl": corr["repl"],
                             "levels": corr["levels"]})
                expect.append(("real _exclude_hexa_skill", job, cfg, corr["kept"]))
        hreqs, hexpect = hand_model_requests(rng, 40 if quick else 400)
        res = ck.driver(reqs + hreqs, timeout=900) if formulas is not None else None

    stats = {"formula_points": 0, "staged_equal": 0, "built_equal": 0, "built_touched_by_later_patch": 0,
             "built_absent_lower_tier": 0, "hand_model_requests": len(hreqs), "disagreements": 0,
             "formulas_generated": 0 if formulas is None else len(formulas),
             "formulas_needing_step_check": 0 if formulas is None else sum(1 for f in formulas if not f["analysis_up"])}

    def disagree(item):
        stats["disagreements"] += 1
        if stats["disagreements"] <= 6:
            ck.broken.append(item)

    if res is not None:
        seen_formulas = set()
        for r, e in zip(res[:len(reqs)], expect):
            what, job, cfg = e[0], e[1], e[2]
            if "ok" not in r:
                disagree({"kind": "correspondence", "point": what, "job": job, "config": cfg, "driver": r})
                continue
            if what == "formulas":
                corr = e[3]
                pts = [p for p in corr["points"] if (p["group"], p["skill"], p["field"]) in index]
                for p in corr["points"]:
                    if (p["group"], p["skill"], p["field"]) not in index:
                        disagree({"kind": "correspondence", "point": "a damage formula of a shipped spec has no "
                                  "generated counterpart", "job": job, "spec": [p["group"], p["skill"], p["field"]],
                                  "source": p["source"]})
                for p, got in zip(pts, r["ok"]):
                    f = index[(p["group"], p["skill"], p["field"])]
                    seen_formulas.add(f["ident"])
                    stats["formula_points"] += 1
                    if got is None or got[0] != got[1]:
                        disagree({"kind": "correspondence", "point": "generated function vs its parse tree",
                                  "formula": f["ident"], "driver": got})
                        continue
                    val = parse_frac(got[0])
                    if f["source"] != p["source"]:
                        disagree({"kind": "correspondence", "point": "formula text", "formula": f["ident"],
                                  "generated_from": f["source"], "shipped": p["source"]})
                    if not (f["lo"] <= p["level"] <= f["hi"]):
                        disagree({"kind": "correspondence", "point": "level outside the generated range",
                                  "formula": f["ident"], "job": job, "config": cfg, "level": p["level"],
                                  "range": [f["lo"], f["hi"]]})
                    if p["staged"] is None or isinstance(p["staged"], str) or not close(val, p["staged"]):
                        disagree({"kind": "correspondence", "point": "generated formula vs SkillLevelPatch+ArithmeticPatch",
                                  "formula": f["ident"], "job": job, "config": cfg, "level": p["level"],
                                  "model": str(val), "implementation": p["staged"]})
                    else:
                        stats["staged_equal"] += 1
                    if p["field"].startswith("advantages["):
                        continue
                    if not p["present"]:
                        stats["built_absent_lower_tier"] += 1
                    elif p["built"] is not None and close(val, p["built"]):
                        stats["built_equal"] += 1
                    elif p["touched_later"]:
                        stats["built_touched_by_later_patch"] += 1
                    else:
                        disagree({"kind": "correspondence", "point": "generated formula vs field of the built component",
                                  "formula": f["ident"], "job": job, "config": cfg, "level": p["level"],
                                  "model": str(val), "implementation": p["built"]})
            elif what == "real get_skill_level":
                if r["ok"] != e[3]:
                    disagree({"kind": "correspondence", "point": "Model.Levels.getSkillLevel vs get_skill_level on the "
                              "shipped specs", "job": job, "config": cfg,
                              "first": next(((i, a, b) for i, (a, b) in enumerate(zip(r["ok"], e[3])) if a != b), None)})
            else:
                want = e[3]
                if ("assert" in want) != ("assert" in r["ok"]) or ("kept" in want and r["ok"].get("kept") != want["kept"]):
                    disagree({"kind": "correspondence", "point": "Model.Levels.excludeHexa vs _exclude_hexa_skill on the "
                              "shipped names", "job": job, "config": cfg, "model": r["ok"], "implementation": want})
        for r, (what, want), q in zip(res[len(reqs):], hexpect, hreqs):
            if not hand_model_agrees(what, r, want):
                disagree({"kind": "correspondence", "point": f"hand model vs {what}", "request": q, "model": r,
                          "implementation": want})
        stats["formulas_exercised"] = len(seen_formulas)
        # every level the sweeps produced lies inside the generated range of that spec's formulas
        for f in formulas:
            kind = "SkillImprovement" if f["field"].startswith("advantages[") else "Component"
            k = f"{kind}\t{f['group']}\t{f['skill']}"
            if k in level_ranges:
                lo, hi = level_ranges[k]
                if lo < f["lo"] or hi > f["hi"]:
                    disagree({"kind": "correspondence", "point": "level outside the generated range (sweep)",
                              "formula": f["ident"], "levels_seen": [lo, hi], "range": [f["lo"], f["hi"]]})

    # a formula the model finds not non-decreasing: look for the real configuration pair that shows it
    if formulas is not None and not proved:
        bad = [f for f in formulas if not f["check"]]
        for f in bad[:4] if not ck.failing else []:
            pts = [[f["ident"], l] for l in range(f["lo"], f["hi"] + 1)]
            rr = ck.driver([{"fn": "levels_eval", "points": pts}])
            if not rr or "ok" not in rr[0]:
                continue
            vals = [parse_frac(x[0]) for x in rr[0]["ok"]]
            for i in range(len(vals) - 1):
                if vals[i + 1] < vals[i]:
                    w = witness_for(f, f["lo"] + i, f["lo"] + i + 1)
                    if w is not None:
                        ck.add_failing(w)
                        break
                    ck.notes.append(f"{f['ident']}: model value drops from level {f['lo'] + i} to {f['lo'] + i + 1} "
                                    f"({vals[i]} -> {vals[i + 1]}); no level configuration of a shipped job reaches it")

    ck.coverage.update({
        "evaluations": evaluations + comparisons,
        "distinct_nontrivial": len(distinct),
        "rule": "8 jobs x 3 base points (provider defaults; a mid point with combat orders 2 and passive 2; a point with hexa "
                "mastery 0, where the lower-tier skills are present) x each of the "
                "seven level axes (v-skill, hexa skill, hexa mastery 0..30, v-enhancement 0..60, hexa-enhancement 0..30, "
                "combat orders 0..2, passive 0..2) swept with the others fixed (quick: every value around the defaults, "
                "{min, min+1, mid, max-1, max} around the other two base points, plans on the grid values; "
                "thorough: every value and a plan everywhere) + seeded joint configurations, each paired with itself after one random level is "
                "raised by one.  Per configuration: real build, unique names, exclusion rule per replacement pair, every "
                "numeric field whose key contains 'damage' of every component compared with the next configuration of the "
                "sweep, and a simlib.random_plan (ELAPSE <= 10 s) generated on and replayed on the built engine.  A case "
                "is a distinct (job, configuration) that built; all are non-trivial (27-33 components each)",
        "samples": samples,
        "configurations_built": evaluations,
        "per_axis_distinct_configurations": per_axis,
        "per_job_distinct_configurations": per_job,
        "damage_field_comparisons": comparisons,
        "damage_figures_read": damage_figures,
        "replacement_pairs_checked": repl_cases,
        "build_path_functions_checked_by_the_effect_model": effect_rows,
        "builds_repeated_in_two_new_interpreters_in_opposite_orders": order_builds,
        "plans_run_to_completion": plans_run,
        "plan_commands": plan_cmds,
        "correspondence_configurations": len(corr_cfgs),
        "model_vs_code": stats,
        # not a violation of C16 (nothing decreases), but worth knowing: specs whose damage depends on skill_level
        # while no level configuration ever reaches them (no default level, name in no job's v/hexa list)
        "specs_always_built_at_level_0": sorted({f"{f['skill']} ({f['file']})" for f in (formulas or [])
                                                 if f["lo"] == 0 and f["hi"] == 0 and not f["configurable"]}),
    })
    ck.assumptions += [
        "floats are modelled by exact rationals (comparison tolerance 1e-9 relative)",
        "the passive-skill axis is set on the SimulationEnvironment (MinimalEnvironmentProvider always passes 0)",
        "plans run without raising: explored on random well-formed plans, not proved",
        "monotonicity of the built skill set as a whole is proved per ingredient (formulas, level computation, "
        "V/hexa enhancement, exclusion) and checked end to end on the sweeps; the composition through pydantic "
        "validation and the PassiveHyperskill/SkillImprovement patches (level independent additions) is explored",
    ]
    ck.finish("proof",
              trusted_base=["Lean 4.33 kernel", "axioms ⊆ {propext, Classical.choice, Quot.sound}",
                            "gen_levels.py translator (validated on every run: every generated formula is evaluated "
                            "against the real patch stage and the built component)",
                            "hand models of get_skill_level / _exclude_hexa_skill (validated on every run)",
                            "lark (parses the formulas with the grammar text of _math.py), PyYAML"],
              checker_cmd="cd lean && lake build Simaple.Props.C16 && lake env lean Simaple/Audit/C16.lean",
              explanation="formula/patch monotonicity and the exclusion rule are proved over the generated data; build "
                          "success, name uniqueness and plan completion are explored on the real code")


def order_unit(job, seed, count):
    """the same list of configurations built in two NEW interpreters in opposite orders (through the provider and through
    one in-memory memoizer shared by the list): every built skill set and every damage figure must be the same.  The list
    is not sorted: high levels come before low ones and neighbours share everything but one or two levels."""
    import json
    import subprocess
    import sys
    from pathlib import Path
    rng = random.Random(f"C16:order:{seed}:{job}")
    base = dict(BASES["upper"])
    cfgs = []
    for i in range(count):
        c = dict(base)
        c["hexa_mastery_level"] = [30, 0, 10, 1, 17, 0][i % 6]
        c["combat_orders_level"] = [1, 2, 1, 2, 0, 1][i % 6]
        c["v_improvements_level"] = [60, 0, 30, 30, 45, 10][i % 6]
        c["hexa_skill_level"] = rng.choice([0, 1, 12, 30])
        c["v_skill_level"] = rng.choice([0, 17, 30])
        cfgs.append(c)
    cfgs += [dict(cfgs[2]), dict(cfgs[3], combat_orders_level=cfgs[2]["combat_orders_level"])]
    out = {"failing": [], "configs": [], "comparisons": 0, "levels": {}, "axis": "order", "job": job, "order_builds": 0}
    script = str(Path(__file__).with_name("c16_order.py"))
    env = dict(os.environ, PYTHONHASHSEED="0")
    procs = [subprocess.Popen([sys.executable, script], stdin=subprocess.PIPE, stdout=subprocess.PIPE,
                              stderr=subprocess.PIPE, text=True, env=env) for _ in range(2)]
    res = []
    for p, lst in zip(procs, (cfgs, cfgs[::-1])):
        try:
            o, _e = p.communicate(json.dumps({"job": job, "cfgs": lst}), timeout=400)
            res.append(json.loads(o) if p.returncode == 0 else None)
        except Exception:  # noqa: BLE001
            p.kill()
            res.append(None)
    if res[0] is None or res[1] is None:
        out["broken"] = [{"kind": "harness", "part": "C16 order independence", "job": job,
                          "detail": "a helper interpreter gave no answer"}]
        return out
    back = res[1][::-1]
    for cfg, a, b in zip(cfgs, res[0], back):
        out["order_builds"] += 2
        for path in ("provider", "memoizer"):
            x, y = a[path], b[path]
            if x == y:
                continue
            detail = {}
            if "raised" in x or "raised" in y:
                detail = {"in_list_order": x.get("raised", "built"), "in_reverse_order": y.get("raised", "built")}
            elif x["names"] != y["names"]:
                detail = {"skills_only_in_list_order": sorted(set(x["names"]) - set(y["names"])),
                          "skills_only_in_reverse_order": sorted(set(y["names"]) - set(x["names"]))}
            else:
                for nm in x["damage"]:
                    d = {k: [x["damage"][nm][k], y["damage"][nm].get(k)] for k in x["damage"][nm]
                         if x["damage"][nm][k] != y["damage"][nm].get(k)}
                    if d:
                        detail = {"skill": nm, "figure: [in list order, in reverse order]": d}
                        break
            out["failing"].append({"kind": "build-depends-on-the-configurations-built-before-it", "job": job, "config": cfg,
                                   "built_through": path, "list_of_configurations": cfgs, **detail})
            return out
    return out


def _dispatch(kind, args):
    return sweep_unit(*args) if kind == "sweep" else order_unit(*args) if kind == "order" else joint_unit(*args)


if __name__ == "__main__":
    run_check("C16", main)
