"""C05 -- every event is relayed to listeners exactly once before and once after the next action."""
from __future__ import annotations

import random

from vlib import Check, run_check, pmap
import simlib
from simlib import JOBS, ProbedEngine, command_text, random_plan

from simaple.simulate.policy.base import OperationLog


def emitted_of(ev):
    return {"name": ev["name"], "method": f"{ev['method']}.emitted.{ev['tag'] or ''}", "payload": ev["payload"]}


def done_of(ev):
    return {"name": ev["name"], "method": f"{ev['method']}.done.{ev['tag'] or ''}", "payload": ev["payload"]}


def unit(job, variant, pi, seed, length):
    rng = random.Random(f"C05:{seed}:{job}:{variant}:{pi}")
    cmds = random_plan(rng, job, variant, length)
    pe = ProbedEngine(job, variant)
    out = {"plays": 0, "events": 0, "restores": 0, "failing": [], "reqs": [], "expect": [], "listened": 0,
           "sample": None, "max_queue": 0}
    try:
        done_cmds = []
        # events_after[i] = events of the last play at or before log i of the CURRENT history (what must be relayed
        # around the next action when the history ends at log i)
        events_after = [[]]
        checked = 0

        def check_new_plays(expected_prev):
            nonlocal checked
            prev_events = expected_prev
            for i in range(checked, len(pe.plays)):
                pl = pe.plays[i]
                out["plays"] += 1
                out["events"] += len(pl["events"])
                want = [emitted_of(e) for e in reversed(prev_events)] + [pl["action"]] + [done_of(e) for e in prev_events]
                got = pl["queue"]
                out["max_queue"] = max(out["max_queue"], len(got))
                fail = None
                if got != want:
                    em = [a for a in got if ".emitted." in a["method"]]
                    dn = [a for a in got if ".done." in a["method"]]
                    for e in prev_events:
                        if em.count(emitted_of(e)) != prev_events.count(e):
                            fail = f"event offered {em.count(emitted_of(e))} times as emitted (expected {prev_events.count(e)})"
                            break
                        if dn.count(done_of(e)) != prev_events.count(e):
                            fail = f"event offered {dn.count(done_of(e))} times as done (expected {prev_events.count(e)})"
                            break
                    if fail is None:
                        extra = [a for a in got if a not in want]
                        fail = ("an action not derived from the previous play's events was dispatched: " + str(extra[:2])) if extra \
                            else "the relay order differs (emitted must precede and done must follow the action)"
                if fail is not None:
                    out["failing"].append({"kind": "relay", "job": job, "variant": variant, "play_index": i,
                                           "action": pl["action"], "what": fail, "ops": list(done_cmds),
                                           "previous_events": prev_events[:6], "dispatched": got[:12]})
                    checked = len(pe.plays)
                    return None
                out["listened"] += sum(1 for d, _a in pl["all"] if d > 1)
                if len(out["reqs"]) < 40 and (prev_events or i % 7 == 0):
                    out["reqs"].append({"fn": "queue", "events": [simlib.enc_event(e) for e in prev_events],
                                        "action": simlib.enc_action(pl["action"])})
                    out["expect"].append({"job": job, "queue": [simlib.enc_action(a) for a in got]})
                prev_events = pl["events"]
            checked = len(pe.plays)
            return prev_events

        last_rollback = None
        for c in cmds:
            r = rng.random()
            if r < 0.12:
                # checkpoint / restore between two actions: resume from the recorded logs (through JSON half the time)
                logs = list(pe.engine.operation_logs())
                if rng.random() < 0.5:
                    logs = [OperationLog.model_validate_json(l.model_dump_json()) for l in logs]
                pe.engine.reload(logs)
                out["restores"] += 1
                done_cmds.append("<reload>")
            elif r < 0.24 and len(events_after) > 1:
                # restore by rollback: to a random earlier log, or once more to the log of the previous rollback
                k = last_rollback if (last_rollback is not None and last_rollback < len(events_after) and rng.random() < 0.5) \
                    else rng.randint(0, len(events_after) - 1)
                pe.engine.rollback(k)
                last_rollback = k
                events_after = events_after[: k + 1]
                out["restores"] += 1
                done_cmds.append(f"<rollback {k}>")
            n_before = len(pe.plays)
            pe.engine.exec(c)
            done_cmds.append(command_text(c))
            after = check_new_plays(events_after[-1])
            if after is None:
                break
            events_after.append(after if len(pe.plays) > n_before else events_after[-1])
        out["sample"] = {"job": job, "plan": done_cmds[:12],
                         "a_queue": [a["name"] + "." + a["method"] for a in pe.plays[min(3, len(pe.plays) - 1)]["queue"]][:9]}
    finally:
        pe.close()
    return out


def main(ck: Check):
    quick = ck.tier == "quick"
    variants = [0] if quick else [0, 1, 2]
    plans_per = 4 if quick else 24
    length = (25, 40) if quick else (60, 140)
    rng = ck.rng
    work = [(job, v, pi, ck.seed, rng.randint(*length)) for job in JOBS for v in variants for pi in range(plans_per)]
    tot = {"plays": 0, "events": 0, "restores": 0, "listened": 0, "max_queue": 0}
    samples, reqs, expect = [], [], []
    for args, out in pmap(unit, work, ck.budget_s * 0.7):
        if args is None:
            ck.notes.append(f"budget reached: {out}")
            if out["done"] < max(4, out["total"] // 2):
                raise TimeoutError(f"only {out['done']}/{out['total']} units finished within the budget")
            continue
        for k in ("plays", "events", "restores", "listened"):
            tot[k] += out[k]
        tot["max_queue"] = max(tot["max_queue"], out["max_queue"])
        for f in out["failing"]:
            ck.add_failing(f)
        if len(samples) < 3 and out["sample"]:
            samples.append(out["sample"])
        reqs.extend(out["reqs"])
        expect.extend(out["expect"])

    with ck.locked():
        proved = ck.prove("Simaple.Props.C05")
        if not quick and proved:
            ck.leanchecker(["Simaple.Props.C05"])
        res = ck.driver(reqs, timeout=600)
    disagreements = 0
    if res is not None:
        for r, ex, rq in zip(res, expect, reqs):
            if r.get("ok") != ex["queue"]:
                disagreements += 1
                if disagreements <= 3:
                    ck.broken.append({"kind": "correspondence", "point": "Model.Engine.play queue vs simaple.simulate.base.play",
                                      "job": ex["job"], "request": rq, "model": r, "implementation": ex["queue"]})
    ck.coverage.update({
        "evaluations": tot["plays"],
        "distinct_nontrivial": tot["events"],
        "rule": "all 8 jobs x environment variants x seeded plans; a catch-all probe dispatcher (installed through "
                "EngineBuilder.add_dispatcher) records every action the router dispatches; per play the top-level "
                "dispatched actions must be exactly: emitted(E) reversed, the action, done(E) for the events E of the "
                "previous play (payloads included); checkpoint/restore (reload of the recorded logs, half through JSON) "
                "is injected before ~20% of the commands. evaluations = plays; distinct_nontrivial = relayed events",
        "samples": samples,
        **tot,
        "model_queue_requests": len(reqs),
        "model_queue_disagreements": disagreements,
    })
    ck.assumptions += ["reading previous_callbacks after writing it returns what was written (store cell law)",
                       "checkpoint save/restore keeps the previous_callbacks cell (validated by the injected restores)"]
    ck.finish("proof",
              trusted_base=["Lean 4.33 kernel", "axioms ⊆ {propext, Classical.choice, Quot.sound}",
                            "hand-written model of play (Simaple/Model/Engine.lean L4) tied to the code by the probe recording"],
              checker_cmd="cd lean && lake build Simaple.Props.C05 && lake env lean Simaple/Audit/C05.lean")


if __name__ == "__main__":
    run_check("C05", main)
