"""C05 -- every event is relayed to listeners exactly once before and once after the next action."""
from __future__ import annotations

import random

from vlib import Check, run_check, pmap
import simlib
from simlib import JOBS, ProbedEngine, command_text, random_plan

from simaple.simulate.policy.base import OperationLog


def emitted_of(ev):
    return {"name": ev["name"], "method": f"{ev['method']}.emitted.{ev['tag'] or ''}", "payload": ev["payload"]}


def done_of(ev):
    return {"name": ev["name"], "method": f"{ev['method']}.done.{ev['tag'] or ''}", "payload": ev["payload"]}


def unit(job, variant, pi, seed, length):
    rng = random.Random(f"C05:{seed}:{job}:{variant}:{pi}")
    cmds = random_plan(rng, job, variant, length)
    pe = ProbedEngine(job, variant)
    out = {"plays": 0, "events": 0, "restores": 0, "failing": [], "reqs": [], "expect": [], "listened": 0,
           "sample": None, "max_queue": 0}
    try:
        done_cmds = []
        # events_after[i] = events of the last play at or before log i of the CURRENT history (what must be relayed
        # around the next action when the history ends at log i)
        events_after = [[]]
        checked = 0

        def check_new_plays(expected_prev):
            nonlocal checked
            prev_events = expected_prev
            for i in range(checked, len(pe.plays)):
                pl = pe.plays[i]
                out["plays"] += 1
                out["events"] += len(pl["events"])
                want = [emitted_of(e) for e in reversed(prev_events)] + [pl["action"]] + [done_of(e) for e in prev_events]
                got = pl["queue"]
                out["max_queue"] = max(out["max_queue"], len(got))
                fail = None
                if got != want:
                    em = [a for a in got if ".emitted." in a["method"]]
                    dn = [a for a in got if ".done." in a["method"]]
                    for e in prev_events:
                        if em.count(emitted_of(e)) != prev_events.count(e):
                            fail = f"event offered {em.count(emitted_of(e))} times as emitted (expected {prev_events.count(e)})"
                            break
                        if dn.count(done_of(e)) != prev_events.count(e):
                            fail = f"event offered {dn.count(done_of(e))} times as done (expected {prev_events.count(e)})"
                            break
                    if fail is None:
                        extra = [a for a in got if a not in want]
                        fail = ("an action not derived from the previous play's events was dispatched: " + str(extra[:2])) if extra \
                            else "the relay order differs (emitted must precede and done must follow the action)"
                if fail is not None:
                    out["failing"].append({"kind": "relay", "job": job, "variant": variant, "play_index": i,
                                           "action": pl["action"], "what": fail, "ops": list(done_cmds),
                                           "previous_events": prev_events[:6], "dispatched": got[:12]})
                    checked = len(pe.plays)
                    return None
                out["listened"] += sum(1 for d, _a in pl["all"] if d > 1)
                if len(out["reqs"]) < 40 and (prev_events or i % 7 == 0):
                    out["reqs"].append({"fn": "queue", "events": [simlib.enc_event(e) for e in prev_events],
                                        "action": simlib.enc_action(pl["action"])})
                    out["expect"].append({"job": job, "queue": [simlib.enc_action(a) for a in got]})
                prev_events = pl["events"]
            checked = len(pe.plays)
            return prev_events

        last_rollback = None
        for c in cmds:
            r = rng.random()
            if r < 0.12:
                # checkpoint / restore between two actions: resume from the recorded logs (through JSON half the time)
                logs = list(pe.engine.operation_logs())
                if rng.random() < 0.5:
                    logs = [OperationLog.model_validate_json(l.model_dump_json()) for l in logs]
                pe.engine.reload(logs)
                out["restores"] += 1
                done_cmds.append("<reload>")
            elif r < 0.24 and len(events_after) > 1:
                # restore by rollback: to a random earlier log, or once more to the log of the previous rollback
                k = last_rollback if (last_rollback is not None and last_rollback < len(events_after) and rng.random() < 0.5) \
                    else rng.randint(0, len(events_after) - 1)
                pe.engine.rollback(k)
                last_rollback = k
                events_after = events_after[: k + 1]
                out["restores"] += 1
                done_cmds.append(f"<rollback {k}>")
            n_before = len(pe.plays)
            pe.engine.exec(c)
            done_cmds.append(command_text(c))
            after = check_new_plays(events_after[-1])
            if after is None:
                break
            events_after.append(after if len(pe.plays) > n_before else events_after[-1])
        out["sample"] = {"job": job, "plan": done_cmds[:12],
                         "a_queue": [a["name"] + "." + a["method"] for a in pe.plays[min(3, len(pe.plays) - 1)]["queue"]][:9]}
    finally:
        pe.close()
    return out


def runtime_unit(job, variant, seed, length):
    """the same law on the OTHER public way of running a simulation: `EngineBuilder.build_simulation_runtime()` with
    `runtime.play(action)`, `runtime.save()` and `runtime.load(checkpoint)`.  Checkpoints are taken between any two
    actions -- the first one BEFORE the first action, when the store does not hold the callback cell yet -- and restored
    later, after further actions were played on the abandoned time line."""
    import copy
    from simaple.container.simulation import get_skill_components
    from simaple.simulate.base import RouterDispatcher
    from simaple.simulate.kms import get_builder
    rng = random.Random(f"C05:runtime:{seed}:{job}:{variant}")
    out = {"plays": 0, "events": 0, "restores": 0, "failing": [], "listened": 0, "max_queue": 0}
    # the actions of a generated plan, as the handlers of the operation engine produce them
    eng = simlib.make_engine(job, variant)
    actions = []
    for c in random_plan(rng, job, variant, length, with_console=False):
        for pl in eng.exec(c).playlogs:
            actions.append(copy.deepcopy(dict(pl.action)))
    env = simlib.make_env(job, variant)
    state = {"depth": 0, "cur": None}

    class Probe:
        def __call__(self, action, store):
            if state["cur"] is not None and state["depth"] == 1:
                state["cur"].append(copy.deepcopy(dict(action)))
            return []

        def includes(self, signature):
            return True

        def init_store(self, store):
            return

    class DepthRouter(RouterDispatcher):
        def __call__(self, action, store):
            state["depth"] += 1
            try:
                return RouterDispatcher.__call__(self, action, store)
            finally:
                state["depth"] -= 1

    builder = get_builder(get_skill_components(env), env.character.action_stat)
    builder.add_dispatcher(Probe())
    builder._router.__class__ = DepthRouter        # noqa: SLF001 -- depth of re-entrant router calls only
    rt = builder.build_simulation_runtime()
    saved = [(rt.save(), [])]                       # (checkpoint, the events that are pending at that point)
    prev = []
    done = []
    for i, a in enumerate(actions):
        r = rng.random()
        if r < 0.15 or i == 1 or i == 3:
            ck_, ev = saved[0] if i in (1, 3) else rng.choice(saved)
            if rng.random() < 0.5:
                from simaple.simulate.base import Checkpoint
                ck_ = Checkpoint.model_validate_json(ck_.model_dump_json())
            rt.load(ck_)
            prev = ev
            out["restores"] += 1
            done.append(f"<load checkpoint taken after {len(ev)} pending events>")
        elif r < 0.3:
            saved.append((rt.save(), copy.deepcopy(prev)))
            done.append("<save>")
        state["cur"] = []
        events = rt.play(copy.deepcopy(a))
        got, state["cur"] = state["cur"], None
        done.append(f"{a['name']}.{a['method']}")
        out["plays"] += 1
        out["events"] += len(events)
        out["max_queue"] = max(out["max_queue"], len(got))
        want = [emitted_of(e) for e in reversed(prev)] + [a] + [done_of(e) for e in prev]
        if got != want:
            extra = [x for x in got if x not in want]
            missing = [x for x in want if x not in got]
            out["failing"].append({"kind": "relay", "job": job, "variant": variant, "api": "SimulationRuntime.play/save/load",
                                   "what": "the actions dispatched around a play are not: emitted(previous events) reversed, "
                                           "the action, done(previous events)",
                                   "ops": done, "not_expected": extra[:3], "missing": missing[:3],
                                   "expected_count": len(want), "dispatched_count": len(got)})
            break
        prev = copy.deepcopy(events)
    return out


def any_unit(kind, args):
    return runtime_unit(*args) if kind == "runtime" else unit(*args)


def main(ck: Check):
    quick = ck.tier == "quick"
    variants = [0] if quick else [0, 1, 2]
    plans_per = 4 if quick else 24
    length = (25, 40) if quick else (60, 140)
    rng = ck.rng
    work = [(job, v, pi, ck.seed, rng.randint(*length)) for job in JOBS for v in variants for pi in range(plans_per)]
    tot = {"plays": 0, "events": 0, "restores": 0, "listened": 0, "max_queue": 0}
    samples, reqs, expect = [], [], []
    work_rt = [(job, 0, ck.seed + k, 25 if quick else 60) for job in JOBS for k in range(1 if quick else 6)]
    for args, out in pmap(any_unit, [("engine", a) for a in work] + [("runtime", a) for a in work_rt], ck.budget_s * 0.7):
        if args is None:
            ck.notes.append(f"budget reached: {out}")
            if out["done"] < max(4, out["total"] // 2):
                raise TimeoutError(f"only {out['done']}/{out['total']} units finished within the budget")
            continue
        for k in ("plays", "events", "restores", "listened"):
            tot[k] += out[k]
        tot["max_queue"] = max(tot["max_queue"], out["max_queue"])
        for f in out["failing"]:
            ck.add_failing(f)
        if len(samples) < 3 and out.get("sample"):
            samples.append(out["sample"])
        reqs.extend(out.get("reqs", []))
        expect.extend(out.get("expect", []))

    with ck.locked():
        proved = ck.prove("Simaple.Props.C05")
        if not quick and proved:
            ck.leanchecker(["Simaple.Props.C05"])
        res = ck.driver(reqs, timeout=600)
    disagreements = 0
    if res is not None:
        for r, ex, rq in zip(res, expect, reqs):
            if r.get("ok") != ex["queue"]:
                disagreements += 1
                if disagreements <= 3:
                    ck.broken.append({"kind": "correspondence", "point": "Model.Engine.play queue vs simaple.simulate.base.play",
                                      "job": ex["job"], "request": rq, "model": r, "implementation": ex["queue"]})
    ck.coverage.update({
        "evaluations": tot["plays"],
        "distinct_nontrivial": tot["events"],
        "rule": "all 8 jobs x environment variants x seeded plans; a catch-all probe dispatcher (installed through "
                "EngineBuilder.add_dispatcher) records every action the router dispatches; per play the top-level "
                "dispatched actions must be exactly: emitted(E) reversed, the action, done(E) for the events E of the "
                "previous play (payloads included); checkpoint/restore (reload of the recorded logs, half through JSON) "
                "is injected before ~20% of the commands; + per job the actions of a plan played on a SimulationRuntime "
                "(runtime.play / save / load) with checkpoints taken between any two actions, also before the first one, and "
                "restored after further actions. evaluations = plays; distinct_nontrivial = relayed events",
        "samples": samples,
        **tot,
        "model_queue_requests": len(reqs),
        "model_queue_disagreements": disagreements,
    })
    ck.assumptions += ["reading previous_callbacks after writing it returns what was written (store cell law)",
                       "checkpoint save/restore keeps the previous_callbacks cell (validated by the injected restores)"]
    ck.finish("proof",
              trusted_base=["Lean 4.33 kernel", "axioms ⊆ {propext, Classical.choice, Quot.sound}",
                            "hand-written model of play (Simaple/Model/Engine.lean L4) tied to the code by the probe recording"],
              checker_cmd="cd lean && lake build Simaple.Props.C05 && lake env lean Simaple/Audit/C05.lean")


if __name__ == "__main__":
    run_check("C05", main)
