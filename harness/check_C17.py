"""C17 -- star force is incremental, monotone and capped; blueprints add up."""
from __future__ import annotations

import contextlib
import copy
import io
import json
import subprocess
import sys
from pathlib import Path
import math
from fractions import Fraction

from vlib import Check, run_check, frac_str, parse_frac

import simaple.gear.improvements.starforce_configuration as sfconf
from simaple.core import Stat, StatProps
from simaple.core.base import ExtendedStat
from simaple.gear.blueprint.gear_blueprint import (
    BonusSpec,
    GeneralizedGearBlueprint,
    PracticalGearBlueprint,
)
from simaple.gear.blueprint.potential_blueprint import PotentialField, PotentialFieldName, PotentialTemplate
from simaple.gear.bonus_factory import BonusFactory, BonusType
from simaple.gear.gear import GearMeta
from simaple.gear.gear_repository import GearRepository
from simaple.gear.gear_type import GearType
from simaple.gear.improvements.exceptional_enhancement import ExceptionalEnhancement
from simaple.gear.improvements.scroll import Scroll
from simaple.gear.improvements.spell_trace import PROBABILITIES, STAT_PROP_TYPES, SpellTrace
from simaple.gear.improvements.starforce import Starforce

# ===== C17_Parts begin: the parts of a blueprint computed by the model (Props/C17_Parts.lean) =====
from c17_parts import Parts
# ===== C17_Parts end =====

F8 = ["STR", "DEX", "INT", "LUK", "attack_power", "magic_attack", "MHP", "MMP"]
ALL_FIELDS = list(Stat.model_fields)
MULT = ("final_damage_multiplier", "ignored_defence")
TOL = 1e-9


def close(a: float, b: float) -> bool:
    return math.isclose(a, b, rel_tol=TOL, abs_tol=1e-7)


def vec8(stat: Stat):
    """the eight star-force fields as ints; None if a value is not integral or another field is non-zero"""
    d = stat.model_dump()
    out = []
    for k in ALL_FIELDS:
        v = d[k]
        if k in F8:
            if v != int(v):
                return None
        elif v != 0:
            return None
    for k in F8:
        out.append(int(d[k]))
    return out


def meta_key(meta: GearMeta):
    return [int(meta.type.value), int(meta.req_level), 1 if meta.superior_eqp else 0, int(meta.req_job),
            int(meta.max_scroll_chance)]


def describe(meta: GearMeta):
    return {"id": meta.id, "name": meta.name, "type": meta.type.name, "req_level": meta.req_level,
            "superior_eqp": meta.superior_eqp, "req_job": meta.req_job, "max_scroll_chance": meta.max_scroll_chance}


def call(f):
    """result or the exception's class name"""
    try:
        return f()
    except Exception as e:  # noqa: BLE001 -- exceptions are results here
        return type(e).__name__


def quiet_call(f):
    """`call`, with anything the library prints swallowed (bonus.py prints for unknown Zero weapons)"""
    with contextlib.redirect_stdout(io.StringIO()):
        return call(f)


class Sweep:
    """the property evaluated directly on the real star force, and the values for the correspondence"""

    def __init__(self, ck: Check):
        self.ck = ck
        self.calls = 0
        self.metas = 0
        self.classes: dict[str, int] = {}
        self.distinct: set = set()
        self.samples: list = []

    def fail(self, what: str, meta: GearMeta, ref: Stat, **kw):
        self.ck.add_failing({"kind": "starforce", "what": what, "gear": describe(meta),
                             "ref_stat": ref.short_dict(), **kw})

    def run(self, meta: GearMeta, ref: Stat, full: bool, label: str):
        """returns (cap, {n: vector | exception name}) for stars 0..cap+1 (all n if full, else a few n + the running sums)"""
        self.metas += 1
        self.classes[label] = self.classes.get(label, 0) + 1
        sf0 = Starforce(star=0)
        cap = call(lambda: sf0.max_star(meta))
        if not isinstance(cap, int):
            self.fail("max_star raised", meta, ref, observed=cap)
            return None, {}
        if cap < 0:
            self.fail("negative cap", meta, ref, observed=cap)
        res: dict[int, object] = {}
        running = Stat()
        prev = Stat()
        stepper = Starforce(star=max(cap, 0))
        pick = {cap, cap // 2, 1} if not full else None
        for n in range(0, cap + 1):
            if n >= 1:
                self.calls += 1
                inc = call(lambda: stepper.get_single_starforce_improvement(meta, ref, n, running))
                if not isinstance(inc, Stat):
                    self.fail("increment of a star inside the cap is not defined", meta, ref, star=n, cap=cap, observed=inc)
                    res[n] = inc
                    return cap, res
                neg = {k: v for k, v in inc.model_dump().items() if v < 0}
                if neg:
                    self.fail("negative increment", meta, ref, star=n, cap=cap, observed=neg)
                running = running + inc
            if full or n in pick:
                self.calls += 1
                r = call(lambda: Starforce(star=n).calculate_improvement(meta, ref))
                if not isinstance(r, Stat):
                    self.fail("star force inside the cap is not defined", meta, ref, star=n, cap=cap, observed=r)
                    res[n] = r
                    return cap, res
                if r.model_dump() != running.model_dump():
                    self.fail("bonus differs from the running sum of increments computed on the gear as enhanced so far",
                              meta, ref, star=n, cap=cap, observed=r.short_dict(), expected=running.short_dict())
            else:
                r = running
            d, p = r.model_dump(), prev.model_dump()
            neg = {k: v for k, v in d.items() if v < 0}
            if neg:
                self.fail("negative field", meta, ref, star=n, cap=cap, observed=neg)
            dips = {k: [p[k], d[k]] for k in d if d[k] < p[k]}
            if dips:
                self.fail("field decreases as stars grow", meta, ref, star=n, cap=cap, observed=dips)
            v = vec8(r)
            res[n] = v if v is not None else {"non-integral-or-foreign-field": r.short_dict()}
            if n >= 1 and d != p:
                self.distinct.add((tuple(meta_key(meta)), n))
            prev = r
        # beyond the cap
        over = cap + 1
        self.calls += 2
        r = call(lambda: Starforce(star=over).calculate_improvement(meta, ref))
        if r != "TypeError":
            self.fail("star beyond the cap is not refused by calculate_improvement", meta, ref, star=over, cap=cap,
                      observed=r.short_dict() if isinstance(r, Stat) else r)
        s = call(lambda: Starforce(star=over).get_single_starforce_improvement(meta, ref, over, running))
        if s != "TypeError":
            self.fail("star beyond the cap is not refused by get_single_starforce_improvement", meta, ref, star=over,
                      cap=cap, observed=s.short_dict() if isinstance(s, Stat) else s)
        res[over] = r if isinstance(r, str) else (vec8(r) or {"non-integral-or-foreign-field": r.short_dict()})
        if len(self.samples) < 4 and cap >= 10 and label not in [s_["class"] for s_ in self.samples]:
            self.samples.append({"class": label, "gear": describe(meta), "cap": cap, "ref_stat": ref.short_dict(),
                                 f"bonus_at_{cap}": res.get(cap)})
        return cap, res


def mk_meta(code: int, level: int, sup: bool, job: int, tuc: int, base: Stat | None = None, gid=0) -> GearMeta:
    return GearMeta(id=gid, name="synthetic", base_stat=base or Stat(), type=GearType(code), req_level=level,
                    superior_eqp=sup, req_job=job, max_scroll_chance=tuc)


def rand_sf(rng, kind: str) -> dict:
    if kind == "zero":
        return {}
    if kind == "weapon":
        return {"attack_power": rng.randint(0, 420), "magic_attack": rng.choice([0, 0, rng.randint(1, 500)]),
                "STR": rng.choice([0, rng.randint(1, 150)]), "DEX": rng.choice([0, rng.randint(1, 150)]),
                "INT": rng.choice([0, rng.randint(1, 150)]), "LUK": rng.choice([0, rng.randint(1, 150)])}
    return {k: rng.choice([0, 0, rng.randint(1, 80)]) for k in F8}


def stat_vec8(d: dict) -> list[int]:
    return [int(d.get(k, 0)) for k in F8]


def stat_rats(stat: Stat) -> list[str]:
    d = stat.model_dump()
    return [frac_str(Fraction(d[k])) for k in ALL_FIELDS]


def compose(parts: list[Stat]) -> dict:
    """independent recomposition: plain field arithmetic, no Stat operators"""
    out = {k: 0.0 for k in ALL_FIELDS}
    fd, ig = 1.0, 1.0
    for p in parts:
        d = p.model_dump()
        for k in ALL_FIELDS:
            if k == "final_damage_multiplier":
                fd *= 1 + d[k] / 100
            elif k == "ignored_defence":
                ig *= 1 - d[k] / 100
            else:
                out[k] += d[k]
    out["final_damage_multiplier"] = (fd - 1) * 100
    out["ignored_defence"] = (1 - ig) * 100
    return out


def main(ck: Check):
    rng = ck.rng
    thorough = ck.tier == "thorough"
    lean = ck.locked()
    lean.__enter__()
    ok_gen = ck.regenerate(["starforce", "core", "gearparts", "effects"])  # gearparts: C17_Parts; effects: C17_Effects
    proved = ok_gen and ck.prove("Simaple.Props.C17")
    if thorough and proved:
        ck.leanchecker(["Simaple.Props.C17"])

    repo = GearRepository()
    all_ids = sorted(int(k) for k in repo._bare_gears)  # noqa: SLF001
    sweep = Sweep(ck)
    reqs: list[dict] = []
    expect: list[tuple] = []

    def add(req, py, what):
        reqs.append(req)
        expect.append((py, what, req))

    # ------------------------------------------------------------ generated tables / GearType vs the live module
    py_tables = {n: getattr(sfconf, n) for n in dir(sfconf)
                 if isinstance(getattr(sfconf, n), list) and getattr(sfconf, n) and isinstance(getattr(sfconf, n)[0], list)}
    py_lists = {n: getattr(sfconf, n) for n in dir(sfconf)
                if isinstance(getattr(sfconf, n), list) and getattr(sfconf, n) and isinstance(getattr(sfconf, n)[0], int)}
    add({"fn": "sf_tables"}, {"tables": py_tables, "lists": py_lists,
                              "members": [[m.name, int(m.value)] for m in GearType]}, "tables")
    codes = [int(m.value) for m in GearType]
    pred_names = [n for n in vars(GearType) if n.startswith("is_") and callable(getattr(GearType, n))]
    add({"fn": "gear_type_preds", "codes": codes},
        {n: [bool(getattr(m, n)()) for m in GearType] for n in pred_names}, "gear_type_preds")

    # ------------------------------------------------------------ shipped gears
    metas: dict[int, GearMeta] = {}
    unloadable = []
    for gid in all_ids:
        m = call(lambda: repo.get_gear_meta(gid))
        if isinstance(m, GearMeta):
            metas[gid] = m
        else:
            unloadable.append(gid)
            ck.add_failing({"kind": "gear-not-loadable", "gear_id": gid, "observed": m,
                            "what": "a gear of gear_data.json cannot be loaded, so its star force is not defined"})
    if thorough:
        chosen = list(metas)
    else:
        chosen = [gid for i, gid in enumerate(all_ids) if i % 20 == 0 and gid in metas]
        seen_kind = set()
        for gid, m in metas.items():
            special = m.superior_eqp or m.type == GearType.glove or m.type.is_improved_as_weapon()
            if not special:
                continue
            if m.superior_eqp:
                chosen.append(gid)
                continue
            key = (m.type, m.req_level, m.req_job if m.type == GearType.glove else 0)
            if key not in seen_kind:
                seen_kind.add(key)
                chosen.append(gid)
        chosen = sorted(set(chosen))

    def label_of(m: GearMeta) -> str:
        if m.superior_eqp:
            return "superior"
        if m.type.is_improved_as_weapon():
            return "weapon"
        if m.type == GearType.glove:
            return "glove"
        if m.type.is_armor() or m.type == GearType.shoulder_pad:
            return "armor"
        if m.type.is_accessory():
            return "accessory"
        return "other"

    for gid in chosen:
        m = metas[gid]
        ref = m.base_stat
        if vec8(Stat(**{k: getattr(ref, k) for k in F8})) is None or any(getattr(ref, k) < 0 for k in F8):
            ck.add_failing({"kind": "gear-data", "gear": describe(m), "what": "base stat not a non-negative integer",
                            "observed": ref.short_dict()})
            continue
        cap, res = sweep.run(m, ref, full=True, label=label_of(m))
        if cap is None:
            continue
        n_req = max(res) if res else 0
        add({"fn": "sf_trace", "m": meta_key(m), "ref": [int(getattr(ref, k)) for k in F8], "n": n_req},
            {"cap": cap, "t": res}, "Starforce.calculate_improvement (shipped gear)")
    shipped_calls = sweep.calls

    # ------------------------------------------------------------ synthetic metas: tables x level bands x kinds
    levels = set()
    for t in py_tables.values():
        for row in t:
            levels.update([row[0], row[0] - 1])
    levels.update([0, 94, 95, 109, 110, 119, 120, 129, 130, 139, 140, 250, 300])
    levels = sorted(l for l in levels if l >= 0)
    kinds = [GearType.polearm, GearType.katara, GearType.wand, GearType.glove, GearType.cap, GearType.shoes,
             GearType.ring, GearType.shield, GearType.badge, GearType.machine_heart, GearType.tuner]
    jobs = [0, 1, 2, 4, 8, 16] if thorough else [0, 2, 16]
    for lvl in levels:
        for kind in kinds:
            for sup in (False, True):
                for job in jobs:
                    if not thorough and rng.random() < 0.5:
                        continue
                    ref_d = rand_sf(rng, "weapon" if kind.is_improved_as_weapon() else rng.choice(["zero", "small"]))
                    ref = Stat(**ref_d)
                    m = mk_meta(int(kind.value), lvl, sup, job, rng.choice([1, 7]), base=ref)
                    cap, res = sweep.run(m, ref, full=False, label="synthetic-" + label_of(m))
                    if cap is None:
                        continue
                    add({"fn": "sf_trace", "m": meta_key(m), "ref": stat_vec8(ref_d), "n": max(res) if res else 0},
                        {"cap": cap, "t": res}, "Starforce.calculate_improvement (synthetic meta)")
                    # star force is computed on the gear AS ENHANCED SO FAR (the reference stat): the same gear with
                    # another BASE stat and the same reference stat gets the same bonus
                    if cap and cap >= 1:
                        other = dict(ref_d)
                        other["magic_attack"] = 0 if other.get("magic_attack") else 77
                        other["attack_power"] = other.get("attack_power", 0) + 5
                        m2 = mk_meta(int(kind.value), lvl, sup, job, m.max_scroll_chance, base=Stat(**other))
                        for n_star in {cap, min(cap, 5)}:
                            r1 = call(lambda: Starforce(star=n_star).calculate_improvement(m, ref))
                            r2 = call(lambda: Starforce(star=n_star).calculate_improvement(m2, ref))
                            sweep.calls += 2
                            if isinstance(r1, Stat) and (not isinstance(r2, Stat) or r1.model_dump() != r2.model_dump()):
                                sweep.fail("the star-force bonus changes with the gear's BASE stat although the stat it is "
                                           "computed on (the gear as enhanced so far) is the same", m, ref, star=n_star,
                                           other_base_stat=other, observed=r2.short_dict() if isinstance(r2, Stat) else r2,
                                           expected=r1.short_dict())

    # ------------------------------------------------------------ the answer does not depend on what was asked before
    # near-twins (same gear id, reference stats that differ in ONE field: an off-job main stat appearing, an attack
    # value moving, ...) are asked in one order here and in the opposite order in a new interpreter
    import c17_order
    order_items = []
    cand = [m for m in metas.values() if m.req_job != 0 and not m.superior_eqp and m.max_scroll_chance > 0]
    rng.shuffle(cand)
    cand = cand[: (60 if thorough else 14)] + [mk_meta(int(k.value), lvl, False, job, 7)
                                              for k in (GearType.cap, GearType.wand, GearType.glove)
                                              for lvl, job in ((150, 2), (200, 8), (140, 0))]
    for m in cand:
        cap_m = quiet_call(lambda: Starforce(star=0).max_star(m))
        if not isinstance(cap_m, int) or cap_m < 1:
            continue
        a = {k: int(getattr(m.base_stat, k)) for k in F8}
        twins = [a]
        for _ in range(3):
            b = dict(a)
            f = rng.choice(F8)
            b[f] = 0 if b[f] and rng.random() < 0.4 else b[f] + rng.choice([1, 3, 10])
            twins.append(b)
        for star in sorted({cap_m, min(cap_m, 17), min(cap_m, 5)}):
            for t in twins:
                order_items.append({"meta": m.model_dump(mode="json"), "ref": t, "star": star})
    here = quiet_call(lambda: c17_order.evaluate(order_items))
    order_checked = 0
    try:
        pr = subprocess.run([sys.executable, str(Path(__file__).with_name("c17_order.py"))],
                            input=json.dumps(order_items[::-1]), capture_output=True, text=True, timeout=300)
        there = json.loads(pr.stdout)[::-1] if pr.returncode == 0 else None
    except Exception:  # noqa: BLE001
        there = None
    if not isinstance(here, list) or there is None or len(there) != len(order_items):
        ck.broken.append({"kind": "harness", "part": "C17 order independence", "detail": "the helper interpreter gave no answer"})
    else:
        for it, x, y in zip(order_items, here, there):
            order_checked += 1
            if x != y:
                ck.add_failing({"kind": "starforce", "what": "the star-force bonus of a gear depends on which gears were computed "
                                "before it in the same process (same call, two orders of the same list of calls)",
                                "gear": it["meta"]["id"], "gear_name": it["meta"]["name"], "ref_stat": it["ref"],
                                "star": it["star"], "asked_in_list_order": x, "asked_in_reverse_order_in_a_new_process": y})
    sweep.calls += 2 * order_checked

    # ------------------------------------------------------------ random single steps / table look-ups (any input)
    n_single = 4000 if thorough else 400
    all_types = list(GearType)
    for i in range(n_single):
        kind = rng.choice(all_types if i % 2 else kinds)
        lvl = rng.choice(levels + [-1, -5]) if i % 3 else rng.randint(0, 300)
        job = rng.choice([-1, 0, 1, 2, 3, 4, 8, 9, 13, 16, 24, rng.randint(-40, 40)])
        sup = rng.random() < 0.3
        tuc = rng.choice([0, 1, 7, -1])
        m = mk_meta(int(kind.value), lvl, sup, job, tuc)
        ref_d = {k: rng.choice([0, rng.randint(-60, 400)]) for k in F8}
        cur_d = {k: rng.choice([0, rng.randint(0, 300)]) for k in F8}
        t = rng.randint(0, 27)
        r = call(lambda: Starforce(star=25).get_single_starforce_improvement(m, Stat(**ref_d), t, Stat(**cur_d)))
        py = r if isinstance(r, str) else (vec8(r) or {"bad": r.short_dict()})
        add({"fn": "sf_single", "m": meta_key(m), "ref": stat_vec8(ref_d), "cur": stat_vec8(cur_d), "t": t}, py,
            "Starforce.get_single_starforce_improvement")
        amazing, att = rng.random() < 0.5, rng.random() < 0.5
        t2 = rng.randint(0, 30)
        r2 = call(lambda: sfconf.get_starforce_increment(m, t2, amazing_scroll=amazing, att=att))
        add({"fn": "sf_increment", "m": meta_key(m), "t": t2, "amazing": int(amazing), "att": int(att)}, r2,
            "get_starforce_increment")

    # ===== C17_Parts begin: generated tables, spell traces (exhaustive grid), scrolls, exceptional parts, bonus
    # improvements and BonusSpec -- Lean model vs real code, exact; the part theorems' statements on the real code
    parts = Parts(ck, reqs, expect, describe)
    parts.timed("tables", parts.tables)
    parts.timed("spell_traces", parts.spell_traces, metas)
    parts.timed("scrolls", parts.scrolls)
    parts.timed("bonuses", parts.bonuses, metas)
    # ===== C17_Parts end =====

    # ------------------------------------------------------------ blueprints
    enhanceable = [gid for gid in metas if metas[gid].max_scroll_chance > 0]
    exc_ids = [gid for gid in metas if metas[gid].exceptional_enhancement]
    n_bp = 1500 if thorough else 160
    bp_checked = 0
    bp_built = 0
    bp_refused = 0
    bp_samples = []
    bonus_factory = BonusFactory()
    stat_field_names = [n.value for n in PotentialFieldName if n.value in Stat.model_fields]

    def bp_fail(what, meta, **kw):
        ck.add_failing({"kind": "blueprint", "what": what, "gear": describe(meta), **kw})

    def rand_int_stat() -> Stat:
        ks = rng.sample(["STR", "DEX", "INT", "LUK", "attack_power", "magic_attack", "MHP", "MMP",
                         "boss_damage_multiplier", "critical_rate", "ignored_defence"], rng.randint(1, 4))
        return Stat(**{k: float(rng.randint(1, 12)) for k in ks})

    def rand_template() -> PotentialTemplate:
        return PotentialTemplate(options=[PotentialField(name=PotentialFieldName(rng.choice(stat_field_names)),
                                                         value=rng.randint(1, 12)) for _ in range(rng.randint(0, 3))])

    def expected_potential(tpl: PotentialTemplate):
        return [ExtendedStat(stat=Stat(**{f.name.value: f.value})) for f in tpl.options]

    def rand_bonuses(meta):
        specs = []
        for bt in rng.sample(list(BonusType), rng.randint(0, 4)):
            lo = 3 if meta.boss_reward and rng.random() < 0.95 else 1
            if rng.random() < 0.5:
                specs.append(BonusSpec(bonus_type=bt, grade=rng.randint(lo, 7)))
            else:
                specs.append(BonusSpec(bonus_type=bt, rank=rng.randint(1, 8 - lo)))
        if specs and rng.random() < 0.35:
            # the same kind listed twice with another grade (legal: BonusSpec lists are not deduplicated)
            again = rng.choice(specs)
            g = rng.choice([x for x in range(lo, 8) if x != again.get_grade()])
            specs.insert(rng.randint(0, len(specs)), BonusSpec(bonus_type=again.bonus_type, grade=g))
        return specs

    for i in range(n_bp):
        gid = rng.choice(exc_ids) if (exc_ids and i % 25 == 0) else rng.choice(enhanceable)
        bare = repo.get_by_id(gid)
        meta = bare.meta
        tuc = meta.max_scroll_chance
        practical = i % 3 == 2
        star = rng.choice([rng.randint(0, 30), rng.randint(0, 30), -1, 0])
        bonuses = rand_bonuses(meta)
        pot, apot = rand_template(), rand_template()
        mk_trace = lambda order: SpellTrace(probability=rng.choice(PROBABILITIES if meta.type.is_improved_as_weapon() else PROBABILITIES[:3]),  # noqa: E731
                                            stat_prop_type=rng.choice(STAT_PROP_TYPES), order=order)
        mk_scroll = lambda: Scroll(stat=rand_int_stat(), name="s")  # noqa: E731
        exc = None
        if practical:
            which = rng.choice(["trace", "scroll", "both", "none"])
            st = mk_trace(-1) if which in ("trace", "both") else None
            sc = mk_scroll() if which in ("scroll", "both") else None
            bp = PracticalGearBlueprint(meta=meta, spell_trace=st, scroll=sc, star=star, bonuses=bonuses,
                                        potential=pot, additional_potential=apot)
            traces = [st] * tuc if st is not None else []
            scrolls = [sc] * tuc if (st is None and sc is not None) else []
        else:
            k = rng.randint(0, min(tuc, 10))
            mode = rng.choice(["trace", "scroll", "both"])
            traces = [mk_trace(j + 1) for j in range(k)] if mode in ("trace", "both") else []
            scrolls = [mk_scroll() for _ in range(rng.randint(0, 3))] if mode in ("scroll", "both") else []
            if (meta.exceptional_enhancement and rng.random() < 0.7) or rng.random() < 0.03:
                exc = ExceptionalEnhancement(stat=rand_int_stat())
            bp = GeneralizedGearBlueprint(meta=meta, spell_traces=traces, scrolls=scrolls,
                                          starforce=Starforce(star=star), bonuses=bonuses, potential=pot,
                                          additional_potential=apot, exceptional_enhancement=exc)
        snap_bp = copy.deepcopy(bp)
        dump_bp = bp.model_dump()
        dump_bare = bare.model_dump()
        dump_meta = meta.model_dump()
        built = quiet_call(bp.build)
        bp_checked += 1
        parts.blueprint(bp, built)  # C17_Parts: the same blueprint, described to the model WITHOUT any part contribution
        # ---- building never alters the blueprint or the base gear
        if bp.model_dump() != dump_bp or bp != snap_bp:
            bp_fail("build() altered the blueprint", meta, blueprint=dump_bp, after=bp.model_dump())
        if bare.model_dump() != dump_bare or meta.model_dump() != dump_meta:
            bp_fail("build() altered the base gear", meta, before=dump_bare["stat"], after=bare.model_dump()["stat"],
                    meta_base_before=dump_meta["base_stat"], meta_base_after=meta.model_dump()["base_stat"],
                    blueprint=dump_bp)
            # restore for the following cases (the repository rebuilds metas on demand anyway)
        # ---- independent recomposition
        parts_ok = True
        part_stats = {"traces": [], "scrolls": [], "bonuses": []}
        first_exc = None
        for key, objs in (("traces", traces), ("scrolls", scrolls)):
            for o in objs:
                r = call(lambda: o.calculate_improvement(meta))
                if not isinstance(r, Stat):
                    parts_ok = False
                    first_exc = first_exc or r
                    break
                part_stats[key].append(r)
            if not parts_ok:
                break
        if not parts_ok:
            if built != first_exc:
                bp_fail("a part raises but build() does not raise the same", meta, observed=str(built)[:200],
                        expected=first_exc, blueprint=dump_bp)
            continue
        base = Stat(**dump_meta["base_stat"])
        scrolled = compose([base] + part_stats["traces"] + part_stats["scrolls"])
        cap = Starforce(star=0).max_star(meta)
        eff_star = min(star, cap) if practical else star
        sf = call(lambda: Starforce(star=eff_star).calculate_improvement(meta, ref_stat=Stat(**scrolled)))
        exp_err = None
        if not isinstance(sf, Stat):
            exp_err = sf
        else:
            for spec in bonuses:
                r = quiet_call(lambda: bonus_factory.create(spec.bonus_type, spec.get_grade()).calculate_improvement(meta))
                if not isinstance(r, Stat):
                    exp_err = r
                    break
                part_stats["bonuses"].append(r)
        exc_stat = None
        if exp_err is None and exc is not None:
            r = call(lambda: exc.calculate_improvement(meta))
            if isinstance(r, Stat):
                exc_stat = r
            else:
                exp_err = r
        if exp_err is not None:
            bp_refused += 1
            if built != exp_err:
                bp_fail("build() should raise", meta, expected=exp_err, blueprint=dump_bp,
                        observed=built if isinstance(built, str) else built.stat.short_dict())
            if exp_err == "TypeError" and not practical and star > cap \
                    and vec8(Stat(**{k: scrolled[k] for k in F8})) is not None:
                add({"fn": "bp_build", "m": meta_key(meta), "base": stat_rats(base),
                     "traces": [stat_rats(s) for s in part_stats["traces"]],
                     "scrolls": [stat_rats(s) for s in part_stats["scrolls"]], "star": star, "bonuses": [],
                     "exc": None}, "TypeError", "GeneralizedGearBlueprint.build")
            continue
        if isinstance(built, str):
            bp_fail("build() raised on a valid blueprint", meta, observed=built, blueprint=dump_bp)
            continue
        bp_built += 1
        total = compose([Stat(**scrolled), sf] + part_stats["bonuses"] + ([exc_stat] if exc_stat is not None else []))
        got = built.stat.model_dump()
        bad = {k: [got[k], total[k]] for k in ALL_FIELDS if not close(got[k], total[k])}
        if bad:
            bp_fail("built stat differs from base + scrolls/spell traces + star force(on the scrolled gear) + bonus + exceptional",
                    meta, observed_vs_expected=bad, blueprint=dump_bp)
        if built.meta != meta or built.scroll_chance != meta.max_scroll_chance:
            bp_fail("built gear does not carry the blueprint's meta / scroll count", meta, blueprint=dump_bp)
        if list(built.potential.options) != expected_potential(pot) or \
                list(built.additional_potential.options) != expected_potential(apot):
            bp_fail("built gear's potentials differ from the templates", meta, blueprint=dump_bp)
        if vec8(Stat(**{k: scrolled[k] for k in F8})) is None:
            continue  # non-integral scrolled gear: outside the integer model (does not occur: everything fed is integral)
        if practical:
            g = bp.translate_into_generalized_gear_blueprint()
            add({"fn": "bp_practical", "m": meta_key(meta), "base": stat_rats(base),
                 "trace": stat_rats(part_stats["traces"][0]) if st is not None else None,
                 "scroll": stat_rats(sc.stat) if sc is not None else None, "star": star,
                 "bonuses": [stat_rats(s) for s in part_stats["bonuses"]]},
                {"star": g.starforce.star, "n_traces": len(g.spell_traces), "n_scrolls": len(g.scrolls),
                 "stat": [got[k] for k in ALL_FIELDS]}, "PracticalGearBlueprint.build")
        else:
            add({"fn": "bp_build", "m": meta_key(meta), "base": stat_rats(base),
                 "traces": [stat_rats(s) for s in part_stats["traces"]],
                 "scrolls": [stat_rats(s) for s in part_stats["scrolls"]], "star": star,
                 "bonuses": [stat_rats(s) for s in part_stats["bonuses"]],
                 "exc": stat_rats(exc_stat) if exc_stat is not None else None},
                [got[k] for k in ALL_FIELDS], "GeneralizedGearBlueprint.build")
        if len(bp_samples) < 3 and sf.short_dict() and (traces or scrolls) and bonuses:
            bp_samples.append({"gear": describe(meta), "kind": type(bp).__name__, "star": star, "cap": cap,
                               "n_spell_traces": len(traces), "n_scrolls": len(scrolls),
                               "bonuses": [(s.bonus_type.value, s.get_grade()) for s in bonuses],
                               "built": built.stat.short_dict()})

    # ===== C17_Parts begin: blueprints that also leave the well-formed domain (same exception or same stat)
    parts.timed("adversarial_blueprints", parts.adversarial_blueprints, repo, metas)
    # ===== C17_Parts end =====

    # ------------------------------------------------------------ Lean side, one driver call
    res = ck.driver(reqs, timeout=900)
    effect_rows = ck.effect_entries(17, "Simaple.Props.C17.build_wellFormed")
    lean.__exit__(None, None, None)
    disagreements = 0
    per_point: dict[str, int] = {}

    def stat_agree(model, py) -> bool:
        if isinstance(py, str) or isinstance(model, str):
            return model == py
        got = [float(parse_frac(x)) for x in model]
        return len(got) == len(py) and all(close(g, p) for g, p in zip(got, py))

    if res is not None:
        for r, (py, what, req) in zip(res, expect):
            per_point[what] = per_point.get(what, 0) + 1
            detail = None
            if "ok" not in r:
                agree = False
            elif what == "tables":
                o = r["ok"]
                agree = (o["tables"] == py["tables"] and o["lists"] == py["lists"] and o["members"] == py["members"])
                if not agree:
                    detail = {"tables_equal": o["tables"] == py["tables"], "lists_equal": o["lists"] == py["lists"],
                              "members_equal": o["members"] == py["members"]}
            elif what == "gear_type_preds":
                agree = r["ok"] == py
                if not agree:
                    detail = {n: [c for c, a, b in zip(codes, r["ok"].get(n, []), py.get(n, [])) if a != b]
                              for n in set(py) | set(r["ok"]) if r["ok"].get(n) != py.get(n)}
            elif what.startswith("Starforce.calculate_improvement"):
                o = r["ok"]
                bad_n = [n for n, v in py["t"].items() if n >= len(o["t"]) or o["t"][n] != v]
                agree = o["cap"] == py["cap"] and not bad_n
                if not agree:
                    n0 = bad_n[0] if bad_n else None
                    detail = {"model_cap": o["cap"], "implementation_cap": py["cap"], "first_star": n0,
                              "model": o["t"][n0] if n0 is not None and n0 < len(o["t"]) else None,
                              "implementation": py["t"].get(n0) if n0 is not None else None}
            elif what == "PracticalGearBlueprint.build":
                o = r["ok"]
                agree = (o["star"] == py["star"] and o["n_traces"] == py["n_traces"] and o["n_scrolls"] == py["n_scrolls"]
                         and stat_agree(o["stat"], py["stat"]))
            elif what == "GeneralizedGearBlueprint.build":
                agree = stat_agree(r["ok"], py)
            elif what.startswith("parts:"):  # C17_Parts
                agree, detail = parts.agree(what, r["ok"], py, req)
            else:
                agree = r["ok"] == py
            if not agree:
                disagreements += 1
                if disagreements <= 6:
                    short_req = {k: v for k, v in req.items() if k not in ("base", "traces", "scrolls", "bonuses")} \
                        if what.endswith(".build") else req
                    ck.broken.append({"kind": "correspondence", "point": what, "request": short_req,
                                      "detail": detail, "model": r if detail is None else None,
                                      "implementation": py if detail is None and not isinstance(py, dict) else None})

    ck.coverage["build_methods_checked_by_the_effect_model"] = effect_rows
    ck.coverage.update({
        "evaluations": sweep.calls + 2 * n_single + bp_checked,
        "distinct_nontrivial": len(sweep.distinct) + bp_built,
        "rule": ("star force: " + ("ALL loadable gears of gear_data.json" if thorough else
                 "every 20th gear of gear_data.json + every superior gear + one gear per (type, level) of every "
                 "weapon kind and per (level, job) of gloves") + ", stars 0..cap+1 each, reference stat = the gear's base stat; synthetic metas "
                 "over every level-band edge of every table x 11 gear kinds x superior x job masks with random integer "
                 "reference stats; every value compared with the Lean model; on the real code per (gear, star): defined, "
                 "all 27 fields >= 0 and >= the value at star-1, equal to the running sum of "
                 "get_single_starforce_improvement on the gear as enhanced so far, cap+1 refused with TypeError. "
                 "A (gear, star) is counted distinct/non-trivial when the bonus at that star differs from star-1. "
                 "Blueprints: seeded random Generalized/Practical blueprints over enhanceable gears (spell trace "
                 "kind/probability/order, scrolls, stars -1..30, <= 4 bonus specs by grade or rank, potentials, "
                 "exceptional part on the gears that allow it): build() vs an independent field-arithmetic "
                 "recomposition and vs the Lean build; deep snapshot of blueprint, meta and base gear before/after."),
        "samples": sweep.samples + bp_samples,
        "gears_total": len(all_ids), "gears_unloadable": unloadable, "gears_swept": len(chosen),
        "metas_swept": sweep.metas, "per_class": sweep.classes,
        "starforce_calls_on_shipped_gears": shipped_calls, "starforce_calls_total": sweep.calls,
        "random_single_steps": n_single, "random_table_lookups": n_single,
        "blueprints_checked": bp_checked, "blueprints_built": bp_built, "blueprints_refused_as_expected": bp_refused,
        "model_vs_code_requests": len(reqs), "model_vs_code_disagreements": disagreements,
        "per_correspondence_point": per_point,
    })
    # ===== C17_Parts begin
    pc = parts.coverage()
    ck.coverage["evaluations"] += pc["spell_trace_calls"] + pc["bonus_calls"] + pc["scroll_calls"] + \
        pc["exceptional_calls"] + pc["spec_cases"] + pc["adversarial_blueprints"]
    ck.coverage["distinct_nontrivial"] += pc["distinct_nontrivial"]
    ck.coverage["rule"] += (
        " Parts (Props/C17_Parts.lean): SpellTrace.calculate_improvement on EVERY GearType member x 8 level bands x all "
        "listed probabilities x all listed stat kinds (+ 4th-trace order x 10 job masks on every armor kind, + unlisted "
        "probabilities/kinds, + the distinct (type, level, job) of shipped gears with scroll slots), Scroll / "
        "ExceptionalEnhancement on random gear types, BonusFactory.create(kind, grade).calculate_improvement on one shipped "
        "gear per (weapon type, level, boss flag, base attack) x 17 kinds x grades 1..7 (attack kinds also -8..9), "
        "BonusSpec(grade, rank) validation/get_grade: every value compared EXACTLY with the Lean model; on the real code "
        "every legal spell trace (weapon-likes 100/70/30/15, other classes 100/70/30; INT/DEX/LUK/STR/MHP) and every "
        "bonus with a grade that exists on the gear must be a Stat with all 27 fields >= 0. Every random blueprint above "
        "is also given to the model WITHOUT part contributions (description only: meta, spell traces, scrolls, stars, "
        "bonus specs, exceptional stat) and the built stat / raised exception compared (exact on the 25 additive "
        "fields, 1e-9 on the two multiplicative ones), plus adversarial blueprints outside the well-formed domain. "
        "Distinct/non-trivial (parts): distinct (gear class, rank, probability, kind, 4th-trace case) of legal spell "
        "traces + distinct (gear, kind, grade) of valid bonus options + built concrete blueprints.")
    ck.coverage["samples"] = ck.coverage["samples"] + parts.samples
    ck.coverage["parts"] = pc
    if pc["shipped_gears_with_scroll_slots_outside_every_spell_trace_class"]:
        ck.notes.append("spell traces are not defined (UnboundLocalError) on shipped gears with scroll slots whose type is in "
                        "none of the five classes of SpellTrace.calculate_improvement: "
                        + str(pc["shipped_gears_with_scroll_slots_outside_every_spell_trace_class"])
                        + " -- outside the domain of spellTrace_defined (Traceable) and of the C17 statement; reported")
    ck.assumptions += [
        "C17_Parts: the concrete blueprint model evaluates spell traces / scrolls / bonus specs / the exceptional part "
        "itself (Simaple.Model.GearParts over the generated Simaple.Gen.GearParts) and hands the values to the "
        "composition model above; the bonus improvement is the C18 model Simaple.Bonus.improve (integer base attack: "
        "floor of meta.base_stat, integral on all shipped gears; float ceil == exact ceil is part of the exact comparison)",
    ]
    # ===== C17_Parts end
    ck.assumptions += [
        "star force is modelled on integers: every base stat, table cell, spell-trace and scroll value fed is an "
        "integer (checked per call; a non-integral or foreign non-zero field is reported as a disagreement)",
        "what a spell trace / scroll / bonus / exceptional part contributes is an input of the blueprint model "
        "(the model is about the composition order and where star force is computed); the harness feeds the real "
        "calculate_improvement results",
        "`build` never altering blueprint/base gear is checked by deep snapshot on the real objects (not a Lean statement)",
        "py2lean table/predicate extraction is cross-checked on every run against the live module objects and "
        "GearType methods",
    ]
    ck.finish("proof",
              trusted_base=["Lean 4.33 kernel", "axioms: propext, Classical.choice, Quot.sound (checked by #print axioms)",
                            "gen_starforce.py table/predicate extraction (validated against the live module in this run)",
                            "hand model Simaple/Model/Starforce.lean + GearBlueprint.lean (validated by the "
                            "correspondence in this run)",
                            "C17_Parts: gen_gearparts.py extraction + hand model Simaple/Model/GearParts.lean (both "
                            "validated against the live modules / real calculate_improvement in this run)",
                            "CPython float arithmetic exact on the integers involved; 1e-9 on the two multiplicative fields"],
              checker_cmd="cd lean && lake build Simaple.Props.C17 && lake env lean Simaple/Audit/C17.lean")


if __name__ == "__main__":
    run_check("C17", main)
