"""C10 -- status views never fail and never advertise a skill that would be rejected."""
from __future__ import annotations

import random

from vlib import Check, run_check, pmap
import simlib
import complib
from simlib import JOBS, command_text, random_plan

from simaple.core.base import Stat
from simaple.simulate.reserved_names import Tag


def unit(job, variant, pi, seed, length, fork_every):
    rng = random.Random(f"C10:{seed}:{job}:{variant}:{pi}")
    cmds = random_plan(rng, job, variant, length) if pi % 2 == 0 else simlib.rotation_plan(rng, job, variant, max(3, length // 8))
    eng = simlib.make_engine(job, variant)
    out = {"states": 0, "forks": 0, "valid_listed": 0, "failing": [], "foreign_rejects": 0, "skills": set(), "strategy_reqs": [],
           "sample": None, "keydown_running_states": 0}
    done = []

    def fail(kind, **kw):
        if len(out["failing"]) < 5:
            out["failing"].append({"kind": kind, "job": job, "variant": variant,
                                   "plan": [command_text(c) for c in done], **kw})

    for i, c in enumerate(cmds):
        # the property's own observation point: the validity view before a USE/CAST and the events of that USE
        listed = None
        if getattr(c, "command", None) in ("USE", "CAST"):
            try:
                listed = {v.name: v.valid for v in eng.get_current_viewer()("validity")}.get(c.name)
            except Exception:
                listed = None
        log = eng.exec(c)
        done.append(c)
        if listed:
            out["engine_level_uses"] = out.get("engine_level_uses", 0) + 1
            own = [e for pl in log.playlogs for e in pl.events if e["name"] == c.name and e["method"] == "use"]
            if any(e["tag"] == Tag.REJECT for e in own) or not own:
                fail("valid-but-rejected", skill=c.name, via=f"engine {c.command}",
                     events=[e for pl in log.playlogs for e in pl.events if e["name"] == c.name][:4])
        views, err = complib.eval_views(eng)
        out["states"] += 1
        if err is not None:
            fail(err["kind"], view=err["view"], error=err["error"])
            continue
        for v in views["validity"]:
            if v.time_left < 0:
                fail("negative-time-left", skill=v.name, time_left=v.time_left)
        buff = views["buff"]
        if not isinstance(buff, Stat) or any(x != x for x in buff.model_dump().values()):
            fail("buff-not-a-stat", value=repr(buff)[:200])
        elif i % 4 == 0:
            # the total buff is the monoid sum (repeated +, independent of Stat.sum) of the switched-on component buffs
            store = eng._history.current_store()
            total = Stat()
            for view in eng._viewset.get_views(r".*\.buff"):
                b = view(store)
                if b is not None:
                    total = total + b
            bd, td = buff.model_dump(), total.model_dump()
            if any(abs(bd[k] - td[k]) > 1e-6 * max(1.0, abs(td[k])) for k in bd):
                fail("buff-is-not-the-sum-of-component-buffs",
                     diff={k: (bd[k], td[k]) for k in bd if abs(bd[k] - td[k]) > 1e-6 * max(1.0, abs(td[k]))})
            out["buff_sums"] = out.get("buff_sums", 0) + 1
        if any(k.running for k in views["keydown"]):
            out["keydown_running_states"] += 1
        if i % 3 == 1 and len(out["strategy_reqs"]) < 12:
            # the shipped default policy on this state: it must cast a skill that is listed valid (or raise ValueError
            # exactly when nothing is), and the Lean model of cast_by_priority must pick the same skill
            from simaple.simulate.strategy.default import cast_by_priority
            order = [v.name for v in views["validity"]]
            rng.shuffle(order)
            order = order[: rng.randint(0, len(order))]
            viewer = eng.get_current_viewer()
            try:
                cmd = next(cast_by_priority(order)((viewer, [])))
                chosen = cmd[len('CAST "'):-1]
            except ValueError:
                chosen = None
            valid_now = {v.name for v in views["validity"] if v.valid}
            if chosen is not None and chosen not in valid_now:
                fail("policy-casts-a-skill-not-listed-valid", skill=chosen, order=order)
            if chosen is None and valid_now:
                fail("policy-fails-although-skills-are-valid", order=order)
            try:
                out["strategy_reqs"].append(({"fn": "cast_by_priority", "order": order,
                                              "validity": [{"name": v.name, "valid": bool(v.valid)} for v in views["validity"]],
                                              "running": [[r.name, complib.units(r.time_left)] for r in views["running"]]},
                                             chosen))
            except complib.OffGrid:
                pass
        if i % fork_every != 0:
            continue
        playlogs = [pl for log in eng.operation_logs() for pl in log.playlogs]
        ckpt = playlogs[-1].checkpoint
        # the views of the RECORDED state (engine.get_viewer(playlog), the web API's path for every play log) are
        # defined and show what the live views show at this moment
        try:
            rec_viewer = eng.get_viewer(playlogs[-1])
            for vn in complib.VIEW_NAMES:
                vd = lambda x: [vd(y) for y in x] if isinstance(x, (list, tuple)) else (x.model_dump() if hasattr(x, "model_dump") else x)  # noqa: E731
                if vd(rec_viewer(vn)) != vd(views[vn]):
                    fail("recorded-state-shows-another-view-than-the-live-state", view=vn)
                    break
            out["recorded_views"] = out.get("recorded_views", 0) + 1
        except Exception as e:  # noqa: BLE001
            fail("views-of-the-recorded-state-raise", error=f"{type(e).__name__}: {str(e)[:200]}")
            break
        for v in views["validity"]:
            if not v.valid:
                continue
            out["valid_listed"] += 1
            out["skills"].add(v.name)
            out["forks"] += 1
            events = complib.forked_use(eng, ckpt, v.name)
            own = [e for e in events if e["name"] == v.name and e["method"] == "use"]
            if any(e["tag"] == Tag.REJECT for e in own):
                fail("valid-but-rejected", skill=v.name, events=own[:4])
            elif any(e["tag"] == Tag.REJECT for e in events):
                out["foreign_rejects"] += 1
    # the views after going BACK in the history: what the viewer shows must be the state the next command runs on,
    # i.e. what a fresh engine shows after the surviving commands, and a skill listed valid there must be accepted
    out["rollback_views"] = 0
    for _r in range(2):
        try:
            eng.get_current_viewer()("validity")           # somebody looked at the views before going back
            n_hist = len(list(eng.operation_logs()))
            if n_hist < 3:
                break
            idx = rng.randint(0, n_hist - 2)
            eng.rollback(idx)
            kept = [ol.command for ol in eng.operation_logs()][1:]
            got, err = complib.eval_views(eng)
            fresh = simlib.make_engine(job, variant)
            for c in kept:
                fresh.exec(c)
            want, err2 = complib.eval_views(fresh)
        except Exception as e:
            fail("views-after-rollback-raise", error=f"{type(e).__name__}: {e}"[:200])
            break
        out["rollback_views"] += 1
        done = list(kept)
        if err is not None or err2 is not None:
            if (err is None) != (err2 is None):
                fail("view-raises-after-rollback-only", error=str(err or err2)[:200], rollback_to=idx)
            continue
        a = simlib.canon({k: [x.model_dump() if hasattr(x, "model_dump") else x for x in v] if isinstance(v, list)
                          else (v.model_dump() if hasattr(v, "model_dump") else v) for k, v in got.items()})
        b = simlib.canon({k: [x.model_dump() if hasattr(x, "model_dump") else x for x in v] if isinstance(v, list)
                          else (v.model_dump() if hasattr(v, "model_dump") else v) for k, v in want.items()})
        if a != b:
            bad = [k for k in got if simlib.canon([getattr(x, "model_dump", lambda: x)() for x in got[k]] if isinstance(got[k], list) else getattr(got[k], "model_dump", lambda: got[k])())
                   != simlib.canon([getattr(x, "model_dump", lambda: x)() for x in want[k]] if isinstance(want[k], list) else getattr(want[k], "model_dump", lambda: want[k])())]
            fail("views-after-rollback-differ-from-a-fresh-run", rollback_to=idx, views=bad[:4])
            continue
        for v in got["validity"]:
            if v.valid and rng.random() < 0.5:
                try:
                    events = complib.forked_use(eng, eng._history.get(idx).playlogs[-1].checkpoint, v.name) \
                        if eng._history.get(idx).playlogs else None
                except Exception:
                    events = None
                if events is not None:
                    own = [e for e in events if e["name"] == v.name and e["method"] == "use"]
                    if any(e["tag"] == Tag.REJECT for e in own):
                        fail("valid-but-rejected", skill=v.name, via="after rollback", rollback_to=idx, events=own[:3])
    out["skills"] = len(out["skills"])
    out["reqs"], out["expect"], out["mstats"] = complib.harvest_model_requests(cmds, job, variant, per_key=10)
    # boundary states of the cooldown: any remaining cooldown is reachable by choosing elapse amounts, so each
    # harvested state of a component with a `cooldown` entity is also tried with the cooldown just above, at and
    # just below zero; valid => the component's own `use` is not rejected, and time_left >= 0
    out["boundary_states"] = 0
    with complib.Harvest(6) as hv:
        eng2 = simlib.make_engine(job, variant)
        for i, c in enumerate(cmds):
            eng2.exec(c)
            if i % 5 == 0:
                complib.eval_views(eng2)
    import copy as _copy
    for _sig, call in hv.calls.items():
        if call["method"] != "validity" or not hasattr(call["args"][-1], "cooldown"):
            continue
        comp = call["owner"]
        if not hasattr(comp, "use"):
            continue
        for tl in (2.0 ** -10, 5e-4, 1e-9, 0.0, -(2.0 ** -10)):
            st = _copy.deepcopy(call["args"][-1])
            st.cooldown.time_left = tl
            out["boundary_states"] += 1
            try:
                v = comp.validity(_copy.deepcopy(st))
                _new, evs = comp.use(None, _copy.deepcopy(st))
            except Exception as e:
                fail("view-or-use-raised-on-boundary-state", skill=comp.name, cooldown_time_left=tl,
                     error=f"{type(e).__name__}: {e}")
                continue
            evs = evs if isinstance(evs, list) else ([] if evs is None else [evs])
            if v.time_left < 0:
                fail("negative-time-left", skill=comp.name, cooldown_time_left=tl, time_left=v.time_left)
            if v.valid and any(e["tag"] == Tag.REJECT for e in evs):
                fail("valid-but-rejected", skill=comp.name, component_class=type(comp).__name__,
                     cooldown_time_left=tl, synthetic="cooldown.time_left of a harvested state set to a boundary value")
    # boundary states of every OTHER number a state holds (stacks, gauges, counters): each numeric field of each entity
    # of a harvested state is set to the component's own thresholds (its numeric configuration values, and 0 / 1), to
    # one below and to one above, with the cooldown ready -- the view and `use` must draw the line at the same place
    seen_cls = set()
    for _sig, call in hv.calls.items():
        comp = call["owner"]
        st0 = call["args"][-1]
        if call["method"] != "validity" or not hasattr(comp, "use") or type(comp).__name__ in seen_cls:
            continue
        seen_cls.add(type(comp).__name__)
        cfg = [v for v in comp.model_dump().values() if isinstance(v, (int, float)) and not isinstance(v, bool) and 0 <= v <= 1e6]
        cands = sorted({x for v in cfg for x in (v - 1, v, v + 1) if x >= 0} | {0, 1, 2})[:16]
        for ename in type(st0).model_fields:
            ent = getattr(st0, ename, None)
            if ent is None or not hasattr(type(ent), "model_fields") or ename in ("cooldown", "dynamics"):
                continue
            for fname in type(ent).model_fields:
                cur = getattr(ent, fname, None)
                if isinstance(cur, bool) or not isinstance(cur, (int, float)):
                    continue
                for val in cands:
                    st = _copy.deepcopy(st0)
                    try:
                        setattr(getattr(st, ename), fname, type(cur)(val))
                        if hasattr(st, "cooldown"):
                            st.cooldown.time_left = 0.0
                        v = comp.validity(_copy.deepcopy(st))
                        _new, evs = comp.use(None, _copy.deepcopy(st))
                    except Exception:  # noqa: BLE001 -- a synthetic state the component cannot be in
                        continue
                    out["boundary_states"] += 1
                    evs = evs if isinstance(evs, list) else ([] if evs is None else [evs])
                    own = [e for e in evs if e.get("name") == comp.name]
                    if v.valid and any(e["tag"] == Tag.REJECT for e in own):
                        fail("valid-but-rejected", skill=comp.name, component_class=type(comp).__name__,
                             synthetic=f"{ename}.{fname} of a harvested state set to {val} (cooldown ready)",
                             state={k: getattr(st, k).model_dump() for k in type(st).model_fields
                                    if hasattr(getattr(st, k, None), "model_dump")})
                        break
    out["sample"] = {"job": job, "plan": [command_text(c) for c in cmds][:10]}
    return out


def main(ck: Check):
    quick = ck.tier == "quick"
    variants = [0, 1] if quick else [0, 1, 2]
    plans_per = 2 if quick else 18
    length = (25, 40) if quick else (60, 140)
    fork_every = 3 if quick else 1
    rng = ck.rng
    work = [(job, v, pi, ck.seed, rng.randint(*length), fork_every) for job in JOBS for v in variants for pi in range(plans_per)]
    tot = {"states": 0, "forks": 0, "valid_listed": 0, "foreign_rejects": 0, "skills": 0, "keydown_running_states": 0,
           "boundary_states": 0, "recorded_views": 0}
    samples, reqs, expect = [], [], []
    mstats: dict = {}
    for args, out in pmap(unit, work, ck.budget_s * 0.7):
        if args is None:
            ck.notes.append(f"budget reached: {out}")
            if out["done"] < max(4, out["total"] // 2):
                raise TimeoutError(f"only {out['done']}/{out['total']} units finished within the budget")
            continue
        for k in tot:
            tot[k] += out.get(k, 0)
        for f in out["failing"]:
            ck.add_failing(f)
        if len(samples) < 3:
            samples.append(out["sample"])
        reqs.extend(out["reqs"])
        expect.extend(out["expect"])
        for rq, ex in out["strategy_reqs"]:
            reqs.append(rq)
            expect.append(ex)
        complib.merge_stats(mstats, out["mstats"])
    with ck.locked():
        ck.regenerate(["core"])          # Props/C10_Views.lean is stated over the generated Stat.sum
        proved = ck.prove("Simaple.Props.C10")
        if not quick and proved:
            ck.leanchecker(["Simaple.Props.C10"])
        res = ck.driver(reqs, timeout=900)
    disagreements = 0
    if res is not None:
        for r, ex, rq in zip(res, expect, reqs):
            if r.get("ok") != ex:
                disagreements += 1
                if disagreements <= 3:
                    ck.broken.append({"kind": "correspondence", "point": "Model.Component vs the real reducer/view",
                                      "request": rq, "model": r, "implementation": ex})
    ck.coverage.update({
        "evaluations": tot["states"] + tot["forks"],
        "distinct_nontrivial": tot["forks"],
        "rule": "all 8 jobs x environment variants x seeded plans; after EVERY command all six views (validity, running, buff, "
                "keydown, info, clock) are evaluated (no exception, no negative time_left, buff is a Stat without NaN); after "
                f"every {fork_every}th command every skill the validity view lists as usable is USEd on a restored copy of the "
                "current checkpoint and its own answer (events named after the skill with method 'use') must contain no REJECT "
                "(a REJECT of a different, listening component in the same play is counted as foreign_rejects, not a violation). "
                "evaluations = states + forked uses; distinct_nontrivial = forked uses",
        "samples": samples,
        **tot,
        "model_component_calls_compared": len(reqs),
        "model_component_disagreements": disagreements,
        "model_coverage": mstats,
    })
    ck.assumptions += ["'accepted' is read as: the used skill's own answer contains no REJECT"]
    ck.finish("proof",
              trusted_base=["Lean 4.33 kernel", "axioms ⊆ {propext, Classical.choice, Quot.sound}",
                            "hand-written component models tied to the code by replaying harvested reducer/view calls"],
              checker_cmd="cd lean && lake build Simaple.Props.C10 && lake env lean Simaple/Audit/C10.lean")


if __name__ == "__main__":
    run_check("C10", main)
