"""C19 -- optimizers stay within budget and bounds, keep presets, never do worse.

1. proofs: Simaple.Props.C19 (about the hand-written model Simaple.Model.Optimizer).
2. correspondence by RECORDED ORACLE: the real StepwizeOptimizer runs on the real targets (and on
   synthetic table targets that reach the exceptional paths); every (state -> cost, value) the target
   answered is recorded; the Lean model replays the greedy over that table; chosen increments, final
   state / exception must match.  Same for the weapon-potential brute force (recorded rewards), the step
   iterator, get_stepped_target and clone().
3. the property itself on the real code: budget, limits, presets, value under the configured armour,
   no single affordable step improves, determinism, clone preserves the objective; weapon potentials vs
   an independent brute force over all legal combinations of the unpruned lists.
"""
from __future__ import annotations

import contextlib
import itertools
import math
from fractions import Fraction

from vlib import Check, run_check, frac_str, parse_frac

from simaple.core import JobType, Stat
from simaple.core.damage import (
    DEXBasedDamageLogic,
    INTBasedDamageLogic,
    LUKBasedDamageLogic,
    LUKBasedDualSubDamageLogic,
    STRBasedDamageLogic,
)
from simaple.data.system.hyperstat import get_kms_hyperstat
from simaple.data.system.link import get_kms_link_skill_set
from simaple.data.system.union_block import create_with_some_large_blocks
from simaple.gear.potential import PotentialTier
from simaple.optimizer import (
    DiscreteTarget,
    HyperstatTarget,
    Iterator,
    LinkSkillTarget,
    StepwizeOptimizer,
    UnionOccupationTarget,
    UnionSquadTarget,
    WeaponPotentialOptimizer,
)
from simaple.optimizer import weapon_potential_optimizer as wpo_mod
from simaple.system.hyperstat import Hyperstat
from simaple.system.union import (
    UnionOccupation,
    get_buff_duration_preempted_union_occupation_state,
)

REL = 1e-9
LOGICS = {
    "STR": (STRBasedDamageLogic, "STR", "DEX", "attack_power"),
    "INT": (INTBasedDamageLogic, "INT", "LUK", "magic_attack"),
    "DEX": (DEXBasedDamageLogic, "DEX", "STR", "attack_power"),
    "LUK": (LUKBasedDamageLogic, "LUK", "DEX", "attack_power"),
    "LUKDualSub": (LUKBasedDualSubDamageLogic, "LUK", "DEX", "attack_power"),
}
ARMORS = [0, 100, 300]
KINDS = ["hyperstat", "linkSkill", "unionSquad", "unionOccupation"]
TARGET_CLASSES = [HyperstatTarget, LinkSkillTarget, UnionSquadTarget, UnionOccupationTarget]


def ge(a: float, b: float) -> bool:
    """a >= b up to float noise"""
    return a >= b - REL * max(1.0, abs(a), abs(b))


def close(a: float, b: float) -> bool:
    return math.isclose(a, b, rel_tol=REL, abs_tol=1e-12)


# ------------------------------------------------------------------------------------------------ inputs
def make_logic(name: str, rng):
    cls = LOGICS[name][0]
    return cls(attack_range_constant=rng.choice([1.0, 1.2, 1.3, 1.5]), mastery=rng.choice([0.85, 0.9, 0.95]))


def make_reference_stat(name: str, armor: int, rng) -> dict:
    """a reference stat block in the positive-damage domain of the logic under the armour: positive
    main stat and attack, armour factor 1 - armor*(100-ied)/10000 > 0"""
    _, major, minor, att = LOGICS[name]
    lo_ied = 70 if armor > 100 else 5
    d = {
        major: rng.choice([4000, 12000, 40000, 65000]),
        minor: rng.choice([400, 2500, 5000]),
        att: rng.choice([300, 1500, 3000, 5200]),
        "critical_rate": rng.choice([20, 60, 80, 97, 100, 104]),
        "critical_damage": rng.choice([0, 40, 100]),
        "damage_multiplier": rng.choice([0, 120, 300]),
        "boss_damage_multiplier": rng.choice([0, 150, 320]),
        "ignored_defence": rng.choice([x for x in (5, 28, 55, 70, 82, 90, 96) if x >= lo_ied]),
    }
    if rng.random() < 0.4:
        d[major + "_static"] = rng.choice([1000, 10000])
    if rng.random() < 0.3:
        d[major + "_multiplier"] = rng.choice([50, 300])
    if rng.random() < 0.3:
        d[att + "_multiplier"] = rng.choice([30, 90])
    if rng.random() < 0.2:
        d["final_damage_multiplier"] = rng.choice([10, 60])
    if name == "LUKDualSub":
        d["STR"] = rng.choice([400, 3000])
    return d


_DATA = {}


def data(name):
    if name not in _DATA:
        _DATA[name] = {"hyperstat": get_kms_hyperstat, "links": get_kms_link_skill_set}[name]()
    return _DATA[name]


_SQUADS = {}


def squad(jobs: tuple):
    if jobs not in _SQUADS:
        _SQUADS[jobs] = create_with_some_large_blocks(large_block_jobs=list(jobs))
    return _SQUADS[jobs]


LINK_JOBS = None


def link_jobs():
    global LINK_JOBS
    if LINK_JOBS is None:
        LINK_JOBS = sorted({j for l in data("links").links for j in l.providing_jobs}, key=lambda j: j.value)
    return LINK_JOBS


SQUAD_JOBS = None


def squad_jobs():
    global SQUAD_JOBS
    if SQUAD_JOBS is None:
        SQUAD_JOBS = [b.job for b in squad(()).blocks]
    return SQUAD_JOBS


def build_target(case: dict):
    """construct the real target exactly as simaple/optimizer/preset.py and tests/optimizer do"""
    kind, logic, ref, armor = case["kind"], case["logic_obj"], Stat(**case["ref"]), case["armor"]
    kw = {} if armor is None else {"armor": armor}
    if kind == "hyperstat":
        t = HyperstatTarget(ref, logic, data("hyperstat"), **kw)
        step = 1
    elif kind == "linkSkill":
        t = LinkSkillTarget(ref, logic, data("links"), preempted_jobs=[JobType(j) for j in case["jobs"]], **kw)
        step = 1
    elif kind == "unionSquad":
        jobs = [JobType(j) for j in case["jobs"]]
        t = UnionSquadTarget(ref, logic, squad(tuple(jobs)), preempted_jobs=jobs, **kw)
        step = 1
    else:
        t = UnionOccupationTarget(ref, logic, UnionOccupation(), **kw)
        step = 2
    if case.get("preset_state") is not None:
        t.set_state(list(case["preset_state"]))
    return t, case.get("step_size", step)


def stat_of_state(kind: str, proto_target, state) -> Stat:
    """the stat a state stands for, computed from the prototype data, not through the target"""
    if kind == "hyperstat":
        return proto_target._hyperstat_prototype.get_level_rearranged(list(state)).get_stat()
    if kind == "linkSkill":
        return proto_target._link_skillset.get_masked(list(state)).get_stat()
    if kind == "unionSquad":
        return proto_target._union_squad.get_masked(list(state)).get_stat()
    return proto_target._union_occupation_prototype.get_occupation_rearranged(list(state)).get_stat()


def cost_of_state(kind: str, proto_target, state) -> float:
    if kind == "hyperstat":
        cost = proto_target._hyperstat_prototype.cost
        return sum(sum(cost[:lv]) for lv in state)
    return sum(state)


def slot_limit(kind: str) -> int:
    return {"hyperstat": 15, "linkSkill": 1, "unionSquad": 1, "unionOccupation": 40}[kind]


def max_budget(kind: str, case) -> int:
    if kind == "hyperstat":
        return Hyperstat.get_maximum_cost_from_level(case.get("level", 300))
    return {"linkSkill": 28, "unionSquad": 48, "unionOccupation": 202}[kind]


# ------------------------------------------------------------------------------------------------ recording
@contextlib.contextmanager
def recording(classes, table: dict):
    """wrap get_cost / get_value of the target classes: every answer goes into `table`
    (state tuple -> [cost, value or None]); clones are instances of the same classes, so they are
    recorded too.  Behaviour is unchanged."""
    saved = []
    for cls in classes:
        oc, ov = cls.get_cost, cls.get_value
        saved.append((cls, oc, ov))

        def gc(self, _o=oc):
            c = _o(self)
            e = table.setdefault(tuple(self.state), [None, None])
            e[0] = c
            return c

        def gv(self, _o=ov):
            v = _o(self)
            e = table.setdefault(tuple(self.state), [None, None])
            e[1] = v
            return v

        cls.get_cost, cls.get_value = gc, gv
    try:
        yield
    finally:
        for cls, oc, ov in saved:
            cls.get_cost, cls.get_value = oc, ov


class TracingOptimizer(StepwizeOptimizer):
    """the real optimizer; only remembers what get_optimal_increment returned at which state"""

    def __init__(self, *a, **k):
        super().__init__(*a, **k)
        self.trace = []

    def get_optimal_increment(self, target):
        inc = super().get_optimal_increment(target)
        self.trace.append((tuple(target.state), tuple(inc)))
        return inc


def run_real(target, budget, step_size, max_iter=None, record_classes=None):
    """returns (result state | None, exception name | None, trace, table)"""
    table = {}
    kw = {} if max_iter is None else {"maximum_iteration_count": max_iter}
    opt = TracingOptimizer(target, budget, step_size, **kw)
    classes = record_classes or [type(target)]
    out, err = None, None
    with recording(classes, table):
        try:
            out = opt.optimize()
        except Exception as e:  # noqa: BLE001 -- the exception type is the observation
            err = type(e).__name__
    trace = list(opt.trace)
    # the same inputs give the same result: the SAME optimizer object asked again (nothing was changed in between)
    first = list(out.state) if out is not None else err
    try:
        again = list(opt.optimize().state)
    except Exception as e:  # noqa: BLE001
        again = type(e).__name__
    if again != first:
        REPEAT_DIFFS.append({"target": type(target).__name__, "initial_state": list(target.state), "budget": budget,
                             "step_size": step_size, "first_optimize": first, "second_optimize_of_the_same_object": again})
    return out, err, trace, table


REPEAT_DIFFS: list = []


def oracle_rows(table: dict):
    rows = []
    for st, (c, v) in table.items():
        if c is None:
            # value asked without cost: only the original state can be in this situation; not expected
            continue
        rows.append([list(st), frac_str(c), None if v is None else frac_str(v)])
    return rows


# ------------------------------------------------------------------------------------------------ synthetic
class TableTarget(DiscreteTarget):
    """a target whose cost and value come from small seeded tables: cost = sum of per-slot cumulative
    costs, value = sign * 2^(sum of per-slot exponents).  Powers of two keep the float arithmetic of
    get_reward exact up to one correctly rounded division, so float ties are exactly the rational ties."""

    def __init__(self, costs, exps, maximum_step, zero_at=None, state=None):
        super().__init__(len(costs), maximum_step)
        self.costs, self.exps, self.zero_at = costs, exps, zero_at
        self._mx = maximum_step
        if state is not None:
            self.set_state(list(state))

    def _lv(self, i, x):
        return min(x, len(self.costs[i]) - 1)

    def get_cost(self):
        return sum(self.costs[i][self._lv(i, x)] for i, x in enumerate(self.state[: len(self.costs)]))

    def get_value(self):
        if self.zero_at is not None and tuple(self.state) == tuple(self.zero_at):
            return 0.0
        e = sum(self.exps[i][self._lv(i, x)] for i, x in enumerate(self.state[: len(self.costs)]))
        return 2.0 ** e

    def clone(self):
        return TableTarget(self.costs, self.exps, self._mx, self.zero_at, self.state)

    def get_result(self):
        return list(self.state)


def make_synthetic(rng):
    n = rng.randint(1, 4)
    step_size = rng.choice([1, 1, 2, 2, 3, 4])
    mx = rng.choice([-1, 1, 2, 3, 5])
    depth = 7
    flavour = rng.choice(["plain", "plain", "nonmonotone", "freestep", "zero", "guard", "badlen", "overpreset"])
    costs, exps = [], []
    for _ in range(n):
        c, e = [0], [0]
        for _k in range(depth):
            dc = rng.choice([1, 1, 2, 3, 5])
            if flavour == "freestep" and rng.random() < 0.25:
                dc = 0
            c.append(c[-1] + dc)
            de = rng.choice([0, 1, 1, 2, 3])
            if flavour == "nonmonotone" and rng.random() < 0.5:
                de = rng.choice([-3, -2, -1, 0])
            e.append(e[-1] + de)
        costs.append(c)
        exps.append(e)
    lim = depth if mx == -1 else mx
    state = [0] * n
    if rng.random() < 0.5:
        state = [rng.randint(0, min(lim, 2)) for _ in range(n)]
    if flavour == "overpreset":
        state[rng.randrange(n)] = lim + 1 if lim < depth else lim
    budget = rng.choice([0, 1, 2, 3, 5, 8, 13, 21, 40]) + rng.choice([0, 0, 0.5])
    if rng.random() < 0.5:
        budget = int(budget)
    max_iter = None
    if flavour == "guard":
        max_iter = rng.choice([0, 1, 2, 3])
        budget = 40
    zero_at = None
    if flavour == "zero":
        zero_at = list(state)
        if rng.random() < 0.5:
            zero_at[rng.randrange(n)] += 1
    if flavour == "badlen":
        if rng.random() < 0.5 and n > 1:
            state = state[:-1]
        else:
            state = state + [0]
    return {"costs": costs, "exps": exps, "mx": mx, "zero_at": zero_at, "state": state,
            "budget": budget, "step_size": step_size, "max_iter": max_iter, "flavour": flavour, "n": n}


# ------------------------------------------------------------------------------------------------ weapon
TIERS = [PotentialTier.empty, PotentialTier.rare, PotentialTier.epic, PotentialTier.unique, PotentialTier.legendary]


def option_ids():
    """a number for every distinct line of _WEAPON_POTENTIALS"""
    ids, stats = {}, []
    for tier in TIERS:
        for st in wpo_mod._WEAPON_POTENTIALS[tier]:
            key = tuple(sorted(st.short_dict().items()))
            if key not in ids:
                ids[key] = len(stats)
                stats.append(st)
    return ids, stats


def oid(ids, st: Stat) -> int:
    return ids[tuple(sorted(st.short_dict().items()))]


def legal_lines(lines, emblem: bool) -> bool:
    boss = sum(1 for s in lines if s.boss_damage_multiplier > 0)
    ied = sum(1 for s in lines if s.ignored_defence > 0)
    return boss <= 2 and ied <= 2 and not (emblem and boss > 0)


def sum_stats(default: Stat, lines) -> Stat:
    s = default
    for l in lines:
        s = s + l
    return s


def independent_weapon_best(logic, default: Stat, armor, tiers, ids):
    """brute force over ALL legal (weapon, sub-weapon, emblem) combinations of the unpruned lists;
    the reward only depends on the multiset of the nine lines, so it is computed once per multiset"""
    lists = [[(oid(ids, s), s) for s in wpo_mod._WEAPON_POTENTIALS[t]] for t in tiers]
    combos = [(tuple(i for i, _ in c), [s for _, s in c]) for c in itertools.product(*lists)]
    normal = [c for c in combos if legal_lines(c[1], False)]
    emblem = [c for c in combos if legal_lines(c[1], True)]
    cache = {}
    best, n = None, 0
    for kw, w in normal:
        for ks, s_ in normal:
            kws = kw + ks
            for ke, e in emblem:
                key = tuple(sorted(kws + ke))
                n += 1
                r = cache.get(key)
                if r is None:
                    r = cache[key] = logic.get_damage_factor(sum_stats(default, w + s_ + e), armor=armor)
                if best is None or r > best:
                    best = r
    return best, n, len(cache)


# ------------------------------------------------------------------------------------------------ main
def main(ck: Check):
    rng = ck.rng
    quick = ck.tier == "quick"
    ids, id_stats = option_ids()

    def fail(what, **inputs):
        item = {"what": what}
        item.update(inputs)
        ck.add_failing(item)

    reqs, expect = [], []
    evaluations = 0
    distinct = set()
    per_kind = {}
    single_steps_checked = 0
    affordable_single_steps = 0
    oracle_checked = 0
    samples = []
    syn_outcomes = {}
    weapon_brute = 0
    plain_checked = [0]
    weapon_distinct = set()
    lnames = list(LOGICS)

    # ------------------------------------------------------------ one step-wise case on the real code
    def run_stepwise(case):
        nonlocal evaluations, single_steps_checked, affordable_single_steps, oracle_checked
        kind, armor, budget = case["kind"], case["armor"], case["budget"]
        eff_armor = 300 if armor is None else armor
        desc = {k: case[k] for k in ("kind", "logic", "logic_params", "armor", "ref", "budget", "jobs", "preset_state", "level")}
        try:
            target, step_size = build_target(case)
        except KeyError:
            # a preset job without a slot (e.g. no link skill lists the job): construction itself fails
            ck.notes.append(f"construction KeyError for jobs {case['jobs']} ({kind})")
            return
        logic, ref = case["logic_obj"], Stat(**case["ref"])
        init_state = list(target.state)

        def ind_value(state):
            return logic.get_damage_factor(ref + stat_of_state(kind, target, state), armor=eff_armor)

        v_init = ind_value(init_state)
        if not v_init > 0:
            return  # outside the positive-damage domain
        c_init = cost_of_state(kind, target, init_state)
        out, err, trace, table = run_real(target, budget, step_size, record_classes=TARGET_CLASSES)
        evaluations += 1
        per_kind[kind] = per_kind.get(kind, 0) + 1
        if err is not None:
            fail("optimizer raised", error=err, **desc)
            return
        res = list(out.state)
        distinct.add((kind, case["logic"], eff_armor, budget, tuple(res)))
        if len(samples) < 4 and res != init_state:
            samples.append({**{k: desc[k] for k in ("kind", "logic", "armor", "budget", "jobs", "preset_state")}, "result": res})
        # --- the prototype is not disturbed
        if list(target.state) != init_state:
            fail("optimize() changed the prototype's state", **desc, after=list(target.state))
        # --- determinism
        out2, err2, _, _ = run_real(build_target(case)[0], budget, step_size)
        if err2 is not None or list(out2.state) != res:
            fail("not deterministic", **desc, first=res, second=None if out2 is None else list(out2.state))
        # --- budget
        c_res = cost_of_state(kind, target, res)
        if not close(out.get_cost(), c_res):
            fail("get_cost() of the result disagrees with the cost table", **desc, result=res, get_cost=out.get_cost(), expected=c_res)
        if c_init <= budget and c_res > budget:
            fail("result over budget", **desc, result=res, cost=c_res)
        if c_init > budget and res != init_state:
            fail("over-budget preset was changed", **desc, result=res)
        # --- limits
        if len(res) != len(init_state) or any(x > slot_limit(kind) or x < 0 for x in res):
            if all(x <= slot_limit(kind) for x in init_state):
                fail("slot over its limit", **desc, result=res, limit=slot_limit(kind))
        if any(x > out.maximum_step for x, y in zip(res, init_state) if y <= out.maximum_step):
            fail("slot over maximum_step", **desc, result=res, limit=out.maximum_step)
        # --- presets
        if len(res) != len(init_state) or any(r < i for r, i in zip(res, init_state)):
            fail("preset not kept", **desc, initial=init_state, result=res)
        if kind in ("linkSkill", "unionSquad"):
            idx = [(target._link_skillset if kind == "linkSkill" else target._union_squad).get_index(JobType(j)) for j in case["jobs"]]
            if any(res[i] != 1 for i in idx):
                fail("pre-assigned job dropped", **desc, result=res, job_slots=idx)
        # --- never worse, under the configured armour
        v_res = ind_value(res)
        if not ge(v_res, v_init):
            fail("result worth less than the preset", **desc, result=res, value=v_res, initial_value=v_init)
        # --- the objective the optimizer used is the configured one
        if out.armor != eff_armor:
            fail("result target lost the configured armor", **desc, result_armor=out.armor)
        if not close(out.get_value(), v_res):
            fail("get_value() of the result is not the value under the configured armor", **desc, result=res,
                 get_value=out.get_value(), expected=v_res)
        keys = list(table)
        for st in (keys if len(keys) <= 12 else rng.sample(keys, 12)):
            c, v = table[st]
            oracle_checked += 1
            if c is not None and not close(c, cost_of_state(kind, target, st)):
                fail("a cost the optimizer saw is not the cost of that state", **desc, state=list(st), seen=c)
            if v is not None and not close(v, ind_value(st)):
                fail("a value the optimizer saw is not the value under the configured armor", **desc,
                     state=list(st), seen=v, expected=ind_value(st))
        # --- no single further affordable step improves
        v_out = out.get_value()
        for i in range(len(res)):
            single_steps_checked += 1
            nt = out.get_stepped_target((i,))
            if nt is None:
                continue
            if list(nt.state) != [x + (1 if j == i else 0) for j, x in enumerate(res)]:
                fail("get_stepped_target((i,)) is not one more level in slot i", **desc, result=res, slot=i, got=list(nt.state))
            c = cost_of_state(kind, target, nt.state)
            if c > budget:
                continue
            affordable_single_steps += 1
            v = ind_value(nt.state)
            if v > v_res * (1 + REL):
                fail("an affordable single step improves the result", **desc, result=res, slot=i, value=v, result_value=v_res)
            if c != c_res and (v / v_res - 1) / (c - c_res) > -1 + REL:
                fail("an affordable single step still has reward > -1", **desc, result=res, slot=i)
        # --- clone preserves the objective
        for t in (target, out):
            cl = t.clone()
            same = (type(cl) is type(t) and list(cl.state) == list(t.state) and cl.armor == t.armor
                    and cl.maximum_step == t.maximum_step and cl.state_length == t.state_length
                    and cl.get_cost() == t.get_cost() and cl.get_value() == t.get_value())
            if not same or not close(cl.get_value(), ind_value(cl.state)):
                fail("clone() changed the objective", **desc, state=list(t.state), target_armor=t.armor, clone_armor=cl.armor,
                     value=t.get_value(), clone_value=cl.get_value(), expected_value=ind_value(cl.state))
        # --- Lean replay over the recorded oracle
        if case["replay"]:
            reqs.append({"fn": "opt_replay", "n": target.state_length, "maxStep": target.maximum_step,
                         "stepSize": step_size, "maxIter": 999, "budget": frac_str(budget), "init": init_state,
                         "table": oracle_rows(table), "states": [list(st) for st, _ in trace]})
            expect.append(("replay", {"case": desc, "result": res, "error": None, "trace": trace,
                                      "rebuild": case}))
            reqs.append({"fn": "opt_clone", "kind": kind, "length": target.state_length,
                         "preempted": [] if kind not in ("linkSkill", "unionSquad") else
                         [(target._link_skillset if kind == "linkSkill" else target._union_squad).get_index(JobType(j)) for j in case["jobs"]],
                         "state": res, **({} if armor is None else {"armor": str(armor)})})
            fresh = build_target({**case, "preset_state": None})[0]
            expect.append(("clone", {"case": desc, "initial_state": list(fresh.state), "state": res,
                                     "armor": eff_armor, "maximum_step": out.maximum_step, "state_length": out.state_length}))

    # ------------------------------------------------------------ one synthetic table target
    def run_synthetic(sp):
        nonlocal evaluations
        t = TableTarget(sp["costs"], sp["exps"], sp["mx"], sp["zero_at"], sp["state"])
        out, err, trace, table = run_real(t, sp["budget"], sp["step_size"], sp["max_iter"])
        evaluations += 1
        key = err or "returned"
        syn_outcomes[key] = syn_outcomes.get(key, 0) + 1
        res = None if out is None else list(out.state)
        reqs.append({"fn": "opt_replay", "n": sp["n"], "maxStep": t.maximum_step, "stepSize": sp["step_size"],
                     "maxIter": 999 if sp["max_iter"] is None else sp["max_iter"], "budget": frac_str(sp["budget"]),
                     "init": sp["state"], "table": oracle_rows(table)})
        expect.append(("replay", {"case": {"synthetic": sp}, "result": res, "error": err, "trace": trace, "rebuild": None}))
        # the theorems' statements, on the real optimizer over this target
        if out is not None and len(sp["state"]) == sp["n"]:
            s0 = sp["state"]
            c0 = TableTarget(sp["costs"], sp["exps"], sp["mx"], sp["zero_at"], s0).get_cost()
            if c0 <= sp["budget"] and out.get_cost() > sp["budget"]:
                fail("result over budget", synthetic=sp, result=res)
            if any(r < i for r, i in zip(res, s0)) or len(res) != len(s0):
                fail("preset not kept", synthetic=sp, result=res)
            if all(x <= t.maximum_step for x in s0) and any(x > t.maximum_step for x in res):
                fail("slot over maximum_step", synthetic=sp, result=res)
            opt = StepwizeOptimizer(t, sp["budget"], sp["step_size"])
            for i in range(sp["n"]):
                try:
                    rw = opt.get_reward(out, (i,))
                except ZeroDivisionError:
                    fail("reward of a single step from the result is undefined", synthetic=sp, result=res, slot=i)
                    continue
                if rw > -1:
                    fail("a single step from the result still has reward > -1", synthetic=sp, result=res, slot=i, reward=rw)

    def report_repeats():
        while REPEAT_DIFFS:
            d = REPEAT_DIFFS.pop()
            fail("optimize() of the same optimizer object gives another result the second time", **d)

    # ------------------------------------------------------------ one weapon-potential case
    def run_weapon(lname, armor, tiers, logic, refd):
        nonlocal evaluations, weapon_brute
        eff_armor = 300 if armor is None else armor
        ref = Stat(**refd)
        desc = {"kind": "weapon", "logic": lname, "armor": armor, "ref": refd, "tiers": [t.value for t in tiers],
                "logic_params": {"attack_range_constant": logic.attack_range_constant, "mastery": logic.mastery}}
        kw = {} if armor is None else {"armor": armor}
        opt = WeaponPotentialOptimizer(default_stat=ref, tiers=tiers, damage_logic=logic, **kw)
        rewards = []
        orig = WeaponPotentialOptimizer.get_reward

        def rec(self, st, _o=orig):
            r = _o(self, st)
            rewards.append(r)
            return r

        WeaponPotentialOptimizer.get_reward = rec
        try:
            full = opt.get_full_optimal_potential()
            n_full = len(rewards)
            single = opt.get_optimal_potential()
        finally:
            WeaponPotentialOptimizer.get_reward = orig
        full2 = opt.get_full_optimal_potential()
        evaluations += 1
        if [p.model_dump() for p in full] != [p.model_dump() for p in full2]:
            fail("weapon result not deterministic", **desc)
        lines = [[o.stat for o in p.options] for p in full]
        weapon_distinct.add((lname, eff_armor, tuple(t.value for t in tiers), tuple(tuple(oid(ids, s) for s in l) for l in lines)))
        # legality of the returned triple
        lists = [wpo_mod._WEAPON_POTENTIALS[t] for t in tiers]
        chosen_any = any(len(l) > 0 for l in lines)
        if chosen_any:
            for pi, l in enumerate(lines):
                ok = len(l) == 3 and all(any(s == c for c in lst) for s, lst in zip(l, lists)) and legal_lines(l, pi == 2)
                if not ok:
                    fail("weapon result is not a legal combination", **desc, potential=pi,
                         lines=[s.short_dict() for s in l])
        # best of all legal combinations (independent brute force over the unpruned lists)
        best, n_legal, n_keys = independent_weapon_best(logic, ref, eff_armor, tiers, ids)
        weapon_brute += n_legal
        got = logic.get_damage_factor(sum_stats(ref, [s for l in lines for s in l]), armor=eff_armor)
        if best is not None and best > 0:
            if not chosen_any or not ge(got, best):
                fail("weapon result is not the best legal combination", **desc,
                     chosen=[[s.short_dict() for s in l] for l in lines], reward=got, best=best)
        elif chosen_any:
            fail("weapon result chosen although no combination has positive reward", **desc)
        # single potential
        sl = [o.stat for o in single.options]
        best1 = max((logic.get_damage_factor(sum_stats(ref, c), armor=eff_armor)
                     for c in itertools.product(*lists) if legal_lines(c, False)), default=None)
        got1 = logic.get_damage_factor(sum_stats(ref, sl), armor=eff_armor)
        if best1 is not None and best1 > 0 and not (sl and ge(got1, best1) and legal_lines(sl, False)):
            fail("single weapon potential is not the best legal one", **desc, chosen=[s.short_dict() for s in sl])
        # replay: candidates as the real code enumerates them, rewards as the real code computed them
        cands = list(opt.get_potential_candidates(tiers))
        ecands = list(opt.get_potential_candidates(tiers, emblem=True))
        key = lambda p: [oid(ids, o.stat) for o in p.options]  # noqa: E731
        triples = [(w, s, e) for w in cands for s in cands for e in ecands]
        if len(triples) != n_full or len(rewards) != n_full + len(cands):
            ck.broken.append({"kind": "correspondence", "point": "weapon reward call count", "case": desc,
                              "triples": len(triples), "calls": n_full, "single_calls": len(rewards) - n_full})
            return
        table = [[key(w) + key(s) + key(e), frac_str(r)] for (w, s, e), r in zip(triples, rewards[:n_full])]
        table1 = [[key(c), frac_str(r)] for c, r in zip(cands, rewards[n_full:])]
        useful = sorted({oid(ids, s) for t in tiers for s in opt.get_useful_candidates(t)})
        # hypothesis (1) of dominated_of_local_replacement on the real data: every tier list keeps a useful
        # line that is neither boss nor ignore-defence (whenever anything at all has positive reward)
        if best is not None and best > 0:
            plain_checked[0] += 1
            for t in tiers:
                if not any(s.boss_damage_multiplier == 0 and s.ignored_defence == 0 for s in opt.get_useful_candidates(t)):
                    fail("a tier has no useful plain line although the damage is positive", **desc, tier=t.value)
        reqs.append({"fn": "weapon_replay", "tiers": [[oid(ids, s) for s in lst] for lst in lists], "useful": useful,
                     "boss": [i for i, s in enumerate(id_stats) if s.boss_damage_multiplier > 0],
                     "ied": [i for i, s in enumerate(id_stats) if s.ignored_defence > 0],
                     "table": table, "table1": table1})
        expect.append(("weapon", {"case": desc, "full": [key(p) for p in full] if chosen_any else None,
                                  "single": key(single) if sl else None,
                                  "candidates": [key(c) for c in cands], "emblem_candidates": [key(c) for c in ecands]}))

    # ============================================================ replay mode: re-execute recorded failing inputs
    if getattr(ck, 'replay', None):
        import json as _json
        import sys as _sys
        rec = _json.loads(open(ck.replay).read())
        n_run = 0
        for it in rec.get('failing_inputs', []):
            lp = it.get('logic_params') or {}
            if 'synthetic' in it:
                run_synthetic(it['synthetic']); n_run += 1
            elif it.get('kind') in KINDS:
                case = {k: it.get(k) for k in ('kind', 'logic', 'armor', 'ref', 'budget', 'jobs', 'preset_state', 'level', 'logic_params')}
                case.update({'logic_obj': LOGICS[it['logic']][0](**lp), 'replay': False, 'tag': 'replay'})
                run_stepwise(case); n_run += 1
            elif it.get('kind') == 'weapon':
                run_weapon(it['logic'], it['armor'], tuple(PotentialTier(t) for t in it['tiers']),
                           LOGICS[it['logic']][0](**lp), it['ref']); n_run += 1
            # ---- BEGIN part "Targets" (harness/c19_targets.py): recorded failing inputs of the concrete targets
            elif str(it.get('kind', '')).startswith('tgt:'):
                import c19_targets
                n_run += c19_targets.replay(ck, it, LOGICS, data, squad)
            # ---- END part "Targets"
        for f in ck.failing[:10]:
            print('still failing:', _json.dumps(f, ensure_ascii=False, default=str)[:600])
        for l in ck.known_lines:
            print(l)
        if ck.failing:
            print(f'VIOLATION property=C19 replay={ck.replay}')
        print(f'[C19] replay of {n_run} recorded inputs: {len(ck.failing)} failing')
        _sys.exit(1 if ck.failing else 0)

    # ============================================================ BEGIN part "Targets" (harness/c19_targets.py)
    # the CONCRETE targets: Gen/Systems.lean (generated), Model/Targets.lean, Props/C19_Targets.lean (part file,
    # built and audited by ck.prove below).  Here: the part's statements evaluated on the real code (cost/value/table/
    # budget monotonicity) and the driver requests for the model-vs-code comparison (made under the Lean lock below).
    import c19_targets
    tgt = c19_targets.Part(ck, LOGICS, make_logic, make_reference_stat, data, squad, stat_of_state)
    tgt.real_code()
    tgt.build_requests()
    ck.notes.append(f"part Targets: real code + requests {ck.elapsed():.1f}s")
    # ============================================================ END part "Targets"

    # ============================================================ A. cases for the four step-wise targets
    cases = []

    def add_case(kind, lname, armor, budget, jobs=(), preset_state=None, level=None, replay=False, tag=""):
        logic = make_logic(lname, rng)
        ref_armor = 300 if armor is None else armor
        cases.append({"kind": kind, "logic": lname, "logic_obj": logic, "armor": armor,
                      "ref": make_reference_stat(lname, ref_armor, rng), "budget": budget, "jobs": list(jobs),
                      "preset_state": preset_state, "level": level, "replay": replay, "tag": tag,
                      "logic_params": {"attack_range_constant": logic.attack_range_constant, "mastery": logic.mastery}})

    levels = [139, 140, 141, 150, 199, 200, 210, 250, 260, 275, 285, 300]
    n_rounds = 1 if quick else 8
    for rnd in range(n_rounds):
        for li, lname in enumerate(lnames):
            for ai, armor in enumerate(ARMORS + [None]):
                rp = (rnd == 0 and (li + ai) % 2 == 0) if quick else (rnd < 2)
                # hyperstat: budgets are the maximum cost of character levels, plus odd ones
                lv = rng.choice(levels) if not (rnd == 0 and armor == 300) else 300
                b = Hyperstat.get_maximum_cost_from_level(lv)
                if rng.random() < 0.3:
                    b = rng.randint(0, max(1, b))
                pre = None
                if rng.random() < 0.4:
                    pre = [rng.choice([0, 0, 1, 2, 5]) for _ in range(10)]
                add_case("hyperstat", lname, armor, b, preset_state=pre, level=lv, replay=rp)
                # link skills: the character's own job is pre-assigned
                jobs = rng.sample(link_jobs(), rng.choice([0, 1, 1, 1, 2]))
                add_case("linkSkill", lname, armor, rng.choice([0, 1, 2, 3, 6, 12, 13, 13, 20, 28]),
                         jobs=[j.value for j in jobs], replay=rp and ai < 2)
                if ai == 0:
                    # several pre-assigned jobs that provide THE SAME link skill (one slot, whose limit is 1)
                    groups: dict = {}
                    for j in link_jobs():
                        groups.setdefault(data("links").get_index(j), []).append(j)
                    shared = [g for g in groups.values() if len(g) >= 2]
                    if shared:
                        g = rng.choice(shared)
                        same = rng.sample(g, min(len(g), rng.choice([2, 2, 3])))
                        add_case("linkSkill", lname, armor, rng.choice([2, 3, 6, 13]),
                                 jobs=[j.value for j in same] + [j.value for j in jobs[:1] if j not in same], replay=False)
                # union squad
                jobs = rng.sample(squad_jobs(), rng.choice([0, 1, 1, 2, 3]))
                add_case("unionSquad", lname, armor, rng.choice([0, 1, 2, 5, 7, 10, 15, 30, 36, 47, 48]),
                         jobs=[j.value for j in jobs], replay=rp and ai == 0)
                # union occupation, sometimes with the buff-duration preset of preset.py
                pre = None
                r = rng.random()
                if r < 0.35:
                    pre = get_buff_duration_preempted_union_occupation_state()
                elif r < 0.5:
                    pre = [rng.choice([0, 3, 10]) for _ in range(5)]
                add_case("unionOccupation", lname, armor, rng.choice([0, 1, 2, 7, 20, 41, 60, 80, 120, 199, 200, 202]),
                         preset_state=pre, replay=rp and ai < 3)
    if not quick:
        # all budgets 0..max for one configuration of each kind
        lname = rng.choice(lnames)
        for b in range(0, 29):
            add_case("linkSkill", lname, rng.choice(ARMORS), b, jobs=[rng.choice(link_jobs()).value], tag="all-budgets")
        for b in range(0, 49):
            add_case("unionSquad", lname, rng.choice(ARMORS), b, jobs=[rng.choice(squad_jobs()).value], tag="all-budgets")
        for b in range(0, 203, 3):
            add_case("unionOccupation", lname, rng.choice(ARMORS), b, tag="all-budgets")
        for lv in range(139, 301, 2):
            add_case("hyperstat", rng.choice(lnames), rng.choice(ARMORS), Hyperstat.get_maximum_cost_from_level(lv),
                     level=lv, tag="all-levels")

    time_cap = ck.budget_s * (0.55 if quick else 0.6)
    for n_done, case in enumerate(cases):
        if ck.elapsed() > time_cap:
            ck.notes.append(f"time cap reached after {n_done} step-wise cases of {len(cases)}")
            break
        run_stepwise(case)
        report_repeats()

    # ============================================================ B. synthetic table targets (all paths)
    for k in range(120 if quick else 1500):
        run_synthetic(make_synthetic(rng))
        report_repeats()

    # iterator and get_stepped_target, directly
    for n in range(0, 7):
        for d in range(0, 6):
            reqs.append({"fn": "opt_iterator", "n": n, "depth": d})
            expect.append(("iterator", [list(v) for v in Iterator().cumulated_iterator(n, d)]))
    for _ in range(60 if quick else 400):
        n = rng.randint(1, 5)
        st = [rng.randint(0, 3) for _ in range(n)]
        inc = [rng.randint(0, n - 1 if rng.random() < 0.9 else n) for _ in range(rng.randint(0, 4))]
        mx = rng.randint(1, 4)
        t = TableTarget([[0] * 9] * n, [[0] * 9] * n, mx, None, st)
        try:
            nt = t.get_stepped_target(inc)
            py = None if nt is None else list(nt.state)
        except IndexError:
            py = "IndexError"
        reqs.append({"fn": "opt_stepped", "state": st, "inc": inc, "maxStep": mx})
        expect.append(("stepped", py))

    # ============================================================ C. weapon potentials
    weapon_cases = []
    tier_triples = [(a, b, c) for a in TIERS for b in TIERS for c in TIERS]
    n_weapon = 10 if quick else 200
    preferred = [(PotentialTier.legendary, PotentialTier.unique, PotentialTier.unique),
                 (PotentialTier.unique, PotentialTier.epic, PotentialTier.epic),
                 (PotentialTier.legendary, PotentialTier.legendary, PotentialTier.legendary),
                 (PotentialTier.legendary, PotentialTier.unique, PotentialTier.empty),
                 (PotentialTier.rare, PotentialTier.rare, PotentialTier.empty)]
    for k in range(n_weapon):
        lname = lnames[k % 5]
        armor = (ARMORS + [None])[(k // 5 + k) % 4]
        tiers = preferred[k % len(preferred)] if k < 2 * len(preferred) else rng.choice(tier_triples)
        weapon_cases.append((lname, armor, tiers))
    for lname, armor, tiers in weapon_cases:
        if ck.elapsed() > ck.budget_s * (0.72 if quick else 0.8):
            ck.notes.append("time cap reached in weapon cases")
            break
        run_weapon(lname, armor, tiers, make_logic(lname, rng),
                   make_reference_stat(lname, 300 if armor is None else armor, rng))

    # ============================================================ C2. the entry points of optimizer/preset.py
    from loguru import logger as _logger
    from simaple.optimizer.preset import PresetOptimizer
    _logger.disable("simaple")
    preset_calls = 0
    for k in range(3 if quick else 20):
        if ck.elapsed() > ck.budget_s * (0.78 if quick else 0.85):
            break
        lname = lnames[(k + ck.seed) % 5]
        logic = make_logic(lname, rng)
        refd = make_reference_stat(lname, 300, rng)
        ref = Stat(**refd)
        job = rng.choice([j for j in link_jobs() if j in squad_jobs()])
        alts = rng.sample([j for j in squad_jobs() if j != job], rng.choice([0, 1, 2]))
        level = rng.choice([140, 200, 230, 260, 275, 290])
        po = PresetOptimizer(union_block_count=rng.choice([3, 7, 20, 37, 44]), default_stat=Stat(), level=level,
                             damage_logic=logic, character_job_type=job, alternate_character_job_types=alts,
                             link_count=rng.choice([1, 3, 12, 13]), buff_duration_preempted=rng.random() < 0.5,
                             artifact_level=10)
        desc = {"kind": "PresetOptimizer", "logic": lname, "ref": refd, "level": level, "job": job.value,
                "alternates": [a.value for a in alts], "union_block_count": po.union_block_count,
                "link_count": po.link_count, "buff_duration_preempted": po.buff_duration_preempted,
                "logic_params": {"attack_range_constant": logic.attack_range_constant, "mastery": logic.mastery}}
        preset_calls += 1
        evaluations += 1
        try:     # (added with part "Targets": an entry point that raises is a failing input, not a harness crash)
            hs = po.calculate_optimal_hyperstat(ref)
            if hs.get_current_cost() > Hyperstat.get_maximum_cost_from_level(level) or any(lv > 15 for lv in hs.levels):
                fail("calculate_optimal_hyperstat over budget or over level 15", **desc, levels=hs.levels, cost=hs.get_current_cost())
            if logic.get_damage_factor(ref + hs.get_stat()) < logic.get_damage_factor(ref) * (1 - REL):
                fail("calculate_optimal_hyperstat worse than nothing", **desc, levels=hs.levels)
            ln = po.calculate_optimal_links(ref)
            if ln.length() > max(po.link_count, 1) or not any(job in l.providing_jobs for l in ln.links):
                fail("calculate_optimal_links over the link count or without the character's own link", **desc,
                     links=[l.name for l in ln.links])
            sq = po.calculate_optimal_union_squad(ref)
            need = {job, *alts}
            if sq.length() > max(po.union_block_count, len(need)) or not need <= {b.job for b in sq.blocks}:
                fail("calculate_optimal_union_squad over the block count or without the pre-assigned jobs", **desc,
                     blocks=[b.job.value for b in sq.blocks])
            count = rng.choice([40, 57, 120, 180, 205])
            oc = po.calculate_optimal_union_occupation(ref, count)
            st = oc.occupation_state
            if sum(st) > count or any(x > 40 for x in st) or (po.buff_duration_preempted and st[4] != 40):
                fail("calculate_optimal_union_occupation over the count / limit or without the preset", **desc,
                     occupation_count=count, state=st)
            wp = po.calculate_optimal_weapon_potential(ref, rng.choice(preferred))
            for pi, p in enumerate(wp):
                if p.options and not legal_lines([o.stat for o in p.options], pi == 2):
                    fail("calculate_optimal_weapon_potential returned an illegal potential", **desc, potential=pi)
        except (ZeroDivisionError, IndexError, TypeError, StepwizeOptimizer.MaximumOptimizationStepExceed) as e:
            fail("a PresetOptimizer entry point raised", **desc, error=type(e).__name__)

    # ============================================================ D. proofs and the model's answers
    t_py = ck.elapsed()
    with ck.locked():
        t_lock = ck.elapsed()
        ck.regenerate(["systems", "core"])      # part "Targets": Gen/Systems.lean + Gen/Core.lean from the current source
        proved = ck.prove("Simaple.Props.C19")
        if ck.tier == "thorough" and proved:
            ck.leanchecker(["Simaple.Props.C19"])
            ck.leanchecker(["Simaple.Proofs.Targets", "Simaple.Props.C19_Targets"])      # part "Targets"
        t_prove = ck.elapsed()
        res = ck.driver(reqs, timeout=max(120.0, ck.time_left() + 240))
        tgt.correspond(ck.driver(tgt.reqs, timeout=max(120.0, ck.time_left() + 240)))      # part "Targets"
        tgt.judge_diverged(ck.driver)
    ck.notes.append(f"phases: real code {t_py:.1f}s, wait for lean lock {t_lock - t_py:.1f}s, "
                    f"prove+audit {t_prove - t_lock:.1f}s, driver {ck.elapsed() - t_prove:.1f}s")

    disagreements, near_ties, per_point = 0, 0, {}
    near_tie_samples = []
    per_iteration, whole_runs, runs_diverged_by_tie = [0], [0], [0]

    def disagree(point, req_i, model, impl, case=None):
        nonlocal disagreements
        disagreements += 1
        if disagreements <= 6:
            r = dict(reqs[req_i])
            for big in ("table", "table1"):
                if big in r:
                    r[big] = f"<{len(r[big])} rows>"
            ck.broken.append({"kind": "correspondence", "point": point, "request": r, "case": case,
                              "model": model, "implementation": impl})

    if res is not None:
        for i, (r, (what, exp)) in enumerate(zip(res, expect)):
            per_point[what] = per_point.get(what, 0) + 1
            if "ok" not in r:
                disagree(what, i, r, exp if what in ("iterator", "stepped") else exp.get("case"))
                continue
            m = r["ok"]
            if what == "iterator":
                if m != exp:
                    disagree(what, i, m, exp)
            elif what == "stepped":
                if m != exp:
                    disagree(what, i, m, exp)
            elif what == "clone":
                got = {"initial_state": m["initial_state"], "state": m["state"], "armor": float(parse_frac(m["armor"])),
                       "maximum_step": m["maximum_step"], "state_length": m["state_length"]}
                want = {k: exp[k] for k in got}
                want["armor"] = float(want["armor"])
                if got != want:
                    disagree(what, i, got, want, exp["case"])
            elif what == "weapon":
                got = {k: m[k] for k in ("full", "single", "candidates", "emblem_candidates")}
                want = {k: exp[k] for k in got}
                if got != want or m["misses"] != 0:
                    disagree(what, i, {**{k: got[k] for k in ("full", "single")}, "misses": m["misses"],
                                       "n_candidates": len(got["candidates"])},
                             {k: want[k] for k in ("full", "single")}, exp["case"])
            elif what == "replay":
                mres = m["result"]
                m_trace = [tuple(t[0]) for t in m["trace"]]
                py_trace = [inc for _, inc in exp["trace"] if len(inc) > 0]
                same_end = (mres.get("state") == exp["result"] and exp["error"] is None) or \
                           (mres.get("error") == exp["error"] and exp["error"] is not None)

                def is_noise(state, inc_a, inc_b):
                    """the two increments' rewards, recomputed by the real get_reward, agree to 1e-9"""
                    if exp["rebuild"] is None or len(inc_a) == 0 or len(inc_b) == 0:
                        return None
                    tgt, step = build_target(exp["rebuild"])
                    tgt.set_state(list(state))
                    o = StepwizeOptimizer(tgt, exp["rebuild"]["budget"], step)
                    ra, rb = o.get_reward(tgt, tuple(inc_a)), o.get_reward(tgt, tuple(inc_b))
                    return (ra, rb) if math.isclose(ra, rb, rel_tol=1e-9, abs_tol=1e-15) else None

                # every iteration of the real run on its own: get_optimal_increment at the state the real
                # optimizer was in (independent of earlier float ties)
                bad_iter = False
                for (st, inc), ps in zip(exp["trace"], m.get("per_state", [])):
                    per_iteration[0] += 1
                    if isinstance(ps, list) and tuple(ps[0]) == tuple(inc):
                        continue
                    nz = is_noise(st, ps[0], inc) if isinstance(ps, list) else None
                    if nz is not None:
                        near_ties += 1
                        if len(near_tie_samples) < 5:
                            near_tie_samples.append({"kind": exp["case"].get("kind"), "state": list(st),
                                                     "model_increment": list(ps[0]), "model_reward_float": nz[0],
                                                     "code_increment": list(inc), "code_reward_float": nz[1]})
                    else:
                        bad_iter = True
                        disagree("get_optimal_increment", i, {"state": list(st), "model": ps}, {"increment": list(inc)}, exp["case"])
                        break
                if bad_iter:
                    continue
                # the whole run.  When the guard fires the real trace holds the fatal step as well; so does the model's
                if same_end and m_trace == py_trace and (m["misses"] == 0 or exp["error"] is not None) \
                        and m["trace_agrees_with_optimize"]:
                    whole_runs[0] += 1
                    continue
                # a diverging run is float noise only if, at the first differing choice, the two rewards agree
                k = next((j for j, (a, b) in enumerate(zip(m_trace, py_trace)) if a != b), None)
                if k is not None and m["trace_agrees_with_optimize"] and \
                        is_noise(exp["trace"][k][0], m_trace[k], py_trace[k]) is not None:
                    runs_diverged_by_tie[0] += 1
                else:
                    disagree(what, i, {"result": mres, "trace": m_trace[:40], "misses": m["misses"],
                                       "trace_agrees_with_optimize": m["trace_agrees_with_optimize"]},
                             {"result": exp["result"], "error": exp["error"], "trace": py_trace[:40]}, exp["case"])

    ck.coverage.update({
        "evaluations": evaluations + len(reqs),
        "distinct_nontrivial": len(distinct) + len(weapon_distinct),
        "rule": "real optimizers built as in simaple/optimizer/preset.py: 5 damage logics x seeded reference stat blocks in "
                "the positive-damage domain x armour {0,100,300,default} x budgets (maximum hyper-stat cost of character "
                "levels 139..300, link/union budgets 0..max and beyond) x preset jobs / preset states; synthetic table "
                "targets for the exceptional paths (zero value, free step, iteration guard, wrong state length, presets "
                "over the limit, non-monotone values, step sizes 1-4); weapon potentials for tier triples; a step-wise "
                "case is distinct/non-trivial by (kind, logic, armour, budget, result state), a weapon case by "
                "(logic, armour, tiers, chosen lines)",
        "samples": samples,
        "stepwise_cases_per_kind": per_kind,
        "synthetic_outcomes": syn_outcomes,
        "single_steps_checked": single_steps_checked,
        "affordable_single_steps_after_termination": affordable_single_steps,
        "oracle_entries_checked_against_configured_armor": oracle_checked,
        "weapon_cases": len(weapon_distinct),
        "preset_optimizer_entry_point_rounds": preset_calls,
        "weapon_legal_combinations_enumerated": weapon_brute,
        "weapon_cases_with_a_useful_plain_line_in_every_tier": plain_checked[0],
        "model_vs_code_requests": len(reqs),
        "model_vs_code_per_point": per_point,
        "model_vs_code_disagreements": disagreements,
        "replay_whole_runs_identical": whole_runs[0],
        "replay_runs_diverged_at_a_float_tie": runs_diverged_by_tie[0],
        "replay_iterations_compared": per_iteration[0],
        "replay_float_near_ties": near_ties,
        "replay_float_near_tie_samples": near_tie_samples,
    })
    # ---- BEGIN part "Targets"
    ck.coverage.update(tgt.coverage())
    ck.coverage["evaluations"] += tgt.evaluations
    ck.coverage["distinct_nontrivial"] += len(tgt.distinct)
    ck.assumptions.append(
        "part Targets: the concrete targets' tables, budget formula and maximum_step are regenerated from the source "
        "(YAML specs, _HYPERSTAT_COST, get_maximum_cost_from_level, get_union_occupation_values, the super().__init__ "
        "calls) on every run and compared with the live objects; get_cost/get_value are hand-written (Model/Targets.lean) "
        "and compared with the real targets on seeded states; value monotonicity is proved in the positive-damage domain "
        "(ConfigOk: reference stat fields >= 0, final damage >= -100, ignore-defence <= 100, armour term >= 0)")
    # ---- END part "Targets"
    ck.assumptions += [
        "floats are modelled by exact rationals; the greedy replay computes rewards exactly from the recorded float "
        "answers; a divergence counts as float noise only if the two rewards agree to 1e-9 (counted in "
        "replay_float_near_ties)",
        "the targets are abstract in the model (cost/value functions); their concrete answers enter through the recorded "
        "oracle, and are checked against the prototype data and the configured armour on the real objects",
        "weapon_best is proved over the pruned candidate lists (weapon_best_partial); that pruning loses nothing "
        "(useless_stays_useless for get_damage_factor) is a hypothesis (Dominated) and is checked on every run by an "
        "independent brute force over all legal combinations of the unpruned lists",
    ]
    ck.finish("proof",
              trusted_base=["Lean 4.33 kernel", "axioms: propext, Classical.choice, Quot.sound (checked by #print axioms)",
                            "Mathlib linarith/nlinarith/norm_num",
                            "hand-written model Simaple.Model.Optimizer (validated by the recorded-oracle replay in this run)",
                            "CPython float comparison of recorded answers ~ exact rationals"],
              checker_cmd="cd lean && lake build Simaple.Props.C19 Simaple.Props.C19_Targets && lake env lean Simaple/Audit/C19.lean")


if __name__ == "__main__":
    run_check("C19", main)
