"""C07 -- a rejected action is reported alone and changes nothing."""
from __future__ import annotations

import random

from vlib import Check, run_check, pmap
import simlib
import complib
from simlib import JOBS, command_text, random_plan

from simaple.simulate.reserved_names import Tag


def reject_biased_plan(rng, job, variant, n):
    """plans biased to produce rejections: re-USE during cooldown, triggers while unavailable,
    KEYDOWNSTOP when idle"""
    base = random_plan(rng, job, variant, n)
    out = []
    for c in base:
        out.append(c)
        if getattr(c, "command", None) in ("USE", "CAST") and rng.random() < 0.6:
            out.append(simlib.op("USE", c.name))          # immediately again: usually on cooldown
        if rng.random() < 0.1:
            out.append(simlib.op("ELAPSE", time=rng.choice([0.0, 10.0, 300.0])))
    return out


def unit(job, variant, pi, seed, length):
    rng = random.Random(f"C07:{seed}:{job}:{variant}:{pi}")
    cmds = reject_biased_plan(rng, job, variant, length) if pi % 2 == 0 else simlib.rotation_plan(rng, job, variant, max(3, length // 8))
    sink: list[dict] = []
    eng = complib.proxied_engine(job, variant, sink)
    out = {"dispatches": 0, "rejections": 0, "failing": [], "by_class": {}, "listened_rejections": 0,
           "tag_reqs": [], "map_reqs": [], "sample": None}
    done = []
    for c in cmds:
        n0 = len(sink)
        eng.exec(c)
        done.append(c)
        for rec in sink[n0:]:
            out["dispatches"] += 1
            if rec["rejected"]:
                out["rejections"] += 1
                key = f"{rec['cls']}.{rec.get('method')}"
                slot = out["by_class"].setdefault(key, {"rejections": 0, "listened": 0})
                slot["rejections"] += 1
                if rec.get("listened"):
                    slot["listened"] += 1
                    out["listened_rejections"] += 1
                for p in rec.get("problems", []):
                    if len(out["failing"]) < 6:
                        out["failing"].append({"component_class": rec["cls"], "component": rec["name"],
                                               "method": rec.get("method"), "kind": p["kind"], "job": job,
                                               "action": rec["action"], "detail": p,
                                               "plan": [command_text(x) for x in done]})
    out["sample"] = {"job": job, "plan": [command_text(c) for c in cmds][:10]}
    creqs, cexp, out["mstats"] = complib.harvest_model_requests(cmds, job, variant, per_key=10, views=False)
    out["comp_reqs"] = list(zip(creqs, cexp))
    out["synthetic"] = 0
    if pi == 0:
        # latent rejections: the same component classes with a positive cooldown where the shipped data has none
        # (a shipped skill with cooldown 0 can never reject on cooldown); USE twice on a bare store
        from simaple.container.simulation import get_skill_components
        from simaple.simulate.kms import bare_store
        for comp in get_skill_components(simlib.make_env(job, variant)):
            if getattr(comp, "cooldown_duration", None) != 0:
                continue
            try:
                alt = comp.model_copy(update={"cooldown_duration": 30_000.0})
                store = bare_store(simlib.make_env(job, variant).character.action_stat)
                disp = alt.export_dispatcher()
                disp.init_store(store)
                prx = complib.DispatcherProxy(disp, sink)
                n0 = len(sink)
                for _ in range(2):
                    prx({"name": alt.name, "method": "use", "payload": None}, store)
            except Exception:
                continue
            out["synthetic"] += 1
            for rec in sink[n0:]:
                for p in rec.get("problems", []):
                    out["failing"].append({"component_class": rec["cls"], "component": rec["name"], "method": rec.get("method"),
                                           "kind": p["kind"], "job": job, "action": rec["action"], "detail": p,
                                           "synthetic": "cooldown_duration set to 30000 (shipped value 0); USE twice"})
        sink.clear()
    # fork sweep: on restored copies of reached checkpoints, dispatch EVERY mapped reducer of EVERY component
    # (player actions and listened/triggered ones alike)
    import inspect
    import pydantic
    playlogs = [pl for log in eng.operation_logs() for pl in log.playlogs]
    picks = playlogs[:: max(1, len(playlogs) // (6 if len(cmds) < 60 else 12))]
    proxies = [d for d in eng._router._dispatchers if isinstance(d, complib.DispatcherProxy) and d._base is not None]
    out["fork_dispatches"] = 0
    out["fork_errors"] = 0
    for pl in picks:
        for prx in proxies:
            store = pl.checkpoint.restore()
            keys = list(prx._base.reducer_mappings.keys())
            rng.shuffle(keys)
            for key in keys:
                if key.startswith("$"):
                    name, method = key.replace("$", ""), ""
                    if "." in name:
                        name, _, method = name.partition(".")
                else:
                    name, _, method = key.partition(".")
                wrapper = prx._base.reducer_mappings[key]
                ann = wrapper._payload_type
                if ann in (float, int):
                    payload = rng.choice([0.0, 100.0, 1000.0])
                elif inspect.isclass(ann) and issubclass(ann, pydantic.BaseModel):
                    payload = {"time": 300.0, "name": "x", "damage": 100.0, "lasting_time": 3000.0, "hit": 1.0}
                else:
                    payload = None
                n0 = len(sink)
                try:
                    prx({"name": name, "method": method, "payload": payload}, store)
                except Exception:
                    out["fork_errors"] += 1
                    continue
                out["fork_dispatches"] += 1
                for rec in sink[n0:]:
                    if rec["rejected"]:
                        out["rejections"] += 1
                        k2 = f"{rec['cls']}.{rec.get('method')}"
                        slot = out["by_class"].setdefault(k2, {"rejections": 0, "listened": 0})
                        slot["rejections"] += 1
                        if rec.get("listened"):
                            slot["listened"] += 1
                            out["listened_rejections"] += 1
                        for p in rec.get("problems", []):
                            if len(out["failing"]) < 6:
                                out["failing"].append({"component_class": rec["cls"], "component": rec["name"],
                                                       "method": rec.get("method"), "kind": p["kind"], "job": job,
                                                       "action": rec["action"], "detail": p, "forked_from_clock": pl.clock,
                                                       "plan": [command_text(x) for x in cmds]})
    # time-advance forks: from reached checkpoints let a long time pass in ONE elapse step (buffs and periodics run out
    # while longer cooldowns are still running), then press every skill once, each on its own copy of that store:
    # the states in which a rejection is most likely to meet leftovers of an earlier cast
    from simaple.simulate.base import Checkpoint
    out["advance_dispatches"] = 0
    router = eng._router
    for pl in picks[:: max(1, len(picks) // 4)]:
        for T in (15_000.0, 45_000.0, 100_000.0):
            try:
                adv = pl.checkpoint.restore()
                router({"name": "*", "method": "elapse", "payload": T}, adv)
                ck_adv = Checkpoint.create(adv)
            except Exception:
                out["fork_errors"] += 1
                continue
            for prx in proxies:
                if f"{prx._base._name}.use" not in prx._base.reducer_mappings:
                    continue
                store = ck_adv.restore()
                n0 = len(sink)
                try:
                    prx({"name": prx._base._name, "method": "use", "payload": None}, store)
                except Exception:
                    out["fork_errors"] += 1
                    continue
                out["advance_dispatches"] += 1
                for rec in sink[n0:]:
                    if rec["rejected"]:
                        out["rejections"] += 1
                        k2 = f"{rec['cls']}.{rec.get('method')}"
                        slot = out["by_class"].setdefault(k2, {"rejections": 0, "listened": 0})
                        slot["rejections"] += 1
                        for p in rec.get("problems", []):
                            if len(out["failing"]) < 6:
                                out["failing"].append({"component_class": rec["cls"], "component": rec["name"],
                                                       "method": rec.get("method"), "kind": p["kind"], "job": job,
                                                       "action": rec["action"], "detail": p, "forked_from_clock": pl.clock,
                                                       "then_elapsed_ms": T, "plan": [command_text(x) for x in cmds]})
    # correspondence material for the L3 model: tagging and mapping of the real dispatchers
    bases = [complib.base_of(getattr(d, "_inner", d)) for d in eng._router._dispatchers]
    bases = [b for b in bases if b is not None]
    for b in rng.sample(bases, min(6, len(bases))):
        keys = list(b.reducer_mappings.keys())
        if not keys:
            continue
        targets = [rng.choice(keys) for _ in range(3)] + [f"{b._name}.use", "*.elapse", f"{b._name}.nosuch",
                                                          "other.use.emitted.global.delay", keys[-1] + ".x"]
        out["map_reqs"].append(({"fn": "find_mapping", "keys": keys, "targets": targets},
                                [b._find_mapping_name(t) for t in targets]))
        evs = []
        for _ in range(rng.randint(0, 4)):
            evs.append({"name": b._name, "payload": {"time": 1.0} if rng.random() < 0.5 else {},
                        "method": "", "handler": None,
                        "tag": rng.choice([Tag.REJECT, Tag.DAMAGE, Tag.DELAY, None, Tag.ACCEPT, Tag.ELAPSED])})
        m = rng.choice(["use", "elapse", "trigger"])
        real = b.tag_events_by_method_name(m, evs)
        enc = lambda e: {"name": e["name"], "method": e["method"], "tag": e.get("tag") or "",
                         "handler": e.get("handler") or "", "payload": simlib.canon(e["payload"])}
        out["tag_reqs"].append(({"fn": "tag_events", "comp": b._name, "method": m, "events": [enc(e) for e in evs]},
                                [enc(e) for e in real]))
        names = list(b._store_adapter._get_bound_names().items())
        out["map_reqs"].append(({"fn": "bound_addrs", "comp": b._name, "defaults": list(b._default_state.keys()),
                                 "binds": [[k, v] for k, v in b._store_adapter._binds.items()]},
                                {"names": [[k, v] for k, v in names],
                                 "addrs": [eng._history.current_store().local(b._name)._resolve_address(v) for _k, v in names]}))
    return out


def main(ck: Check):
    quick = ck.tier == "quick"
    variants = [0] if quick else [0, 1, 2]
    plans_per = 3 if quick else 24
    length = (25, 40) if quick else (60, 120)
    rng = ck.rng
    work = [(job, v, pi, ck.seed, rng.randint(*length)) for job in JOBS for v in variants for pi in range(plans_per)]
    tot = {"dispatches": 0, "rejections": 0, "listened_rejections": 0, "fork_dispatches": 0, "fork_errors": 0, "synthetic": 0,
           "advance_dispatches": 0}
    by_class: dict[str, dict] = {}
    samples, reqs, expect = [], [], []
    mstats: dict = {}
    for args, out in pmap(unit, work, ck.budget_s * 0.7):
        if args is None:
            ck.notes.append(f"budget reached: {out}")
            if out["done"] < max(4, out["total"] // 2):
                raise TimeoutError(f"only {out['done']}/{out['total']} units finished within the budget")
            continue
        for k in tot:
            tot[k] += out[k]
        for k, v in out["by_class"].items():
            slot = by_class.setdefault(k, {"rejections": 0, "listened": 0})
            slot["rejections"] += v["rejections"]
            slot["listened"] += v["listened"]
        for f in out["failing"]:
            ck.add_failing(f)
        if len(samples) < 3:
            samples.append(out["sample"])
        for rq, ex in out["tag_reqs"][:3] + out["map_reqs"][:6] + out["comp_reqs"]:
            reqs.append(rq)
            expect.append(ex)
        complib.merge_stats(mstats, out["mstats"])

    with ck.locked():
        proved = ck.prove("Simaple.Props.C07")
        if not quick and proved:
            ck.leanchecker(["Simaple.Props.C07"])
        res = ck.driver(reqs, timeout=600)
    disagreements = 0
    if res is not None:
        for r, ex, rq in zip(res, expect, reqs):
            if r.get("ok") != ex:
                disagreements += 1
                if disagreements <= 3:
                    ck.broken.append({"kind": "correspondence", "point": f"model ({rq['fn']}) vs simaple.simulate.component",
                                      "request": rq, "model": r, "implementation": ex})
    ck.coverage.update({
        "evaluations": tot["dispatches"],
        "distinct_nontrivial": len(by_class),
        "rule": "all 8 jobs x environment variants x seeded plans biased to rejections (immediate re-USE, triggers while "
                "unavailable, KEYDOWNSTOP when idle); a proxy around every installed dispatcher snapshots the whole store "
                "(object identity of every entity + deep dump of the entities bound to the component) before/after each "
                "dispatch and checks every answer containing a rejection: exactly one event, and no entity changed. "
                "evaluations = dispatcher calls observed; distinct_nontrivial = distinct (component class, reducer) pairs "
                "that answered a rejection",
        "samples": samples,
        **tot,
        "rejections_by_class_and_reducer": by_class,
        "model_requests": len(reqs),
        "model_disagreements": disagreements,
        "model_coverage": mstats,
    })
    ck.assumptions += ["per-class reducer theorems cover the modelled component classes only; unmodelled classes are covered "
                       "by the dispatcher proxy (exploration) — see coverage.modelled_classes"]
    ck.finish("proof",
              trusted_base=["Lean 4.33 kernel", "axioms ⊆ {propext, Classical.choice, Quot.sound}",
                            "hand-written dispatcher model (Simaple/Model/Dispatch.lean) tied to component/base.py by the "
                            "tagging / mapping / bound-address correspondence"],
              checker_cmd="cd lean && lake build Simaple.Props.C07 && lake env lean Simaple/Audit/C07.lean")


if __name__ == "__main__":
    run_check("C07", main)
