"""C08: the answer of a reducer / view is a function of (component description, payload, state) -- not of which other
calls were made before it in the process.

Run as a program: reads a JSON list of portable calls from stdin, evaluates them IN THE GIVEN ORDER in this new
interpreter and prints one canonical answer string per call.  Calls with the same component description share ONE
component object (as the calls of one engine do), so state a component keeps outside its declared fields carries over
from call to call; state kept at module or class level carries over between all calls.  check_C08 runs the same list
in two new interpreters, in opposite orders, and compares answer by answer."""
import importlib
import json
import sys


def _cls(path):
    mod, qual = path
    obj = importlib.import_module(mod)
    for part in qual.split("."):
        obj = getattr(obj, part)
    return obj


def evaluate(items: list) -> list:
    import complib
    owners: dict = {}
    out = []
    for it in items:
        try:
            key = json.dumps([it["cls"], it["owner"]], sort_keys=True, ensure_ascii=False)
            if key not in owners:
                owners[key] = _cls(it["cls"]).model_validate(it["owner"])
            owner = owners[key]
            args = []
            for a in it["args"]:
                args.append(_cls(a["state"]).model_validate(a["dump"]) if "state" in a else a["json"])
            res = getattr(owner, it["method"])(*args)
            if isinstance(res, tuple):
                res = [complib.dump_arg(x) if not isinstance(x, (list, type(None))) else x for x in res]
            elif hasattr(res, "model_dump"):
                res = complib.dump_arg(res)
            out.append(complib.canon_safe(res))
        except Exception as e:  # noqa: BLE001 -- the exception type is the observation
            out.append(f"raised:{type(e).__name__}")
    return out


if __name__ == "__main__":
    print(json.dumps(evaluate(json.load(sys.stdin))))
