"""C09 -- letting time pass in one step or in several gives the same ticks and status.

(0) proofs: Simaple.Props.C09 (entity level, all splits, all states satisfying the stated invariants);
(a) correspondence: every modelled entity method (Simaple/Model/Entity.lean through the driver) against the
    real pydantic entity on seeded states/arguments on the 2^-10 ms grid, boundary values included, exact;
(b) the property itself on the REAL code: for reachable states harvested from real runs of all 8 jobs, every
    installed component's own dispatcher is called on two restored copies of one checkpoint -- elapse(a+b)
    against elapse(a); elapse(b) (and 3-5-way splits) -- and the damage/DOT ticks (summed hits per
    (name, tag, damage, modifier)) and the component's own views afterwards are compared.
"""
from __future__ import annotations

import copy
import json
import random
from fractions import Fraction

from vlib import Check, run_check, pmap
import simlib
from simlib import JOBS, canon, command_text, make_engine, random_plan

U = 2.0 ** -10            # one grid unit in ms
UNITS = 1024


# ---------------------------------------------------------------------------------------------- grid helpers
def snap(x):
    if isinstance(x, bool) or not isinstance(x, (int, float)):
        return x
    return round(float(x) * UNITS) / UNITS


def units(x) -> str:
    """a time on the grid -> integer number of units, as the driver's string"""
    v = Fraction(x) * UNITS
    if v.denominator != 1:
        raise ValueError(f"{x!r} is not on the 2^-10 ms grid")
    return str(v.numerator)


def frac(x) -> str:
    fr = Fraction(x)
    return f"{fr.numerator}/{fr.denominator}"


TIME_FIELDS = {"time_left", "interval", "interval_counter", "initial_counter", "period_time_left", "period",
               "cooldown_duration", "duration", "assigned_duration", "last_force_triggered",
               "force_trigger_interval", "field_interval", "field_duration", "maximum_time_left",
               "count_interval_penalty", "current_time"}


def snap_payload(p):
    """snap every time value of an entity payload (model_dump form) to the grid; damages, probabilities,
    counts are left alone"""
    if isinstance(p, dict):
        out = {}
        for k, v in p.items():
            if k in TIME_FIELDS and isinstance(v, (int, float)) and not isinstance(v, bool):
                out[k] = snap(v)
            elif k == "current" and isinstance(v, dict):          # DOT: name -> (damage, lasting)
                out[k] = {n: [e[0], snap(e[1])] for n, e in v.items()}
            elif k == "running_swords":                            # OrderSword: [(counter, time_left)]
                out[k] = [[snap(c), snap(t)] for c, t in v]
            elif k == "intervals":
                out[k] = [snap(x) for x in v]
            elif k == "field_periodics":
                out[k] = [snap_payload(x) for x in v]
            else:
                out[k] = v
        return out
    return p


def time_values(p, acc):
    if isinstance(p, dict):
        for k, v in p.items():
            if k in TIME_FIELDS and isinstance(v, (int, float)) and not isinstance(v, bool):
                acc.add(float(v))
            elif k == "current" and isinstance(v, dict):
                for e in v.values():
                    acc.add(float(e[1]))
            elif k == "running_swords":
                for c, t in v:
                    acc.add(float(c)); acc.add(float(t))
            elif k == "intervals":
                for x in v:
                    acc.add(float(x))
            elif k == "field_periodics":
                for x in v:
                    time_values(x, acc)
    return acc


# ---------------------------------------------------------------------------------------------- (b) real code
_ENG: dict = {}


def engine_parts(job, variant):
    """per process: the dispatchers and views of one engine, and component name -> class name"""
    key = (job, variant)
    if key not in _ENG:
        eng = make_engine(job, variant)
        skills, _ = simlib._SKILL_CACHE[(job, variant, canon({}))]
        cls_of = {c.name: type(c).__name__ for c in skills}
        comps = {}
        for d in eng._router._dispatchers:
            b = getattr(d, "_base_dispatcher", None)
            if b is None or not hasattr(b, "reducer_mappings"):
                continue
            name = b._name
            if f"{name}.elapse" not in b.reducer_mappings:
                continue
            views = {}
            for vn in ("validity", "running", "buff", "keydown"):
                v = eng._viewset._views.get(f"{name}.{vn}")
                if v is not None:
                    views[vn] = v
            binds = dict(b._store_adapter._get_bound_names())
            comps[name] = (b, views, binds, cls_of.get(name, "?"))
        _ENG[key] = comps
    return _ENG[key]


def tick_table(events) -> dict:
    from simaple.simulate.reserved_names import Tag
    out: dict = {}
    for e in events:
        if e.get("tag") not in (Tag.DAMAGE, Tag.DOT):
            continue
        p = e["payload"]
        k = canon([e["name"], e["tag"], frac(p["damage"]), p.get("modifier")])
        out[k] = out.get(k, Fraction(0)) + Fraction(p["hit"])
    return {k: frac(v) for k, v in out.items() if v != 0}


def dump_view(v):
    if hasattr(v, "model_dump"):
        return v.model_dump()
    if isinstance(v, (list, tuple)):
        return [dump_view(x) for x in v]
    return v


def run_pieces(b, views, name, ckpt, pieces):
    from simaple.simulate.base import Checkpoint
    store = Checkpoint(store_ckpt=copy.deepcopy(ckpt)).restore()
    events = []
    for t in pieces:
        events += b({"name": name, "method": "elapse", "payload": float(t)}, store)
    # "stacks" are part of the visible status also where no view of the skill shows them (they decide what its next
    # reducers do): the stack counters among the skill's own entities
    stacks = {k: ent["payload"]["stack"] for k, ent in store.save().items()
              if k.startswith("." + name + ".") and isinstance(ent.get("payload"), dict) and "stack" in ent["payload"]}
    return {"ticks": tick_table(events), "views": {vn: dump_view(v(store)) for vn, v in views.items()}, "stacks": stacks}


def outcome(b, views, name, ckpt, pieces):
    try:
        return run_pieces(b, views, name, ckpt, pieces)
    except Exception as e:  # an exception on one side only is a difference too
        return {"exception": f"{type(e).__name__}: {e}"[:200]}


def chunk_case(b, views, name, ckpt, pieces):
    """None if the split is invisible, else both outcomes"""
    total = sum(pieces)
    once = outcome(b, views, name, ckpt, [total])
    split = outcome(b, views, name, ckpt, pieces)
    if once == split:
        return None
    return {"once": once, "split": split}


BASE_TIMES = [U, 1.0, 1000.0, 3000.0, 10000.0, 60000.0, 120000.0]


def candidate_times(vals, rng):
    cands = set()
    for v in vals:
        for d in (0.0, U, -U, 1.0, -1.0):
            x = v + d
            if 0 < x <= 600000.0:
                cands.add(x)
    cands = sorted(cands)
    if len(cands) > 40:
        cands = rng.sample(cands, 40)
    return cands


def make_splits(vals, rng, n_pairs, n_multi):
    cands = candidate_times(vals, rng)
    pool = cands + BASE_TIMES
    pairs = set()
    for v in cands:
        w = rng.choice(pool)
        pairs.add((v, w))
        pairs.add((w, v))
    for v in BASE_TIMES:
        pairs.add((v, rng.choice(pool)))
        pairs.add((rng.choice(pool), v))
    # a boundary inside a boundary: the total is a timer value of the state (or one more base step), and so is
    # the first piece
    srt = sorted(set(pool))
    for total in cands + [c + x for c in cands[:12] for x in (1000.0, 3000.0)]:
        smaller = [a for a in srt if a < total]
        for a in (rng.sample(smaller, 3) if len(smaller) > 3 else smaller):
            pairs.add((a, total - a))
    pairs = sorted(pairs)
    if len(pairs) > n_pairs:
        pairs = rng.sample(pairs, n_pairs)
    out = [list(p) for p in pairs]
    for _ in range(n_multi):
        k = rng.randint(3, 5)
        out.append([rng.choice(pool) if rng.random() < 0.6 else rng.randint(1, 4_000_000) * U for _ in range(k)])
    return out


SIMPLE_ENTITIES = {"Cooldown", "Lasting"}


def rotation_plan(rng, job, variant, rounds):
    """a busy rotation: every round casts a random subset of the skills the validity view lists as usable
    (and sometimes stops a key-down), then lets some time pass -- reaches the states short random plans rarely
    reach (gauges filled, stacks built, many periodics running at once)"""
    eng = make_engine(job, variant)
    cmds = []

    def do(c):
        cmds.append(c)
        eng.exec(c)
    for _ in range(rounds):
        viewer = eng.get_current_viewer()
        valid = [v.name for v in viewer("validity") if v.valid]
        rng.shuffle(valid)
        for name in valid[: max(1, int(len(valid) * rng.choice([0.3, 0.6, 1.0])))]:
            do(simlib.op(rng.choice(["CAST", "CAST", "USE"]), name))
            if rng.random() < 0.15:
                do(simlib.op("ELAPSE", time=rng.choice([30.0, 100.0, 250.0, 0.5, 780.0])))
        for k in [k.name for k in eng.get_current_viewer()("keydown") if k.running]:
            if rng.random() < 0.5:
                do(simlib.op("KEYDOWNSTOP", k))
        do(simlib.op("ELAPSE", time=rng.choice([500.0, 1000.0, 2000.0, 3000.0, 5000.0, 8000.0, 333.25])))
    return cmds, eng


def explore_unit(job, variant, pi, seed, tier):
    rng = random.Random(f"C09:{seed}:{job}:{variant}:{pi}")
    quick = tier == "quick"
    comps = engine_parts(job, variant)
    if pi % 2 == 0:
        n = rng.randint(20, 30) if quick else rng.randint(30, 60)
        cmds = random_plan(rng, job, variant, n, with_console=False, max_elapse=8000.0)
        eng = make_engine(job, variant)
        for c in cmds:
            eng.exec(c)
    else:
        cmds, eng = rotation_plan(rng, job, variant, rng.randint(5, 8) if quick else rng.randint(8, 16))
    ckpts, seen = [], set()
    for log in eng.operation_logs():
        for pl in log.playlogs:
            d = pl.checkpoint.store_ckpt
            k = canon(d)
            if k not in seen:
                seen.add(k)
                ckpts.append(d)
    max_ck = 10 if quick else 40
    if len(ckpts) > max_ck:
        ckpts = [ckpts[0]] + rng.sample(ckpts[1:], max_ck - 1)
    out = {"evaluations": 0, "states": 0, "failing": [], "by_class": {}, "nontrivial": 0, "samples": [],
           "skipped": 0, "multi": 0, "entity_classes": {}}
    done_states = set()
    for d in ckpts:
        for name, (b, views, binds, ccls) in comps.items():
            prefix = f".{name}."
            own = {k: v for k, v in d.items() if k.startswith(prefix)}
            bound = {a: d[a] for a in binds.values() if a in d}
            part = dict(own)
            part.update(bound)
            part.update({k: v for k, v in d.items() if k.startswith("global.")})
            skey = canon([job, variant, name, {k: v for k, v in part.items() if k != "global.time"}])
            if skey in done_states:
                continue
            done_states.add(skey)
            reduced = {k: {"cls": v["cls"], "payload": snap_payload(v["payload"])} for k, v in part.items()}
            vals = set()
            for k, v in reduced.items():
                if k.startswith(prefix) or (k in bound and not k.startswith("global.")):
                    time_values(v["payload"], vals)
            classes = {v["cls"] for v in own.values()}
            for c in classes:
                out["entity_classes"][c] = out["entity_classes"].get(c, 0) + 1
            simple = classes <= SIMPLE_ENTITIES
            if quick:
                n_pairs, n_multi = (3, 1) if simple else (24, 3)
            else:
                n_pairs, n_multi = (6, 1) if simple else (70, 8)
            splits = make_splits(vals, rng, n_pairs, n_multi)
            out["states"] += 1
            st = out["by_class"].setdefault(ccls, {"states": 0, "splits": 0, "with_ticks": 0, "failing": 0})
            st["states"] += 1
            reported = False
            for pieces in splits:
                out["evaluations"] += 1
                st["splits"] += 1
                if len(pieces) > 2:
                    out["multi"] += 1
                total = sum(pieces)
                try:
                    once = run_pieces(b, views, name, reduced, [total])
                except Exception as e:
                    once = {"exception": f"{type(e).__name__}: {e}"[:200]}
                split = outcome(b, views, name, reduced, pieces)
                if once.get("ticks"):
                    st["with_ticks"] += 1
                    out["nontrivial"] += 1
                if once == split:
                    continue
                st["failing"] += 1
                if reported:
                    continue
                reported = True
                # the smallest failing two-way split of this state, if one is among the candidates
                best = pieces
                for alt in sorted((p for p in splits if len(p) == 2), key=sum):
                    if sum(alt) < sum(best) or len(best) > 2:
                        if chunk_case(b, views, name, reduced, alt) is not None:
                            best = alt
                            break
                diff = chunk_case(b, views, name, reduced, best) or {"once": once, "split": split}
                out["failing"].append({
                    "component_class": ccls, "method": "elapse", "kind": "chunk-dependent",
                    "job": job, "variant": variant, "component": name,
                    "split_ms": best, "total_ms": sum(best),
                    "state": {k: v for k, v in reduced.items() if k.startswith(prefix) or k in bound},
                    "once": diff["once"], "in_pieces": diff["split"],
                    "plan": [command_text(c) for c in cmds][:60]})
            if len(out["samples"]) < 2 and not simple:
                out["samples"].append({"job": job, "component": name, "class": ccls,
                                       "state": {k: v["payload"] for k, v in reduced.items() if k.startswith(prefix)},
                                       "splits": splits[:3]})
    return out


def replay_failing(item):
    comps = engine_parts(item["job"], item["variant"])
    b, views, binds, ccls = comps[item["component"]]
    ckpt = dict(item["state"])
    eng = make_engine(item["job"], item["variant"])
    base = list(eng.operation_logs())[0].playlogs[0].checkpoint.store_ckpt
    for k, v in base.items():
        if k.startswith("global.") and k not in ckpt:
            ckpt[k] = v
    return chunk_case(b, views, item["component"], ckpt, item["split_ms"])


# ---------------------------------------------------------------------------------------------- (a) model vs entity
def t_choices(rng, special=()):
    """a time on the grid: boundary values around 0 and around the given special values, or random"""
    r = rng.random()
    pool = [0.0, U, -U, 1.0, 2 * U]
    for s in special:
        pool += [s, s + U, s - U, s + 1.0, s - 1.0, 2 * s, 2 * s + U, 3 * s]
    if r < 0.45:
        return snap(rng.choice(pool))
    if r < 0.75:
        return float(rng.randint(0, 30000))
    if r < 0.9:
        return rng.randint(0, 40_000_000) * U
    if r < 0.95:
        return float(rng.randint(60_000, 600_000))
    return -rng.randint(0, 5_000_000) * U


def pos_time(rng, special=()):
    for _ in range(100):
        x = t_choices(rng, special)
        if x > 0:
            return x
    return 1000.0


def nonneg_time(rng, special=()):
    x = t_choices(rng, special)
    return x if x >= 0 else -x


class Case:
    """one modelled method call: how to build the real entity, the request for the driver, and how to
    express the real outcome in the driver's vocabulary"""

    def __init__(self, cls, method, state, args, real, req_state, req_args):
        self.cls, self.method, self.state, self.args = cls, method, state, args
        self.real = real
        self.req = {"fn": "entity", "cls": cls, "method": method, "state": req_state, "args": req_args}


def enc_periodic(p: dict) -> dict:
    return {"interval": units(p["interval"]),
            "initial_counter": None if p.get("initial_counter") is None else units(p["initial_counter"]),
            "interval_counter": units(p["interval_counter"]), "time_left": units(p["time_left"]),
            "count": str(p["count"])}


def enc_state(cls: str, p: dict) -> dict:
    T = lambda k: units(p[k])
    I = lambda k: str(int(p[k]))
    if cls == "Lasting":
        return {"time_left": T("time_left"), "assigned_duration": T("assigned_duration")}
    if cls == "RestoreLasting":
        return {"time_left": T("time_left"), "assigned_duration": T("assigned_duration"),
                "ether_multiplier": frac(p["ether_multiplier"])}
    if cls in ("Cooldown",):
        return {"time_left": T("time_left")}
    if cls == "Consumable":
        return {"maximum_stack": I("maximum_stack"), "stack": I("stack"), "cooldown_duration": T("cooldown_duration"),
                "time_left": T("time_left")}
    if cls == "Cycle":
        return {"tick": I("tick"), "period": I("period")}
    if cls == "Periodic":
        return enc_periodic(p)
    if cls == "Stack":
        return {"stack": I("stack"), "maximum_stack": I("maximum_stack")}
    if cls == "EtherGauge":
        return {"stack": I("stack"), "maximum_stack": I("maximum_stack"), "creation_step": I("creation_step"),
                "order_consume": I("order_consume")}
    if cls == "Integer":
        return {"value": I("value")}
    if cls == "LastingStack":
        return {"stack": I("stack"), "maximum_stack": I("maximum_stack"), "duration": T("duration"),
                "time_left": T("time_left")}
    if cls == "Keydown":
        return {"interval": T("interval"), "interval_counter": T("interval_counter"), "time_left": T("time_left")}
    if cls == "DOT":
        return {"current": [[n, frac(e[0]), units(e[1])] for n, e in p["current"].items()],
                "period_time_left": T("period_time_left"), "period": T("period")}
    if cls == "ProgrammedPeriodic":
        return {"interval_counter": T("interval_counter"), "intervals": [units(x) for x in p["intervals"]],
                "time_left": T("time_left"), "count": I("count")}
    if cls == "DynamicIntervalPeriodic":
        return {"interval_counter": T("interval_counter"), "interval": T("interval"), "time_left": T("time_left"),
                "count": I("count"), "count_interval_penalty": T("count_interval_penalty"), "max_count": I("max_count")}
    if cls == "OrderSword":
        return {"running_swords": [[units(c), units(t)] for c, t in p["running_swords"]], "interval": T("interval")}
    if cls == "CurrentField":
        return {"field_periodics": [enc_periodic(x) for x in p["field_periodics"]],
                "field_interval": T("field_interval"), "field_duration": T("field_duration"),
                "max_count": I("max_count"), "last_force_triggered": T("last_force_triggered"),
                "force_trigger_interval": T("force_trigger_interval"),
                "stable_rng_counter": frac(p["stable_rng_counter"])}
    if cls == "PoisonNovaEntity":
        return {"time_left": T("time_left"), "maximum_time_left": T("maximum_time_left")}
    if cls == "FerventDrainStack":
        return {"count": I("count"), "max_count": I("max_count")}
    if cls == "DivineMark":
        a = p.get("advantage")
        return {"advantage": None if a is None else "S:" + canon(a)}
    if cls == "RobotMastery":
        return {"summon_increment": frac(p["summon_increment"]),
                "robot_damage_increment": frac(p["robot_damage_increment"])}
    if cls == "Clock":
        return {"current_time": T("current_time")}
    raise KeyError(cls)


def entity_classes():
    from simaple.simulate.component import entity as E
    from simaple.simulate.component.common.mob import DOT
    from simaple.simulate.component.specific.adele import EtherGauge, OrderSword, RestoreLasting
    from simaple.simulate.component.specific.archmagefb import FerventDrainStack, PoisonNovaEntity
    from simaple.simulate.component.specific.archmagetc import CurrentField
    from simaple.simulate.component.specific.bishop import DivineMark
    from simaple.simulate.component.specific.common_v import ProgrammedPeriodic
    from simaple.simulate.component.specific.mechanic import DynamicIntervalPeriodic, RobotMastery
    from simaple.simulate.global_property import Clock
    return {"Lasting": E.Lasting, "Cooldown": E.Cooldown, "Consumable": E.Consumable, "Cycle": E.Cycle,
            "Periodic": E.Periodic, "Stack": E.Stack, "Integer": E.Integer, "LastingStack": E.LastingStack,
            "Keydown": E.Keydown, "DOT": DOT, "EtherGauge": EtherGauge, "OrderSword": OrderSword,
            "RestoreLasting": RestoreLasting, "FerventDrainStack": FerventDrainStack,
            "PoisonNovaEntity": PoisonNovaEntity, "CurrentField": CurrentField, "DivineMark": DivineMark,
            "ProgrammedPeriodic": ProgrammedPeriodic, "DynamicIntervalPeriodic": DynamicIntervalPeriodic,
            "RobotMastery": RobotMastery, "Clock": Clock}


def rand_periodic(rng, running=None):
    interval = pos_time(rng, (300.0, 1000.0))
    ic = rng.choice([None, None, pos_time(rng, (interval,))])
    counter = pos_time(rng, (interval,)) if rng.random() < 0.7 else interval
    tl = pos_time(rng, (interval, counter)) if (running if running is not None else rng.random() < 0.8) \
        else rng.choice([0.0, -U, -1000.0])
    return {"interval": interval, "initial_counter": ic, "interval_counter": counter, "time_left": tl,
            "count": rng.randint(0, 5)}


def gen_state(cls, rng):
    if cls == "Lasting":
        return {"time_left": t_choices(rng, (1000.0,)), "assigned_duration": nonneg_time(rng, (1000.0,))}
    if cls == "RestoreLasting":
        return {"time_left": t_choices(rng, (1000.0,)), "assigned_duration": nonneg_time(rng, (1000.0,)),
                "ether_multiplier": rng.choice([0.0, 25.0, 50.0, 75.0, 100.0, 150.0])}
    if cls == "Cooldown":
        return {"time_left": t_choices(rng, (1000.0,))}
    if cls == "Consumable":
        cd = pos_time(rng, (1000.0,))
        mx = rng.randint(0, 5)
        return {"maximum_stack": mx, "stack": rng.randint(-1, mx + 1), "cooldown_duration": cd,
                "time_left": t_choices(rng, (cd,))}
    if cls == "Cycle":
        return {"tick": rng.randint(-3, 9), "period": rng.choice([0, 1, 2, 3, 5, -2, -3, 7])}
    if cls == "Periodic":
        return rand_periodic(rng)
    if cls == "Stack":
        return {"stack": rng.randint(-2, 8), "maximum_stack": rng.randint(0, 6)}
    if cls == "EtherGauge":
        return {"stack": rng.randint(-50, 450), "maximum_stack": rng.choice([400, 100]),
                "creation_step": rng.choice([100, 100, 30, 0, -40]), "order_consume": rng.choice([100, 0, 50])}
    if cls == "Integer":
        return {"value": rng.randint(-5, 50)}
    if cls == "LastingStack":
        d = pos_time(rng, (1000.0,))
        return {"stack": rng.randint(-1, 6), "maximum_stack": rng.randint(0, 5), "duration": d,
                "time_left": t_choices(rng, (d,))}
    if cls == "Keydown":
        iv = pos_time(rng, (300.0,))
        c = nonneg_time(rng, (iv,))
        tl = t_choices(rng, (iv, c))
        r = rng.random()
        if r < 0.2:     # the "over" states the tick loop can leave behind: time_left < counter <= 0
            c = -nonneg_time(rng, (iv,))
            tl = c - pos_time(rng)
        elif r < 0.3:   # a negative counter on a running key-down (outside `Inv`; the model still follows the code)
            c = -nonneg_time(rng, (iv,))
        return {"interval": iv, "interval_counter": c, "time_left": tl}
    if cls == "DOT":
        cur = {}
        for n in rng.sample(["a", "b", "c", "d", "독"], rng.randint(0, 4)):
            cur[n] = (rng.choice([5.0, 7.5, 0.1, 123.456, 5.0]), t_choices(rng, (1000.0, 3000.0)))
        period = pos_time(rng, (1000.0,)) if rng.random() < 0.3 else 1000.0
        return {"current": cur, "period_time_left": pos_time(rng, (period,)), "period": period}
    if cls == "ProgrammedPeriodic":
        ivs = [pos_time(rng, (300.0,)) for _ in range(rng.randint(1, 4))]
        return {"interval_counter": t_choices(rng, tuple(ivs[:2])), "intervals": ivs,
                "time_left": t_choices(rng, (sum(ivs),)), "count": rng.randint(0, 7)}
    if cls == "DynamicIntervalPeriodic":
        iv = pos_time(rng, (300.0,))
        pen = nonneg_time(rng, (120.0,))
        tl = t_choices(rng, (iv, 1000.0))
        c = t_choices(rng, (iv,))
        if tl < 0 and c <= 0 and rng.random() < 0.7:   # mostly inside `Inv`; the model follows the code outside too
            c = pos_time(rng, (iv,))
        mx = rng.randint(0, 8)
        return {"interval_counter": c, "interval": iv, "time_left": tl, "count": rng.randint(0, mx),
                "count_interval_penalty": pen, "max_count": mx}
    if cls == "OrderSword":
        iv = pos_time(rng, (1020.0,)) if rng.random() < 0.9 else -pos_time(rng, (1020.0,))
        sw = [(t_choices(rng, (abs(iv),)), t_choices(rng, (abs(iv), 2.5 * abs(iv), 40000.0)))
              for _ in range(rng.randint(0, 5))]
        return {"running_swords": sw, "interval": iv}
    if cls == "CurrentField":
        fi = pos_time(rng, (300.0,)) if rng.random() < 0.9 else rng.choice([0.0, -1.0])
        fd = pos_time(rng, (fi, 4000.0)) if rng.random() < 0.9 else rng.choice([0.0, -1.0])
        return {"field_periodics": [rand_periodic(rng, running=True) for _ in range(rng.randint(0, 4))],
                "field_interval": fi, "field_duration": fd, "max_count": rng.choice([3, 1, 2, 0, -1, 5]),
                "last_force_triggered": nonneg_time(rng, (5000.0,)), "force_trigger_interval": rng.choice([5000.0, 0.0, 1000.0]),
                "stable_rng_counter": rng.choice([0.0, 0.25, 0.5, 0.75, 0.875])}
    if cls == "PoisonNovaEntity":
        m = pos_time(rng, (4000.0,))
        return {"time_left": t_choices(rng, (m,)), "maximum_time_left": m}
    if cls == "FerventDrainStack":
        return {"count": rng.randint(-1, 7), "max_count": rng.randint(0, 6)}
    if cls == "DivineMark":
        return {"advantage": None if rng.random() < 0.4 else
                {"final_damage_multiplier": float(rng.randint(0, 30)), "damage_multiplier": float(rng.randint(0, 50))}}
    if cls == "RobotMastery":
        return {"summon_increment": rng.choice([0.0, 25.0, 50.0, 100.0]), "robot_damage_increment": float(rng.randint(0, 90))}
    if cls == "Clock":
        return {"current_time": nonneg_time(rng, (1000.0,))}
    raise KeyError(cls)


METHODS = {
    "Lasting": ["enabled", "elapse", "set_time_left", "get_elapsed_time"],
    "RestoreLasting": ["enabled", "elapse", "set_time_left", "get_elapsed_time", "get_gain_rate"],
    "Cooldown": ["available", "elapse", "set_time_left", "minimum_time_to_available", "reduce_by_rate", "reduce_by_value"],
    "Consumable": ["available", "elapse", "get_stack", "consume"],
    "Cycle": ["step", "get_tick", "clear"],
    "Periodic": ["set_time_left_without_delay", "set_time_left", "set_interval_counter", "enabled", "elapse",
                 "resolve_step", "disable"],
    "Stack": ["reset", "increase", "is_full", "get_stack", "decrease"],
    "EtherGauge": ["reset", "increase", "is_full", "get_stack", "decrease", "get_creation_count", "is_order_valid",
                   "decrease_order"],
    "Integer": ["get_value", "set_value"],
    "LastingStack": ["reset", "enabled", "increase", "get_stack", "decrease", "elapse", "is_maximum", "regulate"],
    "Keydown": ["running", "get_next_delay", "start", "stop", "resolving"],
    "DOT": ["new", "elapse", "step"],
    "ProgrammedPeriodic": ["set_time_left", "enabled", "resolving", "disable"],
    "DynamicIntervalPeriodic": ["set_time_left", "enabled", "resolving", "disable"],
    "OrderSword": ["get_time_left", "enabled", "get_sword_count", "add_running", "resolving"],
    "CurrentField": ["stack_rng", "create_new_current", "elapse"],
    "PoisonNovaEntity": ["create_nova", "try_trigger_nova", "elapse"],
    "FerventDrainStack": ["set_max_count", "get_count", "set_count", "get_buff"],
    "DivineMark": ["mark", "consume_mark"],
    "RobotMastery": ["get_summon_multiplier", "get_robot_modifier"],
    "Clock": ["spent"],
}

GENERATORS = {("Keydown", "resolving"), ("ProgrammedPeriodic", "resolving"), ("DynamicIntervalPeriodic", "resolving"),
              ("OrderSword", "resolving")}
PROPERTIES = {("Cooldown", "available"), ("Consumable", "available"), ("Keydown", "running")}


def specials_of(state):
    acc = set()
    time_values(state, acc)
    return tuple(sorted(x for x in acc if 0 < x < 1e6))[:6]


def gen_args(cls, m, state, rng):
    """python arguments, driver arguments"""
    sp = specials_of(state)
    if m in ("elapse", "resolving", "reduce_by_value", "spent", "step") and cls != "Cycle":
        t = nonneg_time(rng, sp)
        if cls == "OrderSword":
            mx = rng.choice([6, 8, 0, 2, 4, 10])
            return [t, mx], [units(t), str(mx)]
        return [t], [units(t)]
    if m == "resolve_step":
        t = pos_time(rng, sp)
        return [t], [units(t)]
    if m in ("set_time_left", "set_time_left_without_delay", "set_interval_counter", "create_nova"):
        t = t_choices(rng, sp)
        if cls == "DynamicIntervalPeriodic":
            c = rng.randint(0, 6)
            return [t, c], [units(t), str(c)]
        return [t], [units(t)]
    if m == "reduce_by_rate":
        r = rng.choice([0.0, 0.5, 0.25, 1.0, 0.125, 0.75])
        return [r], [frac(r)]
    if m in ("reset", "increase", "decrease") and cls in ("Stack", "EtherGauge", "LastingStack"):
        if cls == "LastingStack" and m == "reset":
            return [], []
        if rng.random() < 0.3:
            return [], []
        v = rng.randint(-1, 4)
        return [v], [str(v)]
    if m in ("set_value", "regulate", "set_max_count", "set_count"):
        v = rng.randint(-1, 8)
        return [v], [str(v)]
    if m == "start":
        a, b = pos_time(rng, sp), nonneg_time(rng, sp)
        return [a, b], [units(a), units(b)]
    if m == "new":
        n = rng.choice(["a", "b", "e", "독"])
        d = rng.choice([5.0, 9.25, 0.3])
        l = t_choices(rng, (1000.0, 3000.0))
        return [n, d, l], [n, frac(d), units(l)]
    if m == "add_running":
        a, b, mx = nonneg_time(rng, sp), pos_time(rng, sp + (40000.0,)), rng.choice([6, 8, 0, 2])
        return [a, b, mx], [units(a), units(b), str(mx)]
    if m == "stack_rng":
        r = rng.choice([0.0, 0.25, 0.5, 1.0, 0.125])
        return [r], [frac(r)]
    if m == "mark":
        s = {"final_damage_multiplier": float(rng.randint(0, 30)), "attack_power": float(rng.randint(0, 9))}
        s = {k: v for k, v in s.items() if v != 0}
        return [s], ["S:" + canon(s)]
    return [], []


def real_call(cls_name, klass, m, state, args):
    """run the real method; returns what the driver is expected to answer"""
    from simaple.core.base import Stat
    st = dict(state)
    if cls_name == "DivineMark":
        adv = st.get("advantage")
        ent = klass(advantage=None if adv is None else Stat(**adv))
    elif cls_name == "CurrentField":
        from simaple.simulate.component.entity import Periodic
        st["field_periodics"] = [Periodic(**p) for p in st["field_periodics"]]
        ent = klass(**st)
    else:
        ent = klass(**st)
    py_args = list(args)
    if cls_name == "DivineMark" and m == "mark":
        py_args = [Stat(**args[0])]
    try:
        if (cls_name, m) in GENERATORS:
            res = list(getattr(ent, m)(*py_args))
        elif (cls_name, m) in PROPERTIES:
            res = getattr(ent, m)
        elif m == "resolve_step":
            new, left = klass.resolve_step(ent, *py_args)
            ent, res = new, left
        else:
            res = getattr(ent, m)(*py_args)
    except Exception as e:
        return {"raise": type(e).__name__}
    dump = ent.model_dump()
    if cls_name == "DivineMark":
        a = ent.advantage
        dump = {"advantage": None if a is None else {k: v for k, v in a.model_dump().items() if v != 0}}
    try:
        state_json = enc_state(cls_name, dump)
    except ValueError:
        return {"offgrid": True}    # (only Cooldown.reduce_by_rate can leave the grid; the model then answers none)
    # the result in the driver's vocabulary
    if res is None:
        r = None
    elif isinstance(res, bool):
        r = res
    elif (cls_name, m) in GENERATORS:
        r = [str(x) for x in res] if cls_name == "DynamicIntervalPeriodic" else str(len(res))
    elif cls_name == "DOT" and m == "elapse":
        r = [[k[0], frac(k[1]), str(v)] for k, v in res.items()]
    elif cls_name == "DOT" and m == "step":
        r = [units(res[0]), [[n, frac(dm)] for n, dm in res[1]]]
    elif m in ("get_gain_rate", "get_summon_multiplier"):
        r = frac(res)
    elif m == "get_robot_modifier":
        r = frac(res.final_damage_multiplier)
    elif m == "get_buff":
        r = str(int(res.final_damage_multiplier))
    elif m == "consume_mark":
        r = "Stat()" if state.get("advantage") is None else "S:" + canon({k: v for k, v in res.model_dump().items() if v != 0})
        if state.get("advantage") is None and res != Stat():
            r = "not the empty Stat"
    elif m in ("get_elapsed_time", "minimum_time_to_available", "get_next_delay", "get_time_left", "resolve_step"):
        r = units(res)
    elif isinstance(res, int):
        r = str(res)
    else:
        r = units(res)
    return {"state": state_json, "result": r}


def normalise_divine(j):
    return j


def work(cls, m, state, args) -> float:
    """a bound on the number of loop iterations of the real method (tiny intervals with long times are
    skipped: the real loops copy the entity at every step)"""
    try:
        if cls == "Periodic" and m == "elapse":
            return args[0] / min(state["interval"], state["interval_counter"])
        if cls == "CurrentField" and m == "elapse":
            return sum(args[0] / min(p["interval"], p["interval_counter"]) for p in state["field_periodics"])
        if cls == "Keydown" and m == "resolving":
            return max(state["time_left"], 0) / state["interval"]
        if cls == "Consumable" and m == "elapse":
            return max(args[0] - state["time_left"], 0) / state["cooldown_duration"]
        if cls == "DOT" and m == "elapse":
            return args[0] / state["period"]
        if cls == "ProgrammedPeriodic" and m == "resolving":
            return max(state["time_left"], 0) / min(state["intervals"])
        if cls == "DynamicIntervalPeriodic" and m == "resolving":
            return (args[0] + max(-state["interval_counter"], 0)) / state["interval"]
        if cls == "OrderSword" and m == "resolving":
            return sum(abs(t / state["interval"]) for _, t in state["running_swords"])
    except ZeroDivisionError:
        return float("inf")
    return 0.0


def make_cases(rng, per_method):
    klasses = entity_classes()
    cases = []
    for cls, methods in METHODS.items():
        for m in methods:
            made = 0
            tries = 0
            while made < per_method and tries < per_method * 6:
                tries += 1
                state = gen_state(cls, rng)
                if cls == "DivineMark" and state["advantage"] is not None:
                    state["advantage"] = {k: v for k, v in state["advantage"].items() if v != 0} or None
                if cls == "CurrentField" and m != "elapse":
                    pass
                args, dargs = gen_args(cls, m, state, rng)
                # stay inside the documented domain of the model (states on which the Python loop terminates)
                if cls == "OrderSword" and m == "resolving" and state["interval"] < 0 and rng.random() < 0.5:
                    continue
                if work(cls, m, state, args) > 3000:
                    continue
                try:
                    req_state = enc_state(cls, state)
                except ValueError:
                    continue
                cases.append((cls, m, state, args, {"fn": "entity", "cls": cls, "method": m, "state": req_state,
                                                    "args": dargs}))
                made += 1
    return cases, klasses


def main(ck: Check):
    quick = ck.tier == "quick"
    if getattr(ck, "replay", None):
        data = json.loads(open(ck.replay).read())
        for item in data.get("failing_inputs", []):
            diff = replay_failing(item)
            print(json.dumps({"component": item["component"], "split_ms": item["split_ms"],
                              "still_fails": diff is not None, "outcomes": diff}, ensure_ascii=False, default=str)[:2000])
            if diff is not None:
                ck.add_failing(item)
        ck.coverage.update({"evaluations": len(data.get("failing_inputs", [])), "rule": "replay of recorded failing inputs"})
        ck.finish("replay", trusted_base=["the real dispatchers"], checker_cmd="./check C09 --replay <file>")

    # ---- (b) the property on the real code, in the pool, while the Lean side runs afterwards
    variants = [0, 1] if quick else [0, 1, 2]
    plans_per = 4 if quick else 6
    work = [(job, v, pi, ck.seed, ck.tier) for job in JOBS for v in variants for pi in range(plans_per)]
    evaluations = states = nontrivial = multi = 0
    by_class: dict = {}
    entity_seen: dict = {}
    samples = []
    per_class_reported: dict = {}
    for args, out in pmap(explore_unit, work, ck.budget_s * (0.55 if quick else 0.75)):
        if args is None:
            ck.notes.append(f"budget reached: {out}")
            if out["done"] < max(8, out["total"] // 2):
                raise TimeoutError(f"only {out['done']}/{out['total']} units finished within the budget")
            continue
        evaluations += out["evaluations"]
        states += out["states"]
        nontrivial += out["nontrivial"]
        multi += out["multi"]
        for k, v in out["by_class"].items():
            t = by_class.setdefault(k, {"states": 0, "splits": 0, "with_ticks": 0, "failing": 0})
            for kk in t:
                t[kk] += v[kk]
        for k, v in out["entity_classes"].items():
            entity_seen[k] = entity_seen.get(k, 0) + v
        for s in out["samples"]:
            if len(samples) < 4:
                samples.append(s)
        for f in out["failing"]:
            n = per_class_reported.get(f["component_class"], 0)
            per_class_reported[f["component_class"]] = n + 1
            if n < 3:
                ck.add_failing(f)

    # ---- (0) proofs and (a) correspondence
    rng = ck.rng
    per_method = 12 if quick else 120
    cases, klasses = make_cases(rng, per_method)
    expected = [real_call(cls, klasses[cls], m, state, args) for cls, m, state, args, _ in cases]
    with ck.locked():
        proved = ck.prove("Simaple.Props.C09")
        if not quick and proved:
            ck.leanchecker(["Simaple.Props.C09"])
        res = ck.driver([c[4] for c in cases], timeout=900)
    disagreements = 0
    skipped = 0
    compared_by_method: dict = {}
    if res is not None:
        for (cls, m, state, args, req), want, got in zip(cases, expected, res):
            key = f"{cls}.{m}"
            if "err" in got:
                # outside the model's documented domain (non-terminating Python loops etc.): must not happen for
                # generated states -- counted as a disagreement
                g = {"driver_error": got["err"]}
            else:
                g = got["ok"]
            if "offgrid" in g and "offgrid" in want:
                skipped += 1
                continue
            compared_by_method[key] = compared_by_method.get(key, 0) + 1
            if g != want:
                disagreements += 1
                if disagreements <= 5:
                    ck.broken.append({"kind": "correspondence", "point": f"Model.Entity {key} vs the real entity",
                                      "state": state, "args": args, "model": g, "implementation": want})
    ck.coverage.update({
        "evaluations": evaluations + len(cases),
        "distinct_nontrivial": nontrivial,
        "rule": "(b) jobs x environment variants x seeded plans (simlib.random_plan, ELAPSE <= 8 s) -> distinct "
                "checkpoints -> every installed component with an elapse reducer -> its own dispatcher on two restored "
                "copies (own + bound + global entities; time fields snapped to the 2^-10 ms grid): elapse(a+b) vs "
                "elapse(a);elapse(b) for (a,b) from {1 unit, 1 ms, seconds, minutes, every timer value of the state "
                "and that value +-1 unit, +-1 ms} and random 3-5-way splits; compared: summed hits per (name, tag, "
                "damage, modifier) of damage/DOT events and the component's validity/running/buff/keydown views. "
                "distinct_nontrivial = split evaluations in which the single elapse emitted at least one tick. "
                "(a) every modelled entity method x seeded grid states (boundary values around 0 and around the "
                "state's own timers) vs the real entity, exact",
        "samples": samples,
        "real_code_split_evaluations": evaluations,
        "real_code_component_states": states,
        "real_code_multiway_splits": multi,
        "per_component_class": by_class,
        "own_entity_classes_seen": entity_seen,
        "model_method_cases": len(cases),
        "model_method_cases_outside_grid_or_domain": skipped,
        "model_disagreements": disagreements,
        "model_cases_by_method": compared_by_method,
        "chunk_dependent_by_class": per_class_reported,
    })
    ck.assumptions += [
        "times on the 2^-10 ms grid below 2^53 units (the property's own restriction); harvested states are snapped "
        "to that grid (a perturbation below 2^-11 ms)",
        "entity-level theorems; a component's elapse applies entity elapses independently and turns tick counts "
        "into events (checked directly on the real dispatchers in part (b), not proved)",
        "well-formedness hypotheses of the theorems (Consumable 0 < cooldown_duration, Periodic 0 < interval and "
        "0 < interval_counter, Keydown 0 < interval and 0 <= counter unless over, DOT 0 < period, ...): the Python "
        "loops do not terminate otherwise",
        "OrderSword/AdeleOrderComponent is chunk dependent (known finding F10): only orderSword_add_partial is proved",
    ]
    ck.finish("proof",
              trusted_base=["Lean 4.33 kernel", "axioms ⊆ {propext, Classical.choice, Quot.sound}",
                            "hand-written model Simaple/Model/Entity.lean tied to the entities by exact comparison of "
                            "every method on seeded grid states", "float arithmetic is exact on the 2^-10 ms grid",
                            "pydantic Checkpoint.restore"],
              checker_cmd="cd lean && lake build Simaple.Props.C09 && lake env lean Simaple/Audit/C09.lean")


if __name__ == "__main__":
    run_check("C09", main)
