"""C08 -- state-transition functions are pure: no input mutation, same in same out; views read-only."""
from __future__ import annotations

import random

from vlib import Check, run_check, pmap
import simlib
import complib
from simlib import JOBS, command_text, random_plan


def unit(job, variant, pi, seed, length, per_key):
    rng = random.Random(f"C08:{seed}:{job}:{variant}:{pi}")
    cmds = random_plan(rng, job, variant, length) if pi % 2 == 0 else simlib.rotation_plan(rng, job, variant, max(3, length // 8))
    out = {"calls": 0, "failing": [], "by_class": {}, "views": 0, "reducers": 0, "sample": None}
    with complib.Harvest(per_key) as hv:
        eng = simlib.make_engine(job, variant)
        for i, c in enumerate(cmds):
            eng.exec(c)
            if i % 4 == 0:
                complib.eval_views(eng)          # harvest view calls on reachable states as well
    for sig, call in hv.calls.items():
        out["calls"] += 1
        key = f"{type(call['owner']).__name__}.{call['method']}"
        out["by_class"][key] = out["by_class"].get(key, 0) + 1
        out["views" if call["is_view"] else "reducers"] += 1
        problem = complib.purity_check(call)
        if problem is not None and len(out["failing"]) < 5:
            args = call["args"]
            out["failing"].append({"component_class": type(call["owner"]).__name__, "component": call["owner"].name,
                                   "method": call["method"], "kind": problem["kind"], "job": job,
                                   "payload": None if call["is_view"] else complib.dump_arg(args[0]),
                                   "state": complib.dump_arg(args[-1]), "detail": problem})
    out["sample"] = {"job": job, "calls": list(out["by_class"].items())[:6]}
    return out


def main(ck: Check):
    quick = ck.tier == "quick"
    variants = [0] if quick else [0, 1, 2]
    plans_per = 2 if quick else 18
    length = (25, 40) if quick else (40, 80)
    per_key = 30 if quick else 1500
    rng = ck.rng
    work = [(job, v, pi, ck.seed, rng.randint(*length), per_key) for job in JOBS for v in variants for pi in range(plans_per)]
    tot = {"calls": 0, "views": 0, "reducers": 0}
    by_class: dict[str, int] = {}
    samples = []
    for args, out in pmap(unit, work, ck.budget_s * 0.7):
        if args is None:
            ck.notes.append(f"budget reached: {out}")
            if out["done"] < max(4, out["total"] // 2):
                raise TimeoutError(f"only {out['done']}/{out['total']} units finished within the budget")
            continue
        for k in tot:
            tot[k] += out[k]
        for k, v in out["by_class"].items():
            by_class[k] = by_class.get(k, 0) + v
        for f in out["failing"]:
            ck.add_failing(f)
        if len(samples) < 3:
            samples.append(out["sample"])
    with ck.locked():
        proved = ck.prove("Simaple.Props.C08")
        if not quick and proved:
            ck.leanchecker(["Simaple.Props.C08"])
    ck.coverage.update({
        "evaluations": tot["calls"],
        "distinct_nontrivial": len(by_class),
        "rule": "every reducer and view call made through ComponentMethodWrapper during real runs of all 8 jobs is harvested "
                f"(distinct by (class, method, payload, state dump), at most {per_key} per (class, method)); each is replayed as a "
                "direct call component.<method>(payload, state) twice on the SAME argument objects and once on deep copies: the "
                "dump of every argument must be unchanged after each call, the component itself unchanged, and the three results "
                "equal. evaluations = harvested calls; distinct_nontrivial = distinct (class, method) pairs",
        "samples": samples,
        **tot,
        "calls_by_class_and_method": by_class,
        "explanation": "Level 'other' (partial): in the functional Lean model a reducer is a function, so input mutation and "
                       "repeatability cannot be stated non-trivially; what is PROVED (Simaple.Props.C08) is the frame of the "
                       "dispatcher for an arbitrary reducer: it reads only the entities bound to the component, writes only "
                       "those, and its events are a function of them. What DECIDES the property is the observation above on the "
                       "real Python objects.",
    })
    ck.assumptions += ["object mutation is observed, not proved"]
    ck.finish("other",
              trusted_base=["Lean 4.33 kernel (frame theorems)", "the harvest/replay harness (complib.purity_check)"],
              checker_cmd="cd lean && lake build Simaple.Props.C08 && lake env lean Simaple/Audit/C08.lean",
              explanation="frame theorems proved in Lean; object mutation / repeatability observed on harvested real calls")


if __name__ == "__main__":
    run_check("C08", main)
