"""C08 -- state-transition functions are pure: no input mutation, same in same out; views read-only."""
from __future__ import annotations

import copy
import random

from vlib import Check, run_check, pmap
import simlib
import complib
from simlib import JOBS, command_text, random_plan


def unit(job, variant, pi, seed, length, per_key, only=None):
    import gen_effects
    rng = random.Random(f"C08:{seed}:{job}:{variant}:{pi}")
    cmds = random_plan(rng, job, variant, length) if pi % 2 == 0 else simlib.rotation_plan(rng, job, variant, max(3, length // 8))
    out = {"calls": 0, "failing": [], "by_class": {}, "views": 0, "reducers": 0, "sample": None, "observed": {},
           "mismatches": []}
    with complib.Harvest(per_key, only=None if only is None else {tuple(x) for x in only}) as hv:
        eng = simlib.make_engine(job, variant)
        for i, c in enumerate(cmds):
            eng.exec(c)
            if i % 4 == 0:
                complib.eval_views(eng)          # harvest view calls on reachable states as well
    calls = list(hv.calls.values())
    if only is not None:
        # targeted search: also the states these calls' components reach when time simply passes (their own `elapse`)
        extra = []
        for call in calls:
            owner = call["owner"]
            if "elapse" not in getattr(type(owner), "__reducers__", ()) or call["is_view"] and False:
                continue
            for T in (15_000.0, 45_000.0, 100_000.0):
                try:
                    st2 = owner.elapse(T, copy.deepcopy(call["args"][-1]))[0]
                    if type(st2) is type(call["args"][-1]):
                        extra.append({**call, "args": tuple(list(copy.deepcopy(call["args"][:-1])) + [st2])})
                except Exception:  # noqa: BLE001
                    pass
            if len(extra) > 3000:
                break
        calls += extra
    for call in calls:
        out["calls"] += 1
        key = f"{type(call['owner']).__name__}.{call['method']}"
        out["by_class"][key] = out["by_class"].get(key, 0) + 1
        out["views" if call["is_view"] else "reducers"] += 1
        # observations in the terms of the effect model (Simaple/Model/Effect.lean)
        ob = complib.effect_observation(call)
        agg = out["observed"].setdefault(key, {"changed": [], "aliases": [], "calls": 0, "raised": 0, "attr_writes": []})
        agg["calls"] += 1
        for w in ob["attr_writes"]:
            if w not in agg["attr_writes"]:
                agg["attr_writes"].append(w)
        if ob["old_object_writes"] and len(out["failing"]) < 5:
            out["failing"].append({"component_class": type(call["owner"]).__name__, "component": call["owner"].name,
                                   "method": call["method"], "kind": "wrote-an-object-that-existed-before-the-call",
                                   "job": job, "payload": None if call["is_view"] else complib.dump_arg(call["args"][0]),
                                   "state": complib.dump_arg(call["args"][-1]), "detail": ob["old_object_writes"]})
        agg["raised"] += ob["raised"] is not None
        for c in ob["changed"]:
            if c not in agg["changed"]:
                agg["changed"].append(c)
        for a in ob["aliases"]:
            if len(agg["aliases"]) < 4 and a not in agg["aliases"]:
                agg["aliases"].append(a)
        if len(out["mismatches"]) < 5:
            for mm in complib.classification_mismatches([call["owner"]] + list(call["args"]), gen_effects.ty_of_annotation,
                                                        gen_effects.PRIM):
                if mm not in out["mismatches"]:
                    out["mismatches"].append(f"{key}: {mm}")
        problem = complib.purity_check(call)
        if problem is not None and len(out["failing"]) < 5:
            args = call["args"]
            out["failing"].append({"component_class": type(call["owner"]).__name__, "component": call["owner"].name,
                                   "method": call["method"], "kind": problem["kind"], "job": job,
                                   "payload": None if call["is_view"] else complib.dump_arg(args[0]),
                                   "state": complib.dump_arg(args[-1]), "detail": problem})
    # order independence across interpreters: a sample of the reducer calls (one or two per class and method), each
    # followed by its twin (same name, description differing in one number), in two new interpreters in opposite orders
    out["order_items"] = 0
    if only is None and pi < (1 if per_key <= 30 else 3):
        picked, per = [], {}
        for call in calls:
            key = (type(call["owner"]).__name__, call["method"])
            if call["is_view"] or per.get(key, 0) >= 2:
                continue
            it = complib.portable_call(call)
            if it is None:
                continue
            per[key] = per.get(key, 0) + 1
            picked.append(it)
            tw = complib.twin_of(it)
            if tw is not None:
                picked.append(tw)
            if len(picked) >= 160:
                break
        out["order_items"] = len(picked)
        for d in complib.order_dependence(picked)[:2]:
            if "error" in d:
                out.setdefault("broken", []).append({"kind": "harness", "part": "C08 order independence", **d})
                break
            it = picked[d["index"]]
            out["failing"].append({"component_class": it["cls"][1], "component": it["owner"].get("name"),
                                   "method": it["method"], "kind": "answer-depends-on-the-calls-made-before-it-in-the-process",
                                   "job": job, "payload": it["args"][0].get("json") if len(it["args"]) > 1 else None,
                                   "state": it["args"][-1].get("dump"), "component_description": it["owner"],
                                   "detail": {k: d[k] for k in ("in_list_order", "in_reverse_order")},
                                   "calls_in_the_list": [[x["cls"][1], x["owner"].get("name"), x["method"]] for x in picked][:40]})
    out["sample"] = {"job": job, "calls": list(out["by_class"].items())[:6]}
    return out


EXCEPTIONS: set = set()   # Props/C08_EffectsBase.lean `pathCorrelated` (empty: every method is covered)


def merge_observed(into: dict, new: dict):
    for key, ob in new.items():
        agg = into.setdefault(key, {"changed": [], "aliases": [], "calls": 0, "raised": 0, "attr_writes": []})
        agg["calls"] += ob["calls"]
        for w in ob.get("attr_writes", []):
            if w not in agg["attr_writes"]:
                agg["attr_writes"].append(w)
        agg["raised"] += ob["raised"]
        for c in ob["changed"]:
            if c not in agg["changed"]:
                agg["changed"].append(c)
        for a in ob["aliases"]:
            if len(agg["aliases"]) < 4 and a not in agg["aliases"]:
                agg["aliases"].append(a)


def main(ck: Check):
    quick = ck.tier == "quick"
    variants = [0] if quick else [0, 1, 2]
    plans_per = 2 if quick else 18
    length = (25, 40) if quick else (40, 80)
    per_key = 30 if quick else 1500
    rng = ck.rng
    work = [(job, v, pi, ck.seed, rng.randint(*length), per_key) for job in JOBS for v in variants for pi in range(plans_per)]
    tot = {"calls": 0, "views": 0, "reducers": 0, "order_items": 0}
    by_class: dict[str, int] = {}
    samples = []
    observed: dict[str, dict] = {}
    mismatches: list[str] = []

    def absorb(results):
        for args, out in results:
            if args is None:
                ck.notes.append(f"budget reached: {out}")
                if out["done"] < max(4, out["total"] // 2):
                    raise TimeoutError(f"only {out['done']}/{out['total']} units finished within the budget")
                continue
            for k in tot:
                tot[k] += out[k]
            for k, v in out["by_class"].items():
                by_class[k] = by_class.get(k, 0) + v
            for f in out["failing"]:
                ck.add_failing(f)
            ck.broken.extend(out.get("broken", []))
            merge_observed(observed, out["observed"])
            for mm in out["mismatches"]:
                if mm not in mismatches and len(mismatches) < 10:
                    mismatches.append(mm)
            if len(samples) < 3:
                samples.append(out["sample"])

    absorb(pmap(unit, work, ck.budget_s * 0.55))

    with ck.locked():
        ck.regenerate(["effects"])
        proved = ck.prove("Simaple.Props.C08")
        if not quick and proved:
            ck.leanchecker(["Simaple.Props.C08", "Simaple.Props.C08_Effects"])
        res = ck.driver([{"fn": "effects_table"}], timeout=600)

    # ---- the effect model against what the real calls did
    model_ok = 0
    ill_formed: list[tuple[str, str]] = []
    entries = {}
    if res is not None and "ok" in res[0]:
        tab = res[0]["ok"]
        for cls, meth, why in tab["notLowered"]:
            ck.broken.append({"kind": "translator", "generator": "effects", "component_class": cls, "method": meth,
                              "error": why})
            ill_formed.append((cls, meth))
        for e in tab["entries"]:
            entries[f"{e['cls']}.{e['method']}"] = e
            if not e["wellFormed"] and (e["cls"], e["method"]) not in EXCEPTIONS:
                ill_formed.append((e["cls"], e["method"]))
                ck.broken.append({"kind": "proof", "theorem": "Simaple.Props.C08.table_wellFormed",
                                  "component_class": e["cls"], "method": e["method"],
                                  "what": "the effect checker rejects the program generated from this method: it may "
                                          "write an object that existed before the call"})
        for key, ob in observed.items():
            e = entries.get(key)
            if e is None:
                ck.broken.append({"kind": "correspondence", "point": "a harvested method has no effect program", "method": key})
                continue
            stores = set(e["stores"])
            bad = [c for c in ob["changed"] if not (c[1] in stores or c[0] in stores or (c[2] and "[]" in stores))]
            unpredicted = [w for w in ob.get("attr_writes", []) if w not in stores]
            if unpredicted:
                ck.broken.append({"kind": "correspondence", "point": "an attribute assignment traced during real calls is not a store of the effect program",
                                  "method": key, "attributes": unpredicted[:6], "model_stores": sorted(stores)})
                bad = bad or [["(traced)", unpredicted[0], False]]
            if bad and not unpredicted:
                ck.broken.append({"kind": "correspondence", "point": "observed state change not among the stores of the effect program",
                                  "method": key, "changed": bad[:4], "model_stores": sorted(stores)})
            taint = set(e["taint"])
            if e["resultTag"] in ("fresh", "prim"):
                al = [a for a in ob["aliases"] if not any(("." + t) in a[0] for t in taint)]
                if al:
                    ck.broken.append({"kind": "correspondence",
                                      "point": "the result state shares a mutable object with the arguments / the component although "
                                               "the effect model derives it is freshly allocated",
                                      "method": key, "aliases": al[:3]})
            if not bad:
                model_ok += 1
        for mm in mismatches:
            ck.broken.append({"kind": "correspondence", "point": "static immutable/mutable classification of the translator", "what": mm})
    elif res is not None:
        ck.broken.append({"kind": "driver", "answer": res[0]})

    # ---- a broken obligation: look harder for a concrete failing call of exactly those methods
    if ill_formed and not ck.failing:
        only = set(ill_formed)
        # a rejected validator / hook of a STATE or ENTITY class: look at every method of the components that use it
        try:
            import inspect as _inspect
            import typing as _typing
            import gen_effects as _ge
            names = {c for c, _m in ill_formed}
            for comp in _ge.component_classes():
                for meth, _kind in _ge.methods_of(comp):
                    fn = _inspect.unwrap(_inspect.getattr_static(comp, meth))
                    try:
                        hints = _typing.get_type_hints(fn)
                    except Exception:  # noqa: BLE001
                        continue
                    for ann in hints.values():
                        if isinstance(ann, type) and (ann.__name__ in names or any(
                                getattr(f.annotation, "__name__", None) in names
                                for f in getattr(ann, "model_fields", {}).values())):
                            only.add((comp.__name__, meth))
        except Exception as e:  # noqa: BLE001
            ck.notes.append(f"mapping hooks to components failed: {type(e).__name__}: {e}")
        only = sorted(only)
        work2 = [(job, v, pi, ck.seed + 1000, 60, 4000, only) for job in JOBS for v in ([0, 1] if quick else [0, 1, 2])
                 for pi in range(4 if quick else 12)]
        absorb(pmap(unit, work2, ck.budget_s * 0.3))
        ck.notes.append(f"targeted search on {only}: {len(ck.failing)} failing call(s) found")

    ck.coverage.update({
        "evaluations": tot["calls"],
        "distinct_nontrivial": len(by_class),
        "rule": "every reducer and view call made through ComponentMethodWrapper during real runs of all 8 jobs is harvested "
                f"(distinct by (class, method, payload, state dump), at most {per_key} per (class, method)); each is replayed as a "
                "direct call component.<method>(payload, state) twice on the SAME argument objects and once on deep copies: the "
                "dump of every argument must be unchanged after each call, the component itself unchanged, and the three results "
                "equal. A sample of the reducer calls (up to two per class and method), each followed by its twin -- a component of the "
                "same name whose description differs in one number --, is replayed in two NEW interpreters in opposite orders "
                "(components with equal descriptions share one object there): every answer must be the same in both. "
                "Each call is also run with every pydantic attribute assignment traced (transient writes included): no traced "
                "write may go to an object that existed before the call, and every traced attribute must be a store of the method's "
                "effect program. Each call is also compared with the effect program generated from the method: every (entity, field) the "
                "call changed must be a store of the program, a result the model derives fresh must share no mutable object "
                "(by identity) with the arguments or the component, and every field the translator treats as immutable must "
                "hold an immutable value. evaluations = harvested calls; distinct_nontrivial = distinct (class, method) pairs",
        "samples": samples,
        **tot,
        "calls_by_class_and_method": by_class,
        "effect_programs": len(entries),
        "effect_programs_wellformed": sum(1 for e in entries.values() if e["wellFormed"]),
        "effect_programs_outside_discipline": sorted(f"{c}.{m}" for c, m in EXCEPTIONS),
        "methods_observed_against_effect_model": len(observed),
        "distinct_traced_attribute_writes": sum(len(ob.get("attr_writes", [])) for ob in observed.values()),
        "methods_agreeing_with_effect_model": model_ok,
        "results_derived_fresh": sum(1 for e in entries.values() if e["resultTag"] in ("fresh", "prim")),
        "results_possibly_aliasing_the_input": sorted(k for k, e in entries.items() if e["kind"] == "reducer" and e["resultTag"] == "shared"),
        "tainted_fields": sorted({t for e in entries.values() for t in e["taint"]}),
        "library_functions_called_but_not_inlined": dict(__import__("gen_effects").EXTERNALS),
        "explanation": "PROVED (Simaple.Props.C08_Effects, regenerated from the source on every run): for every reducer and view "
                       "method of every shipped component class (none is exempt), on every heap and for every "
                       "argument, at every point of the call no object that existed before the call is written. PROVED "
                       "(Simaple.Props.C08): the dispatcher's frame. OBSERVED: repeatability (same in, same out) on harvested calls; "
                       "in the functional L2 models a reducer is a function, so repeatability holds there by construction.",
    })
    ck.assumptions += ["Python's deepcopy allocates every mutable object reachable from its result (IsDeepCopy); observed by the "
                       "identity walk on every harvested call",
                       "the lowering of gen_effects.py over-approximates the Python method (validated by the observed changes "
                       "and aliases of every harvested call)",
                       "static types classify immutable values correctly (validated on every harvested argument object)",
                       "repeatability is observed, not proved, at the Python level"]
    ck.finish("proof",
              trusted_base=["Lean 4.33 kernel", "axioms ⊆ {propext, Classical.choice, Quot.sound}",
                            "tools/py2lean/gen_effects.py (Python AST -> effect IR)", "pydantic / CPython deepcopy semantics",
                            "the harvest/replay harness (complib.purity_check, complib.effect_observation)"],
              checker_cmd="cd lean && lake build Simaple.Props.C08 Simaple.Props.C08_Effects && lake env lean Simaple/Audit/C08.lean",
              explanation="effect discipline proved in Lean on programs regenerated from the source; repeatability observed")


if __name__ == "__main__":
    run_check("C08", main)
