"""C01 -- resuming from any recorded point reproduces the uninterrupted run."""
from __future__ import annotations

import json
import time

from vlib import Check, run_check, pmap
import simlib
from simlib import JOBS, Recorder, command_text, logs_equal_report, make_engine, model_log_view, random_plan

from simaple.simulate.base import Checkpoint
from simaple.simulate.policy.base import OperationLog


def roundtrip_logs(logs, mode):
    if mode == "memory":
        return list(logs)
    return [OperationLog.model_validate_json(l.model_dump_json()) for l in logs]


def run_cmd(eng, c):
    """a command the engine is known to refuse (simlib.refused_commands) is caught, as a plan editor would, and the
    session goes on; any other exception is an exception of the run"""
    if simlib.is_refused(c):
        if simlib.exec_safe(eng, c) is not None:
            raise AssertionError(f"a malformed command was not refused: {command_text(c)}")
    else:
        eng.exec(c)


def resumed_logs(job, variant, straight_logs, cmds, k, mode):
    eng = make_engine(job, variant)
    if mode == "json-at-cut":
        # the record a user saves WHEN the run is at the cut: another engine runs the first k commands and its logs are
        # dumped then (a log that a later command of the straight run rewrites in place is not in this record)
        pre = make_engine(job, variant)
        for c in cmds[:k]:
            run_cmd(pre, c)
        eng.reload(roundtrip_logs(list(pre.operation_logs()), "json"))
    else:
        # one log per command that was not refused, after the initial log
        n_logs = 1 + sum(1 for c in cmds[:k] if not simlib.is_refused(c))
        eng.reload(roundtrip_logs(straight_logs[:n_logs], mode))
    for c in cmds[k:]:
        run_cmd(eng, c)
    return list(eng.operation_logs())


def straight(job, variant, cmds):
    eng = make_engine(job, variant)
    for c in cmds:
        run_cmd(eng, c)
    return list(eng.operation_logs())


def fails(job, variant, cmds, k, mode):
    try:
        a = straight(job, variant, cmds)
        b = resumed_logs(job, variant, a, cmds, k, mode)
    except Exception as e:  # an exception in the resumed run only is a failure too
        return {"what": f"exception {type(e).__name__}: {e}"}
    return logs_equal_report(a, b)


def shrink(job, variant, cmds, k, mode, budget_s=20.0):
    t0 = time.time()
    cmds = list(cmds)
    changed = True
    while changed and time.time() - t0 < budget_s:
        changed = False
        for i in range(len(cmds) - 1, -1, -1):
            cand = cmds[:i] + cmds[i + 1:]
            kk = k - 1 if i < k else k
            if kk < 0 or kk > len(cand):
                continue
            if fails(job, variant, cand, kk, mode):
                cmds, k, changed = cand, kk, True
            if time.time() - t0 > budget_s:
                break
    return cmds, k


def unit(job, variant, pi, seed, quick, plan_len):
    """one (job, environment, plan): straight run, checkpoint round trips, every cut x {memory, json},
    and the request for the Lean engine replay"""
    import random
    rng = random.Random(f"C01:{seed}:{job}:{variant}:{pi}")
    out = {"failing": [], "broken": [], "evaluations": 0, "kinds": {}, "entity": {}, "ckpts": 0, "reqs": [],
           "expect": [], "cases": []}
    n = rng.randint(*plan_len)
    # every second plan has times off every grid (sub-microsecond residues of cooldowns and durations) and commands the
    # engine refuses with an exception, after which the session goes on (no log is written for them)
    cmds = random_plan(rng, job, variant, n, offgrid=(pi % 2 == 1))
    if pi % 2 == 1:
        cmds = simlib.with_refused(rng, cmds)
    for c in cmds:
        kd = getattr(c, "command", "CONSOLE")
        out["kinds"][kd] = out["kinds"].get(kd, 0) + 1
    a = straight(job, variant, cmds)
    out["sample"] = {"job": job, "variant": variant, "plan": [command_text(c) for c in cmds][:12]}
    seen_ckpt = set()
    for log in a:
        for pl in log.playlogs:
            d = pl.checkpoint.store_ckpt
            key = simlib.canon(d)
            if key in seen_ckpt:
                continue
            seen_ckpt.add(key)
            for addr, ent in d.items():
                out["entity"][ent["cls"]] = out["entity"].get(ent["cls"], 0) + 1
            try:
                again = Checkpoint(store_ckpt=d).restore().save()
                via_json = Checkpoint(store_ckpt=json.loads(json.dumps(d))).restore().save()
            except Exception as e:
                out["failing"].append({"kind": "checkpoint-cannot-be-restored", "job": job, "clock": pl.clock,
                                       "error": f"{type(e).__name__}: {str(e)[:300]}",
                                       "plan": [command_text(c) for c in cmds]})
                continue
            if again != d or via_json != d:
                bad = [k for k in d if again.get(k) != d[k] or via_json.get(k) != d[k]]
                out["failing"].append({"kind": "checkpoint-roundtrip", "job": job, "entities": bad[:5],
                                       "plan": [command_text(c) for c in cmds]})
    if pi == 0 and a and a[0].playlogs:
        # ... and for every value of every entity field, not only the values this plan reaches
        for b in simlib.perturbed_roundtrip(a[0].playlogs[0].checkpoint.store_ckpt)[:2]:
            out["failing"].append({"kind": "checkpoint-field-is-lost-on-restore", "job": job, "variant": variant, **b})
    out["ckpts"] = len(seen_ckpt)
    done = False
    at_cut = set(rng.sample(range(0, len(cmds) + 1), min(len(cmds) + 1, 6 if quick else 16)))
    for k in range(0, len(cmds) + 1):
        for mode in ("memory", "json", "json-at-cut"):
            if quick and mode == "memory" and k % 2 == 1:
                continue
            if mode == "json-at-cut" and k not in at_cut:
                continue
            out["evaluations"] += 1
            out["cases"].append((job, variant, pi, k))
            try:
                b = resumed_logs(job, variant, a, cmds, k, mode)
                diff = logs_equal_report(a, b)
            except Exception as e:
                diff = {"what": f"exception {type(e).__name__}: {e}"}
            if diff is not None:
                small, kk = shrink(job, variant, cmds, k, mode)
                out["failing"].append({"kind": "resume-differs", "job": job, "variant": variant, "mode": mode,
                                       "plan": [command_text(c) for c in small], "cut_after": kk,
                                       "first_difference": fails(job, variant, small, kk, mode),
                                       "original_plan_length": len(cmds), "original_cut": k})
                done = True
                break
        if done:
            break
    rec = Recorder()
    rec.add_history(a)
    if rec.conflicts:
        out["broken"].append({"kind": "correspondence", "point": "recorded play table is not functional",
                              "job": job, "conflicts": rec.conflicts[:3]})
    cuts = sorted({0, len(cmds) // 2, len(cmds)} | {rng.randint(0, len(cmds)) for _ in range(2)})
    for k in cuts:
        enc = lambda c: ({"refuse": "console" if isinstance(c, simlib.ConsoleText) else "op"}   # noqa: E731
                         if simlib.is_refused(c) else {"exec": simlib.enc_command(c)})
        ops = [enc(c) for c in cmds[:k]] + [{"reload": True}] + [enc(c) for c in cmds[k:]]
        out["reqs"].append({"fn": "engine", "tables": rec.tables(), "init": rec.ckpt_id(a[0].playlogs[0]), "ops": ops})
        out["expect"].append((job, variant, k, [rec.enc_log(l) for l in a],
                              simlib.hash_structure([l.previous_hash for l in a], [l.hash for l in a]),
                              [command_text(c) for c in cmds]))
    return out


def refused_unit(job, variant, seed, quick):
    """every skill used, then a command the engine refuses (a malformed ELAPSE: it raises inside the first elapse
    reducer, after the engine has already handed the pending callbacks of the use to the play), then every skill of the
    job cast once; resumed directly after the refused line.  What a refused command leaves behind in the engine's working
    state is in no log, so the resumed run would not have it."""
    import random
    rng = random.Random(f"C01:refused:{seed}:{job}:{variant}")
    out = {"failing": [], "evaluations": 0}
    names = [v.name for v in make_engine(job, variant).get_current_viewer()("validity")]
    refused = simlib.refused_commands()[0]
    firsts = names
    for s in firsts:
        rest = list(names)
        rng.shuffle(rest)
        # ... with some time in between, so that a periodic hit of the skill is waiting to be relayed to its listeners
        head = [simlib.op(rng.choice(["USE", "CAST"]), s)] + \
               ([simlib.op("ELAPSE", time=rng.choice([300.0, 1000.0, 2500.0]))] if rng.random() < 0.7 else [])
        cmds = head + [refused] + [simlib.op("CAST", t) for t in rest[: (8 if quick else len(rest))]]
        cut = len(head) + 1
        for mode in ("json",) if quick else ("memory", "json"):
            out["evaluations"] += 1
            diff = fails(job, variant, cmds, cut, mode)
            if diff is not None:
                small, kk = shrink(job, variant, cmds, cut, mode, budget_s=10.0)
                out["failing"].append({"kind": "resume-differs", "job": job, "variant": variant, "mode": mode,
                                       "plan": [command_text(c) for c in small], "cut_after": kk,
                                       "first_difference": fails(job, variant, small, kk, mode),
                                       "note": "the plan holds a command the engine refuses with an exception"})
                return out
    return out


JOB_POINT = "JobRunner (end-to-end) vs real engine"


def job_unit(job, ji, pi, seed, quick):
    """one plan for the END-TO-END job model (lean/Simaple/Model/JobRunner.lean): the real run in canonical form and
    the driver request (environment variant 0: no cooldown reduction, so times stay on the 2^-10 ms grid)"""
    import random
    import jobmodel
    rng = random.Random(f"C01:job:{seed}:{job}:{pi}")
    kind = "rotation" if (ji + pi) % 2 == 1 else "random"
    size = (3 if quick else 6) if kind == "rotation" else (30 if quick else 60)
    try:
        cmds = jobmodel.make_plan(rng, job, 0, kind, size)
        u = jobmodel.prepare(job, 0, cmds)
        u["kind"] = kind
        return u
    except Exception as e:      # noqa: BLE001 -- reported as a broken correspondence, never a crash of the check
        import traceback
        return {"job": job, "error": f"{type(e).__name__}: {e}", "trace": traceback.format_exc()[-800:]}


def end_to_end(ck: Check, quick: bool) -> dict:
    """each of the 8 jobs: 1 plan (quick) / 4 plans (thorough) run by the Lean job model and by the real engine,
    compared play by play (action, clock, events, full store); every failure mode is a broken correspondence"""
    import jobmodel
    plans_per = 1 if quick else 4
    work = [(job, ji, pi, ck.seed, quick) for ji, job in enumerate(JOBS) for pi in range(plans_per)]
    units = []
    try:
        for args, out in pmap(job_unit, work, max(20.0, min(ck.time_left() * 0.5, 300.0))):
            if args is None:
                ck.broken.append({"kind": "correspondence", "point": JOB_POINT, "error": f"budget reached: {out}"})
                continue
            if "error" in out:
                ck.broken.append({"kind": "correspondence", "point": JOB_POINT, **out})
                continue
            units.append(out)
        stats = jobmodel.compare(ck, units, JOB_POINT, timeout=120 if quick else 800)
    except Exception as e:      # noqa: BLE001
        import traceback
        ck.broken.append({"kind": "correspondence", "point": JOB_POINT, "error": f"{type(e).__name__}: {e}",
                          "trace": traceback.format_exc()[-800:]})
        return {"error": str(e)}
    if stats["compared"] < len(JOBS) and not any(b.get("point") == JOB_POINT for b in ck.broken):
        ck.broken.append({"kind": "correspondence", "point": JOB_POINT,
                          "error": f"only {stats['compared']} of {len(work)} plans could be compared", "stats": stats})
    return stats


def main(ck: Check):
    quick = ck.tier == "quick"
    variants = [0, 1] if quick else [0, 1, 2]
    plans_per = 2 if quick else 6
    plan_len = (18, 28) if quick else (24, 48)

    evaluations = 0
    distinct = set()
    entity_roundtrips: dict[str, int] = {}
    n_ckpt = 0
    kinds: dict[str, int] = {}
    samples = []
    model_reqs, model_expect = [], []
    work = [(job, v, pi, ck.seed, quick, plan_len) for job in JOBS for v in variants for pi in range(plans_per)]
    for args, out in pmap(unit, work, ck.budget_s * 0.7):
        if args is None:
            ck.notes.append(f"budget reached: {out}")
            if out["done"] < max(8, out["total"] // 2):
                raise TimeoutError(f"only {out['done']}/{out['total']} units finished within the budget")
            continue
        evaluations += out["evaluations"]
        distinct.update(out["cases"])
        for k, v in out["kinds"].items():
            kinds[k] = kinds.get(k, 0) + v
        for k, v in out["entity"].items():
            entity_roundtrips[k] = entity_roundtrips.get(k, 0) + v
        n_ckpt += out["ckpts"]
        if len(samples) < 3:
            samples.append(out["sample"])
        for f in out["failing"]:
            ck.add_failing(f)
        ck.broken.extend(out["broken"])
        model_reqs.extend(out["reqs"])
        model_expect.extend(out["expect"])

    refused_evals = 0
    for args, out in pmap(refused_unit, [(job, 0, ck.seed, quick) for job in JOBS], ck.budget_s * 0.15):
        if args is None:
            ck.notes.append(f"budget reached (refused commands): {out}")
            continue
        refused_evals += out["evaluations"]
        for f in out["failing"]:
            ck.add_failing(f)
    evaluations += refused_evals

    with ck.locked():
        proved = ck.prove("Simaple.Props.C01")
        if not quick and proved:
            ck.leanchecker(["Simaple.Props.C01"])
        res = ck.driver(model_reqs, timeout=900)
        job_stats = end_to_end(ck, quick)
    model_disagreements = 0
    if res is not None:
        for r, (job, variant, k, impl_logs, impl_links, plan) in zip(res, model_expect):
            ok = "ok" in r
            if ok:
                mlogs = r["ok"]["logs"]
                got = [model_log_view(m) for m in mlogs]
                links = simlib.hash_structure([m["prev"] for m in mlogs], [m["hash"] for m in mlogs])
                want = impl_logs[1:]
                ok = got[1:] == want and links == impl_links
            if not ok:
                model_disagreements += 1
                if model_disagreements <= 3:
                    first = None
                    if "ok" in r:
                        for i, (g, w) in enumerate(zip([model_log_view(m) for m in r["ok"]["logs"]][1:], impl_logs[1:])):
                            if g != w:
                                first = {"index": i + 1, "model": g, "implementation": w}
                                break
                    ck.broken.append({"kind": "correspondence", "point": "Model.Engine (exec/reload) vs BasicOperationEngine",
                                      "job": job, "variant": variant, "cut": k, "plan": plan,
                                      "first_difference": first, "driver": None if "ok" in r else r})

    ck.coverage.update({
        "evaluations": evaluations,
        "distinct_nontrivial": len(distinct),
        "rule": "jobs x environment variants x seeded plans (generated against the validity view: valid and not-ready "
                "skills, CAST/USE/ELAPSE incl. 0 and fractional/RESOLVE/KEYDOWNSTOP/!debug) x every cut index x "
                "{in memory, JSON round trip} (quick: memory at even cuts only); a case is (job, variant, plan, cut); "
                "all are non-trivial in that the resumed engine executes the remaining commands on restored state; "
                "every second plan has off-grid times and commands the engine refuses with an exception (the session goes "
                "on; the model runs the same session with `refuse` steps); + per job: every skill used, time passed, a "
                "malformed ELAPSE refused, the other skills cast, resumed directly after the refused line",
        "refused_command_explorations": refused_evals,
        "samples": samples,
        "command_kinds": kinds,
        "distinct_checkpoints_roundtripped": n_ckpt,
        "entity_classes_roundtripped": entity_roundtrips,
        "model_engine_replays": len(model_reqs),
        "model_engine_disagreements": model_disagreements,
        "job_runner_end_to_end": job_stats,
    })
    ck.assumptions += [
        "StoreLaws (everything that influences the future is in the saved store; restore(save(s)) behaves like s): "
        "a hypothesis of the theorems, validated here by the checkpoint round trips and by the resumed runs themselves",
        "JSON round trip of recorded logs is the identity on what a log carries (validated by the json-mode runs)",
        "a refused command (unknown command word, ELAPSE without a time, raising debug line) is modelled by what "
        "_exec_operation / _console leave behind when the FIRST play raises; an exception in a later play of one operation "
        "is outside the model",
        "end-to-end job model: the job description (params, defaults, binds, mappings) is read off the real built engine; "
        "debug lines (Python eval) and plans with times off the 2^-10 ms grid are outside the comparison (counted)",
    ]
    ck.finish("proof",
              trusted_base=["Lean 4.33 kernel", "axioms ⊆ {propext, Classical.choice, Quot.sound}",
                            "hand-written model Simaple/Model/Engine.lean tied to the code by the recorded-play-table replay "
                            "and, instantiated with the modelled router/dispatchers/components (Model/JobRunner.lean), by "
                            "whole real runs compared play by play",
                            "StoreLaws hypothesis (validated per run)", "pydantic dump/validate, json"],
              checker_cmd="cd lean && lake build Simaple.Props.C01 && lake env lean Simaple/Audit/C01.lean")


if __name__ == "__main__":
    run_check("C01", main)
