"""L2 component models, group `Wind` (soulmaster / dualblade / windbreaker job-specific classes):
parameter blocks and entity encodings for Simaple/Model/DrvComponentWind.lean"""
from __future__ import annotations

import complib
from complib import ratq, units

CLASSES = {"CosmicOrb", "Elysion", "CrossTheStyx", "CosmicBurst", "CosmicShower", "Cosmos", "FlareSlash",
           "FinalCutComponent", "BladeStormComponent", "UltimateDarkSightComponent", "KarmaBladeTriggerComponent",
           "HowlingGaleComponent", "TranscendentCygnusBlessing"}


def _cd_eff(comp, state) -> str:
    return units(state.dynamics.stat.calculate_cooldown(comp.cooldown_duration))


def params_of(comp, state) -> dict:
    cls = type(comp).__name__
    if cls == "CosmicOrb":
        return {"default_max_stack": str(int(comp.default_max_stack))}
    if cls == "Elysion":
        return {"cd_eff": _cd_eff(comp, state), "lasting_duration": units(comp.lasting_duration), "delay": units(comp.delay),
                "crack_damage": ratq(comp.crack_damage), "crack_hit": ratq(comp.crack_hit),
                "crack_cooldown": units(comp.crack_cooldown)}
    if cls == "CrossTheStyx":
        return {"damage": ratq(comp.damage), "hit": ratq(comp.hit), "delay": units(comp.delay)}
    if cls == "CosmicBurst":
        return {"cd_eff": _cd_eff(comp, state), "damage": ratq(comp.damage), "hit": ratq(comp.hit),
                # the float product the reducer computes for the 2nd..nth hit
                "damage2": ratq(comp.damage * comp.damage_decrement_after_2nd_hit),
                "cooltime_reduce_per_orb": units(comp.cooltime_reduce_per_orb)}
    if cls == "CosmicShower":
        return {"cd_eff": _cd_eff(comp, state), "delay": units(comp.delay), "periodic_damage": ratq(comp.periodic_damage),
                "periodic_hit": ratq(comp.periodic_hit), "lasting_duration": units(comp.lasting_duration),
                "duration_increase_per_orb": units(comp.duration_increase_per_orb)}
    if cls == "Cosmos":
        return {"cd_eff": _cd_eff(comp, state), "delay": units(comp.delay), "periodic_interval": units(comp.periodic_interval),
                "periodic_damage": ratq(comp.periodic_damage), "periodic_hit": ratq(comp.periodic_hit),
                "periodic_interval_decrement_per_orb": units(comp.periodic_interval_decrement_per_orb),
                "lasting_duration": units(comp.lasting_duration)}
    if cls == "FlareSlash":
        return {"cd_eff": _cd_eff(comp, state), "delay": units(comp.delay), "damage": ratq(comp.damage), "hit": ratq(comp.hit),
                "cooldown_reduce_stance": units(comp.cooldown_reduece_when_stance_changed),
                "cooldown_reduce_styx": units(comp.cooldown_reduce_when_cross_the_styx_hit)}
    if cls == "FinalCutComponent":
        return {"cd_eff": _cd_eff(comp, state), "delay": units(comp.delay), "damage": ratq(comp.damage), "hit": ratq(comp.hit),
                # Cooldown.reduce_by_rate multiplies by the float `1 - rate`
                "keep": ratq(1 - comp.sudden_raid_cooltime_reduce * 0.01)}
    if cls == "BladeStormComponent":
        return {"cd_eff": _cd_eff(comp, state), "maximum_keydown_time": units(comp.maximum_keydown_time),
                "prepare_delay": units(comp.keydown_prepare_delay), "damage": ratq(comp.damage), "hit": ratq(comp.hit),
                "end_delay": units(comp.keydown_end_delay), "prepare_damage": ratq(comp.prepare_damage),
                "prepare_hit": ratq(comp.prepare_hit)}
    if cls == "UltimateDarkSightComponent":
        return {"cd_eff": _cd_eff(comp, state), "lasting_duration": units(comp.lasting_duration), "delay": units(comp.delay)}
    if cls == "KarmaBladeTriggerComponent":
        return {"cooldown_duration": units(comp.cooldown_duration), "damage": ratq(comp.damage), "hit": ratq(comp.hit),
                "triggable_count": str(int(comp.triggable_count)), "lasting_duration": units(comp.lasting_duration),
                "finish_damage": ratq(comp.finish_damage), "finish_hit": ratq(comp.finish_hit)}
    if cls == "HowlingGaleComponent":
        return {"delay": units(comp.delay), "lasting_duration": units(comp.lasting_duration),
                "periodic_damage": [[ratq(x) for x in row] for row in comp.periodic_damage],
                "periodic_hit": [[ratq(x) for x in row] for row in comp.periodic_hit]}
    if cls == "TranscendentCygnusBlessing":
        return {"lasting_duration": units(comp.lasting_duration), "delay": units(comp.delay)}
    raise KeyError(cls)


def enc_entity(ent):
    """entity encodings of Simaple/Model/DrvEntity.lean (getLastingStack / getConsumable / getInteger)"""
    cls = type(ent).__name__
    if cls == "LastingStack":
        return {"stack": str(int(ent.stack)), "maximum_stack": str(int(ent.maximum_stack)),
                "duration": units(ent.duration), "time_left": units(ent.time_left)}
    if cls == "Consumable":
        return {"maximum_stack": str(int(ent.maximum_stack)), "stack": str(int(ent.stack)),
                "cooldown_duration": units(ent.cooldown_duration), "time_left": units(ent.time_left)}
    if cls == "Integer":
        return {"value": str(int(ent.value))}
    return None


def enc_view(value):
    return None
