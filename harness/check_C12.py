"""C12 -- more of a good stat never hurts: damage, cooldown and level gap are monotone."""
from __future__ import annotations

import math
from fractions import Fraction

from vlib import Check, run_check, frac_str, parse_frac

from simaple.core import damage as damage_mod
from simaple.core.base import ActionStat, Stat
from simaple.simulate.report.base import DamageLog
from simaple.simulate.report.dpm import DamageCalculator, LevelAdvantage
from simaple.simulate.reserved_names import Tag

TOL = 1e-9
KINDS = ["STRBasedDamageLogic", "INTBasedDamageLogic", "DEXBasedDamageLogic", "LUKBasedDamageLogic",
         "LUKBasedDualSubDamageLogic"]
METHODS_2 = ["get_damage_factor", "get_dot_factor", "get_armor_factor"]          # (stat, armor)
METHODS_1 = ["get_maximum_attack_range", "get_minimum_attack_range", "get_critical_factor",
             "get_base_stat_factor", "get_major_stat"]                              # (stat)
# what each logic reads besides the common fields (mirrors reads… in Proofs/C12Damage.lean)
READS = {
    "STRBasedDamageLogic": (["STR", "DEX"], "attack_power"),
    "INTBasedDamageLogic": (["INT", "LUK"], "magic_attack"),
    "DEXBasedDamageLogic": (["DEX", "STR"], "attack_power"),
    "LUKBasedDamageLogic": (["LUK", "DEX"], "attack_power"),
    "LUKBasedDualSubDamageLogic": (["LUK", "DEX", "STR"], "attack_power"),
}
COMMON = ["critical_rate", "critical_damage", "boss_damage_multiplier", "damage_multiplier",
          "final_damage_multiplier", "ignored_defence", "elemental_resistance"]
STAT_FIELDS = list(Stat.model_fields)
ACTION_FIELDS = list(ActionStat.model_fields)


def close(a: float, b: float) -> bool:
    return math.isclose(a, b, rel_tol=TOL, abs_tol=1e-7)


def le_tol(a: float, b: float) -> bool:
    """a <= b up to float noise"""
    return a <= b + TOL * max(abs(a), abs(b)) + 1e-7


def beneficial(kind: str) -> list[str]:
    bases, att = READS[kind]
    out = []
    for b in bases:
        out += [b, b + "_multiplier", b + "_static"]
    return out + [att, att + "_multiplier"] + COMMON


# ------------------------------------------------------------------------------------------------ generators
def rand_stat(rng, armor: int, style: str) -> dict[str, Fraction]:
    """non-negative stat block on a 1/8 grid; final damage in [-50, 150]; defence-ignore high enough for a
    non-negative armour term in most blocks (the rest is filtered on the real get_armor_factor)"""
    v: dict[str, Fraction] = {}
    g = lambda lo, hi: Fraction(rng.randint(lo * 8, hi * 8), 8)
    for b in ("STR", "LUK", "INT", "DEX"):
        v[b] = g(0, 60000) if style != "small" else g(0, 40)
        v[b + "_multiplier"] = g(0, 600)
        v[b + "_static"] = g(0, 30000) if style != "small" else g(0, 10)
    for a in ("attack_power", "magic_attack"):
        v[a] = g(0, 6000) if style != "small" else g(0, 9)
        v[a + "_multiplier"] = g(0, 150)
    v["critical_rate"] = g(0, 130)           # above 100 on purpose: min(100, .) is part of the formula
    v["critical_damage"] = g(0, 120)
    v["boss_damage_multiplier"] = g(0, 400)
    v["damage_multiplier"] = g(0, 150)
    v["final_damage_multiplier"] = g(-50, 150)
    lo_ig = 0 if armor == 0 else max(0, math.ceil(100 - 10000 / armor))
    v["ignored_defence"] = g(max(0, lo_ig - 3), 100)
    v["elemental_resistance"] = g(0, 120)
    for m in ("MHP", "MMP", "MHP_multiplier", "MMP_multiplier"):
        v[m] = g(0, 50000)
    if style == "sparse":
        for k in list(v):
            if k != "ignored_defence" and rng.random() < 0.4:
                v[k] = Fraction(0)
    return v


def bump(rng, v: dict[str, Fraction], fields: list[str]) -> dict[str, Fraction]:
    w = dict(v)
    for f in fields:
        if f == "ignored_defence":
            w[f] = min(Fraction(100), v[f] + Fraction(rng.randint(1, 160), 8))
        else:
            w[f] = v[f] + Fraction(rng.randint(1, 8000), 8)
    return w


def mk_stat(v) -> Stat:
    return Stat(**{k: float(x) for k, x in v.items()})


def stat_vec(v) -> list[str]:
    return [frac_str(v.get(n, 0)) for n in STAT_FIELDS]


def action_vec(flat, rate) -> list[str]:
    d = {"cooltime_reduce": flat, "cooltime_reduce_rate": rate}
    return [frac_str(d.get(n, 0)) for n in ACTION_FIELDS]


def short(v) -> dict:
    return {k: str(x) for k, x in v.items() if x}


def main(ck: Check):
    rng = ck.rng
    quick = ck.tier == "quick"
    lean = ck.locked()
    lean.__enter__()
    ok_gen = ck.regenerate(["core"])
    proved = ok_gen and ck.prove("Simaple.Props.C12")
    if not quick and proved:
        ck.leanchecker(["Simaple.Props.C12"])

    reqs: list[dict] = []
    expect: list[tuple] = []     # (python value | exception name, point, request)

    def add(req, py, what):
        reqs.append(req)
        expect.append((py, what, req))

    def real(f, *a):
        try:
            return f(*a)
        except Exception as e:  # an exception of the real code is a value to compare / report
            return type(e).__name__

    samples = []
    # ============================================================ A. damage logics: model vs code
    n_blocks = 40 if quick else 200
    armors = [0, 100, 250, 300, 380]
    logic_cases = []
    for kind in KINDS:
        cls = getattr(damage_mod, kind)
        for i in range(n_blocks):
            armor = armors[i % len(armors)]
            v = rand_stat(rng, armor, ["dense", "sparse", "small"][i % 3])
            arc = Fraction(rng.randint(80, 240), 100)
            mastery = Fraction(rng.randint(0, 100), 100)
            logic = cls(attack_range_constant=float(arc), mastery=float(mastery))
            S = mk_stat(v)
            logic_cases.append((kind, logic, v, armor, arc, mastery))
            base = {"fn": "logic", "kind": kind, "arc": frac_str(arc), "mastery": frac_str(mastery),
                    "stat": stat_vec(v), "armor": str(armor)}
            for m in METHODS_2:
                add({**base, "m": m}, real(getattr(logic, m), S, armor), f"{kind}.{m}")
            for m in METHODS_1:
                add({**base, "m": m}, real(getattr(logic, m), S), f"{kind}.{m}")
            # DamageCalculator.get_damage
            buff = {k: (x if rng.random() < 0.3 else Fraction(0)) for k, x in rand_stat(rng, armor, "small").items()}
            buff["ignored_defence"] = Fraction(rng.randint(0, 240), 8)
            la, fa = Fraction(rng.randint(0, 120), 100), Fraction(rng.randint(50, 150), 100)
            dmg, hit = Fraction(rng.randint(0, 8000), 8), Fraction(rng.randint(0, 15))
            if i % 3 == 0:       # totals of every magnitude (the model has no ceiling; neither may the code)
                dmg, hit = dmg * 10 ** rng.choice([2, 4, 6]), hit * 10 ** rng.choice([0, 2, 3])
            for tag in ([Tag.DAMAGE, Tag.DOT] if i % 4 else [Tag.DAMAGE, Tag.DOT, Tag.MOB]):
                calc = DamageCalculator(character_spec=S, damage_logic=logic, armor=armor,
                                        level_advantage=float(la), force_advantage=float(fa))
                log = DamageLog(name="x", damage=float(dmg), hit=float(hit), buff=mk_stat(buff), tag=tag)
                add({"fn": "get_damage", "kind": kind, "arc": frac_str(arc), "mastery": frac_str(mastery),
                     "spec": stat_vec(v), "armor": str(armor), "la": frac_str(la), "fa": frac_str(fa),
                     "damage": frac_str(dmg), "hit": frac_str(hit), "buff": stat_vec(buff), "tag": tag},
                    real(calc.get_damage, log), "DamageCalculator.get_damage")
            if i == 0:
                samples.append({"what": f"{kind}.get_damage_factor", "stat": short(v), "armor": armor,
                                "arc": str(arc), "mastery": str(mastery)})

    # ============================================================ B. cooldown: model vs code
    if quick:
        bases = [0, 1, 250, 999, 1000, 1001, 1500, 3000, 4999, 5000, 5001, 7500, 9999, 10000, 10001, 10500,
                 12000, 15000, 20000, 30000, 60000, 90000, 120000, 180000, 240000, 360000, 600000]
        flats = [0, 500, 1000, 2000, 3000, 4000, 5000, 6000, 9999, 10000, 10001, 15000, 20000, 20001, 30000, 45000]
        rates = [0, 1, 2, 3, 4, 5, 6, 8, 10, 20, 33, 50, 75, 90, 99, 100]
    else:
        bases = sorted(set(list(range(0, 12001, 250)) + list(range(15000, 600001, 5000))
                           + [t + d for t in (1000, 5000, 10000, 20000) for d in (-1, 0, 1)] + [1, 600000]))
        flats = sorted(set(list(range(0, 10001, 500)) + [1999, 9999, 10001, 12000, 15000, 19999, 20000, 20001,
                                                           25000, 30000, 45000]))
        rates = sorted(set(list(range(0, 11)) + [12, 15, 20, 25, 33, 40, 50, 60, 75, 80, 90, 95, 99, 100]))
    cd_points = [(Fraction(o), Fraction(f), Fraction(r)) for o in bases for f in flats for r in rates]
    n_rand_cd = 1500 if quick else 30000
    for _ in range(n_rand_cd):
        cd_points.append((Fraction(rng.randint(0, 600000 * 4), 4), Fraction(rng.randint(0, 12000 * 4), 4),
                          Fraction(rng.randint(0, 400), 4)))
    cd_real: dict[tuple, object] = {}

    def cooldown(o, f, r):
        key = (o, f, r)
        if key not in cd_real:
            cd_real[key] = real(ActionStat(cooltime_reduce=float(f), cooltime_reduce_rate=float(r)).calculate_cooldown, float(o))
        return cd_real[key]

    for (o, f, r) in cd_points:
        add({"fn": "cooldown", "a": action_vec(f, r), "cd": frac_str(o)}, cooldown(o, f, r), "ActionStat.calculate_cooldown")
    samples.append({"what": "calculate_cooldown", "original": 12000, "cooltime_reduce": 4000, "cooltime_reduce_rate": 5,
                    "value": cooldown(Fraction(12000), Fraction(4000), Fraction(5))})

    # ============================================================ C. level advantage: model vs code
    la_real = LevelAdvantage()
    lo, hi = (1, 400) if quick else (-100, 700)
    add({"fn": "level_advantage_grid", "lo": str(lo), "hi": str(hi)}, None, "LevelAdvantage.get_advantage grid")
    far = [(rng.randint(-10**6, 10**6), rng.randint(-10**6, 10**6)) for _ in range(50 if quick else 500)]
    far += [(c + g, c) for c in (1, 200, 300, 10**6) for g in range(-8, 45)]
    for (m, c) in far:
        add({"fn": "level_advantage", "mob": str(m), "char": str(c)}, real(la_real.get_advantage, m, c),
            "LevelAdvantage.get_advantage")

    res = ck.driver(reqs)
    lean.__exit__(None, None, None)

    # ---------------------------------------------------------------- compare
    disagreements = 0
    per_point: dict[str, int] = {}
    grid_pairs = 0

    def disagree(what, req, model, py):
        nonlocal disagreements
        disagreements += 1
        if disagreements <= 5:
            ck.broken.append({"kind": "correspondence", "point": what, "request": req, "model": model,
                              "implementation": py})

    level_matrix = None   # real values, row = mob, col = char
    if res is not None:
        for r, (py, what, req) in zip(res, expect):
            per_point[what.split(".")[-1] if "Logic" in what else what] = per_point.get(
                what.split(".")[-1] if "Logic" in what else what, 0) + 1
            if what == "LevelAdvantage.get_advantage grid":
                rows = r.get("ok")
                level_matrix = [[real(la_real.get_advantage, m, c) for c in range(lo, hi + 1)] for m in range(lo, hi + 1)]
                if rows is None or len(rows) != hi - lo + 1:
                    disagree(what, req, r if rows is None else f"{len(rows)} rows", "grid")
                    continue
                for mi, row in enumerate(rows):
                    for ci, cell in enumerate(row):
                        grid_pairs += 1
                        pyv = level_matrix[mi][ci]
                        same = (cell == pyv) if isinstance(pyv, str) or cell == "IndexError" else close(float(parse_frac(cell)), pyv)
                        if not same:
                            disagree("LevelAdvantage.get_advantage", {"mob": lo + mi, "char": lo + ci}, cell, pyv)
                continue
            if isinstance(py, str):            # the real code raised: the model must answer with an error
                agree = "err" in r and (py == r["err"] or (py, r["err"]) == ("ValueError", "ValueError"))
            else:
                agree = "ok" in r and close(float(parse_frac(r["ok"])), py)
            if not agree:
                disagree(what, req, r, py)

    # ============================================================ D. the property on the real code
    checked = 0
    cls_counts = {"damage_pairs": 0, "damage_pairs_strict": 0, "damage_pairs_skipped_negative_armour_term": 0,
                  "single_field_bumps": 0, "linearity": 0, "cooldown_points": 0, "cooldown_pairs_flat": 0,
                  "cooldown_pairs_flat_strict": 0, "cooldown_pairs_rate": 0, "cooldown_pairs_rate_strict": 0,
                  "level_pairs": 0, "level_gaps_distinct": 0}
    n_fail = {"n": 0}

    def fail(item):
        n_fail["n"] += 1
        if n_fail["n"] <= 40:
            ck.add_failing(item)

    # ---- D1 damage factor monotone, per logic
    n_pairs = 150 if quick else 2000
    for kind in KINDS:
        cls = getattr(damage_mod, kind)
        ben = beneficial(kind)
        for i in range(n_pairs):
            armor = rng.choice([0, 50, 100, 200, 250, 300, 380])
            v = rand_stat(rng, armor, ["dense", "sparse", "small", "dense"][i % 4])
            arc, mastery = rng.randint(80, 240) / 100, rng.randint(0, 100) / 100
            logic = cls(attack_range_constant=arc, mastery=mastery)
            S = mk_stat(v)
            if real(logic.get_armor_factor, S, armor) == "TypeError" or not isinstance(logic.get_armor_factor(S, armor), float):
                continue
            if logic.get_armor_factor(S, armor) < 0:
                cls_counts["damage_pairs_skipped_negative_armour_term"] += 1
                continue
            base_val = real(logic.get_damage_factor, S, armor)
            base_dot = real(logic.get_dot_factor, S, armor)
            # (a) every declared field on its own (the unused ones must simply not matter)
            order = STAT_FIELDS if (i % 5 == 0 or not quick) else rng.sample(STAT_FIELDS, 6) + ["ignored_defence"]
            for f in order:
                if f == "ignored_defence" and v[f] >= 100:
                    continue
                w = bump(rng, v, [f])
                W = mk_stat(w)
                cls_counts["single_field_bumps"] += 1
                checked += 1
                for meth, b in (("get_damage_factor", base_val), ("get_dot_factor", base_dot)):
                    val = real(getattr(logic, meth), W, armor)
                    if isinstance(val, str) or isinstance(b, str) or not le_tol(b, val):
                        fail({"claim": f"raising {f} never lowers {meth}", "logic": kind,
                              "attack_range_constant": arc, "mastery": mastery, "armor": armor,
                              "stat": S.short_dict(), "raised_field": f, "from": float(v[f]), "to": float(w[f]),
                              "before": b, "after": val})
            # (b) a random subset of the beneficial fields at once (hypotheses of damage_factor_mono)
            sub = [f for f in ben if rng.random() < 0.5 and not (f == "ignored_defence" and v[f] >= 100)]
            w = bump(rng, v, sub)
            W = mk_stat(w)
            val = real(logic.get_damage_factor, W, armor)
            cls_counts["damage_pairs"] += 1
            checked += 1
            if isinstance(val, str) or isinstance(base_val, str) or not le_tol(base_val, val):
                fail({"claim": "s <= s' on the beneficial fields => get_damage_factor s <= get_damage_factor s'",
                      "logic": kind, "attack_range_constant": arc, "mastery": mastery, "armor": armor,
                      "stat": S.short_dict(), "stat_raised": W.short_dict(), "before": base_val, "after": val})
            elif val > base_val:
                cls_counts["damage_pairs_strict"] += 1
            # (c) get_damage linear in damage% and in hit count
            calc = DamageCalculator(character_spec=S, damage_logic=logic, armor=armor,
                                    level_advantage=rng.randint(0, 120) / 100, force_advantage=rng.randint(50, 150) / 100)
            d1, d2, h1, h2 = rng.randint(1, 900), rng.randint(1, 900), rng.randint(1, 12), rng.randint(1, 12)
            a, b_ = rng.randint(0, 7), rng.randint(0, 7)
            tag = Tag.DAMAGE if i % 2 else Tag.DOT
            L = lambda d, h: real(calc.get_damage, DamageLog(name="x", damage=float(d), hit=float(h), buff=Stat(), tag=tag))
            cls_counts["linearity"] += 1
            checked += 1
            vals = [L(d1, h1), L(d2, h1), L(a * d1 + b_ * d2, h1), L(d1, h2), L(d1, a * h1 + b_ * h2)]
            if any(isinstance(x, str) for x in vals):
                fail({"claim": "get_damage answers for DAMAGE/DOT logs", "logic": kind, "tag": tag, "values": vals})
            else:
                if not close(vals[2], a * vals[0] + b_ * vals[1]):
                    fail({"claim": "get_damage linear in damage%", "logic": kind, "tag": tag, "stat": S.short_dict(),
                          "armor": armor, "d1": d1, "d2": d2, "a": a, "b": b_, "hit": h1, "values": vals[:3]})
                if not close(vals[4], a * vals[0] + b_ * vals[3]):
                    fail({"claim": "get_damage linear in hit count", "logic": kind, "tag": tag, "stat": S.short_dict(),
                          "armor": armor, "h1": h1, "h2": h2, "a": a, "b": b_, "damage": d1,
                          "values": [vals[0], vals[3], vals[4]]})

                # ... at every magnitude: no ceiling, floor or switch of regime as the totals grow or shrink
                for k in (1000, 10 ** 6, 10 ** 9, Fraction(1, 1000)):
                    big_d, big_h = L(float(d1 * k), h1), L(d1, float(h1 * k))
                    cls_counts["linearity"] += 1
                    if isinstance(big_d, str) or not close(big_d, float(k) * vals[0]):
                        fail({"claim": "get_damage linear in damage% (large / small multiples)", "logic": kind, "tag": tag,
                              "stat": S.short_dict(), "armor": armor, "damage": d1, "hit": h1, "multiple": str(k),
                              "values": [vals[0], big_d]})
                    if isinstance(big_h, str) or not close(big_h, float(k) * vals[0]):
                        fail({"claim": "get_damage linear in hit count (large / small multiples)", "logic": kind, "tag": tag,
                              "stat": S.short_dict(), "armor": armor, "damage": d1, "hit": h1, "multiple": str(k),
                              "values": [vals[0], big_h]})

            # (d) one calculator answering a sequence of logs with different buffs: every answer equals that of a
            #     fresh calculator (no dependence on earlier logs), and raising a beneficial buff field never lowers it
            mk_calc = lambda: DamageCalculator(character_spec=S, damage_logic=logic, armor=armor,
                                               level_advantage=calc.level_advantage, force_advantage=calc.force_advantage)
            shared = mk_calc()
            fields = [f for f in ben if f != "ignored_defence"]
            rng.shuffle(fields)
            val0 = float(rng.choice([10, 20, 40, 12.5]))
            seq_buffs = []
            for f in fields[:3]:
                seq_buffs += [Stat(**{f: val0}), Stat(**{f: val0 + 5})]
            seq_buffs += [Stat(), Stat(**{fields[0]: val0, fields[1]: val0}), Stat(**{fields[1]: val0, fields[0]: val0 + 5})]
            prev = {}
            for bi, buff in enumerate(seq_buffs):
                log = DamageLog(name="x", damage=float(d1), hit=float(h1), buff=buff, tag=tag)
                got, want = real(shared.get_damage, log), real(mk_calc().get_damage, log)
                cls_counts["sequence_logs"] = cls_counts.get("sequence_logs", 0) + 1
                checked += 1
                if isinstance(got, str) or isinstance(want, str) or not close(got, want):
                    fail({"claim": "get_damage of a log does not depend on the logs the calculator answered before",
                          "logic": kind, "tag": tag, "stat": S.short_dict(), "armor": armor,
                          "buffs_before": [b.short_dict() for b in seq_buffs[:bi]], "buff": buff.short_dict(),
                          "reused_calculator": got, "fresh_calculator": want})
                    break
                key = tuple(sorted(k for k in buff.short_dict()))
                if len(key) == 1 and key in prev and not le_tol(prev[key], got):
                    fail({"claim": "raising a beneficial buff field never lowers get_damage", "logic": kind, "tag": tag,
                          "stat": S.short_dict(), "armor": armor, "buff": buff.short_dict(), "before": prev[key], "after": got})
                prev[key] = got

    # ---- D2 cooldown: bounds, floors, antitone in flat and in rate (grid neighbours + random ordered pairs)
    def cd_claims(o, f, r):
        v = cooldown(o, f, r)
        inp = {"original_cooldown": float(o), "cooltime_reduce": float(f), "cooltime_reduce_rate": float(r)}
        if isinstance(v, str):
            fail({"claim": "calculate_cooldown answers", **inp, "observed": v}); return None
        p = float(o) * (1 - 0.01 * float(r))
        cd = min(float(o), 1000) if p <= 1000 else p
        if not le_tol(v, float(o)):
            fail({"claim": "cooldown <= base cooldown", **inp, "observed": v})
        if not le_tol(min(cd, 5000), v):
            fail({"claim": "cooldown >= min(cd after percent stage, 5000)", **inp, "cd": cd, "observed": v})
        if not le_tol(min(float(o), 1000), v):
            fail({"claim": "cooldown >= min(base, 1000)", **inp, "observed": v})
        if cd <= 5000 and not close(v, cd):
            fail({"claim": "a cooldown already <= 5 s after the percent stage is used as it is", **inp, "cd": cd, "observed": v})
        return v

    def cd_pair(o, f, r, f2, r2, which):
        v, v2 = cooldown(o, f, r), cooldown(o, f2, r2)
        if isinstance(v, str) or isinstance(v2, str):
            return
        cls_counts[f"cooldown_pairs_{which}"] += 1
        if not le_tol(v2, v):
            fail({"claim": f"more cooltime_reduce{'_rate' if which == 'rate' else ''} never gives a longer cooldown",
                  "original_cooldown": float(o), "cooltime_reduce": [float(f), float(f2)],
                  "cooltime_reduce_rate": [float(r), float(r2)], "cooldown": [v, v2]})
        elif v2 < v:
            cls_counts[f"cooldown_pairs_{which}_strict"] += 1

    for (o, f, r) in cd_points:
        cls_counts["cooldown_points"] += 1
        checked += 1
        cd_claims(o, f, r)
    for o in bases:
        for r in rates:
            for f, f2 in zip(flats, flats[1:]):
                cd_pair(Fraction(o), Fraction(f), Fraction(r), Fraction(f2), Fraction(r), "flat")
        for f in flats:
            for r, r2 in zip(rates, rates[1:]):
                cd_pair(Fraction(o), Fraction(f), Fraction(r), Fraction(f), Fraction(r2), "rate")
    for _ in range(n_rand_cd):
        o = Fraction(rng.randint(0, 600000 * 4), 4)
        f = Fraction(rng.randint(0, 30000 * 4), 4); r = Fraction(rng.randint(0, 400), 4)
        f2 = f + Fraction(rng.randint(0, 20000 * 4), 4)
        r2 = min(Fraction(100), r + Fraction(rng.randint(0, 400), 4))
        cd_pair(o, f, r, f2, r, "flat")
        cd_pair(o, f, r, f, r2, "rate")
    checked += cls_counts["cooldown_pairs_flat"] + cls_counts["cooldown_pairs_rate"]

    # ---- D3 level advantage: defined, in [0, 1.2], antitone in the gap, for every pair of the grid
    if level_matrix is None:
        level_matrix = [[real(la_real.get_advantage, m, c) for c in range(lo, hi + 1)] for m in range(lo, hi + 1)]
    gaps = set()
    n = hi - lo + 1
    for mi in range(n):
        row = level_matrix[mi]
        for ci in range(n):
            x = row[ci]
            cls_counts["level_pairs"] += 1
            gaps.add(mi - ci)
            inp = {"call": "LevelAdvantage().get_advantage", "mob_level": lo + mi, "character_level": lo + ci}
            if isinstance(x, str):
                fail({"claim": "level advantage defined for every pair of levels", **inp, "observed": x,
                      "expected": "a value in [0, 1.2]"})
                continue
            if not (0 <= x <= 1.2):
                fail({"claim": "level advantage in [0, 1.2]", **inp, "observed": x})
            if mi + 1 < n and not isinstance(level_matrix[mi + 1][ci], str) and level_matrix[mi + 1][ci] > x:
                fail({"claim": "level advantage never increases as the monster out-levels the character", **inp,
                      "observed": x, "one_mob_level_higher": level_matrix[mi + 1][ci]})
            if ci + 1 < n and not isinstance(row[ci + 1], str) and row[ci + 1] < x:
                fail({"claim": "level advantage never decreases as the character out-levels the monster", **inp,
                      "observed": x, "one_character_level_higher": row[ci + 1]})
    for (m, c) in far:
        x = real(la_real.get_advantage, m, c)
        cls_counts["level_pairs"] += 1
        if isinstance(x, str) or not (0 <= x <= 1.2):
            fail({"claim": "level advantage defined and in [0, 1.2]", "call": "LevelAdvantage().get_advantage",
                  "mob_level": m, "character_level": c, "observed": x})
    cls_counts["level_gaps_distinct"] = len(gaps)
    checked += cls_counts["level_pairs"]
    samples.append({"what": "get_advantage", "mob_level": 241, "character_level": 200,
                    "value": real(la_real.get_advantage, 241, 200)})

    nontrivial = (cls_counts["damage_pairs_strict"] + cls_counts["cooldown_pairs_flat_strict"]
                  + cls_counts["cooldown_pairs_rate_strict"] + cls_counts["level_gaps_distinct"])
    ck.coverage.update({
        "evaluations": len(reqs) + grid_pairs + checked,
        "distinct_nontrivial": nontrivial,
        "rule": "damage: seeded random non-negative stat blocks on a 1/8 grid (dense / sparse / small; critical rate and "
                "elemental resistance up to above their caps; final damage -50..150; armour 0..380 with defence-ignore "
                "high enough for a non-negative armour term, the rest skipped and counted) for all five logic classes; "
                "every generated method evaluated by the Lean driver and by the real method (rel. tol. 1e-9); on the real "
                "code every declared stat field raised on its own and random subsets of the beneficial fields raised "
                "together; get_damage linear in damage% and hits.  cooldown: full grid base x flat x percent including "
                "1000/5000/10000/20000 +-1 plus random quarter-ms points, model vs code and <= base, floors, antitone in "
                "flat and in percent on neighbouring grid values and random ordered pairs.  level advantage: every pair of "
                f"levels {lo}..{hi} exhaustively (model grid vs real function; defined, in [0,1.2], antitone against both "
                "neighbours) plus far-apart random pairs.  distinct_nontrivial = ordered pairs with a strict change "
                "(damage, cooldown) + distinct level gaps",
        "samples": samples,
        "model_vs_code_requests": len(reqs) + grid_pairs,
        "model_vs_code_disagreements": disagreements,
        "per_point": per_point,
        "classes": cls_counts,
        "level_grid": [lo, hi],
        "property_failures_on_real_code": n_fail["n"],
    })
    ck.assumptions += [
        "floats are modelled by exact rationals; implementation comparisons use relative tolerance 1e-9 (all three "
        "functions are continuous at their thresholds, so rounding at a threshold cannot flip a verdict)",
        "py2lean translator (tools/py2lean) is trusted to preserve the meaning of the translated subset; it is "
        "cross-checked on every run by evaluating every generated definition against the Python original",
        "Model/DamageCalc.lean (get_damage) is hand-written and compared with DamageCalculator.get_damage on every run",
        "damage_factor_mono hypotheses: fields read by the logic >= 0 at the smaller block (final damage >= -100), "
        "armor >= 0, attack_range_constant >= 0, mastery >= -1, armour term of the smaller block >= 0",
    ]
    ck.finish("proof",
              trusted_base=["Lean 4.33 kernel", "axioms: propext, Classical.choice, Quot.sound (checked by #print axioms)",
                            "Mathlib order/field lemmas, linarith/nlinarith/positivity/ring/norm_num, decide +kernel on the table",
                            "py2lean translator (validated by the self-check in this run)",
                            "CPython float arithmetic ~ exact rationals within 1e-9 on the sampled inputs"],
              checker_cmd="cd lean && lake build Simaple.Props.C12 && lake env lean Simaple/Audit/C12.lean")


if __name__ == "__main__":
    run_check("C12", main)
