"""Shared machinery of every check: regenerate -> prove -> audit -> correspond -> verdict -> evidence.

Run with /venv/bin/python (imports simaple from /repo).  See DESIGN.md 1.1.
"""
from __future__ import annotations

import fcntl
import json
import os
import random
import re
import subprocess
import sys
import time
import traceback
from fractions import Fraction
from pathlib import Path
from typing import Any, Callable, Iterable, Optional

VERIF = Path(__file__).resolve().parent.parent
REPO = Path(os.environ.get("VERIF_REPO", "/repo"))
LEAN = VERIF / "lean"
PY2LEAN = VERIF / "tools" / "py2lean"
ALLOWED_AXIOMS = {"propext", "Classical.choice", "Quot.sound"}
FORBIDDEN_RE = re.compile(
    r"\bsorry\b|\badmit\b|^\s*axiom\s|native_decide|bv_decide|implemented_by|\bunsafe\s|maxHeartbeats\s+0\b",
    re.M,
)

sys.path.insert(0, str(PY2LEAN))


class Timeout(Exception):
    pass


def strip_lean_comments(src: str) -> str:
    # nested block comments and line comments
    out = []
    i, depth, n = 0, 0, len(src)
    while i < n:
        if src.startswith("/-", i):
            depth += 1
            i += 2
        elif depth and src.startswith("-/", i):
            depth -= 1
            i += 2
        elif depth:
            i += 1
        elif src.startswith("--", i):
            j = src.find("\n", i)
            i = n if j < 0 else j
        else:
            out.append(src[i])
            i += 1
    return "".join(out)


def frac_str(x) -> str:
    fr = Fraction(x)
    return f"{fr.numerator}/{fr.denominator}"


def parse_frac(s: str) -> Fraction:
    a, _, b = s.partition("/")
    return Fraction(int(a), int(b or "1"))


class Check:
    def __init__(self, pid: str, tier: str, seed: int):
        self.pid = pid
        self.tier = tier
        self.seed = seed
        self.rng = random.Random(f"{pid}:{seed}")
        self.t0 = time.time()
        self.notes: list[str] = []
        self.coverage: dict[str, Any] = {}
        self.assumptions: list[str] = []
        self.violations = 0
        self.known_lines: list[str] = []
        self.proof_status: dict[str, Any] = {}
        self.known = json.loads((VERIF / "known_findings.json").read_text())["findings"]
        self.budget_s = float(os.environ.get("VERIF_BUDGET_S", "110" if tier == "quick" else "840"))
        self.replay_dir = VERIF / "replays" / pid
        self.broken: list[dict] = []      # proof obligations / correspondence points that no longer check
        self.failing: list[dict] = []     # concrete failing inputs of the property on the real code

    # ------------------------------------------------------------------ time
    def elapsed(self) -> float:
        return time.time() - self.t0

    def time_left(self) -> float:
        return self.budget_s - self.elapsed()

    # ------------------------------------------------------------------ lean
    def _lock(self):
        """reentrant exclusive lock on the Lean project (generated sources + build output are shared by
        all checks; a check holds it from regeneration until its last driver run: `with ck.locked():`)"""
        ck = self

        class _L:
            def close(self_inner):
                ck._lock_depth -= 1
                if ck._lock_depth == 0:
                    ck._lock_file.close()
                    ck._lock_file = None
        if getattr(self, "_lock_depth", 0) == 0:
            self._lock_file = open(LEAN / ".verif.lock", "w")
            fcntl.flock(self._lock_file, fcntl.LOCK_EX)
            self._lock_depth = 0
        self._lock_depth += 1
        return _L()

    def locked(self):
        import contextlib

        @contextlib.contextmanager
        def cm():
            l = self._lock()
            try:
                yield
            finally:
                l.close()
        return cm()

    def regenerate(self, generators: Iterable[str]) -> bool:
        """run the named generators (tools/py2lean/gen_<name>.py); write-if-changed; returns False if
        a generator refused the source (outside its subset)."""
        ok = True
        lock = self._lock()
        try:
            for g in generators:
                mod = __import__(f"gen_{g}")
                target = LEAN / "Simaple" / "Gen" / mod.TARGET if hasattr(mod, "TARGET") else None
                try:
                    text = mod.generate(REPO)
                except Exception as e:  # Unsupported or a parse problem: no definition is emitted
                    ok = False
                    self.broken.append({"kind": "translator", "generator": g,
                                        "error": f"{type(e).__name__}: {e}"})
                    continue
                target = LEAN / "Simaple" / "Gen" / mod.TARGET
                old = target.read_text() if target.exists() else None
                if old != text:
                    tmp = target.with_suffix(".tmp")
                    tmp.write_text(text)
                    os.replace(tmp, target)
        finally:
            lock.close()
        self.proof_status["regenerated"] = list(generators)
        return ok

    def lake_build(self, modules: list[str], timeout: float = 900) -> tuple[bool, str]:
        lock = self._lock()
        try:
            p = subprocess.run(["lake", "build", *modules], cwd=LEAN, capture_output=True, text=True,
                               timeout=timeout)
        finally:
            lock.close()
        return p.returncode == 0, p.stdout + p.stderr

    def theorems_of(self, module: str) -> list[str]:
        path = LEAN / (module.replace(".", "/") + ".lean")
        src = strip_lean_comments(path.read_text())
        stack: list[str] = []
        out = []
        for line in src.splitlines():
            m = re.match(r"^\s*namespace\s+(\S+)", line)
            if m:
                stack.append(m.group(1))
                continue
            m = re.match(r"^\s*end\s+(\S+)", line)
            if m and stack and stack[-1] == m.group(1):
                stack.pop()
                continue
            m = re.match(r"^\s*(?:protected\s+|private\s+)?theorem\s+([^\s:({\[]+)", line)
            if m:
                out.append(".".join(stack + [m.group(1)]))
        return out

    def prove(self, module: str, extra_modules: list[str] = ()) -> bool:
        """lake build of the property module; axiom audit of each of its theorems; forbidden-token grep
        over every non-generated Lean source the module depends on.  Records obligations/discharged."""
        # a property's theorems may be spread over part files Simaple/Props/Cxx_<part>.lean
        base = LEAN / (module.replace(".", "/") + ".lean")
        parts = [module + "_" + f.stem.split("_", 1)[1] for f in sorted(base.parent.glob(base.stem + "_*.lean"))]
        extra_modules = list(extra_modules) + parts
        thms = []
        for m in [module, *parts]:
            thms.extend(self.theorems_of(m))
        self.proof_status.update({"module": module, "part_modules": parts, "obligations": len(thms), "discharged": 0,
                                  "theorems": thms})
        ok, log = self.lake_build([module, *extra_modules])
        if not ok:
            errs = re.findall(r"^error: (\S+\.lean):(\d+):(\d+): (.*)$", log, re.M)
            failing = self._theorems_at(errs)
            self.broken.append({"kind": "proof", "module": module,
                                "failing_theorems": failing,
                                "errors": [f"{f}:{l}:{c}: {m}" for f, l, c, m in errs[:8]],
                                "log_tail": log[-1500:]})
            self.proof_status["build"] = "failed"
            return False
        self.proof_status["build"] = "ok"
        # forbidden tokens, over the import closure of the property module and of the driver
        bad = []
        for f in self.import_closure([module, *extra_modules, "Simaple.Model.All"]) + [LEAN / "Driver.lean"]:
            if not f.exists():
                continue
            m = FORBIDDEN_RE.search(strip_lean_comments(f.read_text()))
            if m:
                bad.append(f"{f.relative_to(LEAN)}: {m.group(0).strip()}")
        if bad:
            self.broken.append({"kind": "audit", "forbidden_tokens": bad})
            return False
        # axioms
        audit = LEAN / "Simaple" / "Audit" / (module.split(".")[-1] + ".lean")
        audit.parent.mkdir(exist_ok=True)
        audit.write_text("".join(f"import {m}\n" for m in [module, *parts]) + "".join(f"#print axioms {t}\n" for t in thms))
        lock = self._lock()
        try:
            p = subprocess.run(["lake", "env", "lean", str(audit.relative_to(LEAN))], cwd=LEAN,
                               capture_output=True, text=True, timeout=600)
        finally:
            lock.close()
        out = p.stdout + p.stderr
        axioms: dict[str, list[str]] = {}
        for m in re.finditer(r"'([^']+)' depends on axioms: \[([^\]]*)\]", out, re.S):
            axioms[m.group(1)] = [a.strip() for a in m.group(2).replace("\n", " ").split(",") if a.strip()]
        for m in re.finditer(r"'([^']+)' does not depend on any axioms", out):
            axioms[m.group(1)] = []
        discharged = 0
        for t in thms:
            if t not in axioms:
                self.broken.append({"kind": "audit", "theorem": t, "error": "not found in environment",
                                    "log_tail": out[-600:]})
            elif not set(axioms[t]) <= ALLOWED_AXIOMS:
                self.broken.append({"kind": "audit", "theorem": t, "axioms": axioms[t]})
            else:
                discharged += 1
        self.proof_status["discharged"] = discharged
        self.proof_status["axioms_used"] = sorted({a for v in axioms.values() for a in v})
        return discharged == len(thms) and p.returncode == 0

    def import_closure(self, modules: list[str]) -> list[Path]:
        """the Simaple.* source files a module depends on (transitively), including itself"""
        seen: dict[str, Path] = {}
        todo = list(modules)
        while todo:
            m = todo.pop()
            if m in seen or not m.startswith("Simaple"):
                continue
            path = LEAN / (m.replace(".", "/") + ".lean")
            if not path.exists():
                continue
            seen[m] = path
            for imp in re.findall(r"^import\s+(\S+)", path.read_text(), re.M):
                todo.append(imp)
        return sorted(seen.values())

    def _theorems_at(self, errs) -> list[str]:
        res = []
        for f, l, _c, _m in errs:
            path = LEAN / f
            if not path.exists():
                continue
            lines = path.read_text().splitlines()
            for i in range(min(int(l), len(lines)) - 1, -1, -1):
                m = re.match(r"\s*(?:theorem|lemma|def|example)\s+([^\s:({\[]+)", lines[i])
                if m:
                    name = f"{f}:{m.group(1)}"
                    if name not in res:
                        res.append(name)
                    break
        return res

    def leanchecker(self, modules: list[str]) -> bool:
        lock = self._lock()
        try:
            p = subprocess.run(["lake", "env", "leanchecker", *modules], cwd=LEAN, capture_output=True,
                               text=True, timeout=1500)
        finally:
            lock.close()
        self.proof_status["leanchecker"] = "ok" if p.returncode == 0 else (p.stdout + p.stderr)[-500:]
        if p.returncode != 0:
            self.broken.append({"kind": "leanchecker", "modules": modules, "log_tail": (p.stdout + p.stderr)[-800:]})
        return p.returncode == 0

    def driver(self, requests: list[dict], timeout: float = 600) -> Optional[list[dict]]:
        """run the Lean model on the requests (one JSON per line in, one per line out)"""
        if not requests:
            return []
        # the driver imports every generated module: make sure each exists (normally setup.sh has run them all)
        missing = []
        for g in sorted(PY2LEAN.glob("gen_*.py")):
            mod = __import__(g.stem)
            if hasattr(mod, "TARGET") and not (LEAN / "Simaple" / "Gen" / mod.TARGET).exists():
                missing.append(g.stem[4:])
        if missing:
            self.regenerate(missing)
        ok, log = self.lake_build(["Simaple.Model.All"])
        if not ok:
            self.broken.append({"kind": "model-build", "log_tail": log[-1500:]})
            return None
        inp = "\n".join(json.dumps(r, ensure_ascii=False) for r in requests) + "\n"
        if os.environ.get("VERIF_DUMP_REQS"):       # debugging aid: keep the request stream
            Path(os.environ["VERIF_DUMP_REQS"]).write_text(inp)
        p = subprocess.run(["lake", "env", "lean", "--run", "Driver.lean"], cwd=LEAN, input=inp,
                           capture_output=True, text=True, timeout=timeout)
        lines = [l for l in p.stdout.splitlines() if l.strip()]
        if p.returncode != 0 or len(lines) != len(requests):
            self.broken.append({"kind": "driver", "returncode": p.returncode, "expected": len(requests),
                                "got": len(lines), "stderr": p.stderr[-1500:]})
            return None
        return [json.loads(l) for l in lines]

    def effect_entries(self, prop_no: int, theorem: str) -> Optional[list]:
        """the rows of Gen/Effects.lean `pureTable` that belong to this property, evaluated by the model's checker; a row
        the checker rejects (or whose result is not derived new although it must be) is recorded as a broken obligation"""
        res = self.driver([{"fn": "pure_table"}])
        if res is None or "ok" not in res[0]:
            if res is not None:
                self.broken.append({"kind": "driver", "answer": res[0]})
            return None
        rows = [r for r in res[0]["ok"] if r["prop"] == prop_no]
        for r in rows:
            if not r["wellFormed"]:
                self.broken.append({"kind": "proof", "theorem": theorem, "entry": r["name"],
                                    "what": "the effect checker rejects the program generated from this method: it may write "
                                            "an object that existed before the call"})
            elif r["mustReturnNew"] and r["resultNew"] is False:
                self.broken.append({"kind": "proof", "theorem": theorem, "entry": r["name"],
                                    "what": "the result is not derived to be a new object: it may be one of the operands"})
        return rows

    # ------------------------------------------------------------------ verdict
    def match_known(self, item: dict) -> Optional[dict]:
        for k in self.known:
            if k.get("status") != "known" or k.get("property") != self.pid:
                continue
            key = k.get("match", {})
            if key and all(str(item.get(a)) == str(b) or (isinstance(b, list) and item.get(a) in b)
                           for a, b in key.items()):
                return k
        return None

    def add_failing(self, item: dict):
        """a concrete input on which the property fails on the real code"""
        k = self.match_known(item)
        if k is not None:
            line = f"KNOWN-FINDING: property={self.pid} {k['id']} {k['what']}"
            if line not in self.known_lines:
                self.known_lines.append(line)
            return
        self.failing.append(item)

    def finish(self, level: str, trusted_base: list[str], checker_cmd: str, explanation: str = ""):
        """decide, write evidence and replay, print the verdict lines, exit."""
        wall = self.elapsed()
        allowed = ("exploration", "fault_enumeration", "model_checking", "proof", "translation_validation", "other")
        if level not in allowed:           # the evidence schema's enum
            level = "proof" if "proof" in level else "other"
        cov = dict(self.coverage)
        cov.setdefault("evaluations", 0)
        cov.setdefault("distinct_nontrivial", 0)
        cov.setdefault("rule", "")
        cov.setdefault("samples", [])
        cov["obligations"] = self.proof_status.get("obligations", 0)
        cov["discharged"] = self.proof_status.get("discharged", 0)
        if cov["discharged"] < 1 or cov["obligations"] < 1:
            # schema: proof-level keys need >= 1; a run whose proofs did not build reports them under other names
            cov["obligations_total"] = cov.pop("obligations")
            cov["discharged_count"] = cov.pop("discharged")
        cov["checker_cmd"] = checker_cmd
        cov["trusted_base"] = trusted_base
        cov["proof_status"] = self.proof_status
        if explanation:
            cov["explanation"] = explanation
        cov["known_findings_reported"] = self.known_lines
        cov["notes"] = self.notes
        rc = 0
        out_lines = list(self.known_lines)
        if self.failing or self.broken:
            rc = 1
            self.replay_dir.mkdir(parents=True, exist_ok=True)
            n = len(list(self.replay_dir.glob("*.json")))
            path = self.replay_dir / f"{n:03d}.json"
            replay = {"property": self.pid, "tier": self.tier, "seed": self.seed,
                      "failing_inputs": self.failing[:20], "no_longer_checks": self.broken[:20]}
            path.write_text(json.dumps(replay, indent=1, ensure_ascii=False, default=str))
            rel = path.relative_to(VERIF)
            if self.failing:
                out_lines.append(f"VIOLATION property={self.pid} replay={rel}")
            else:
                out_lines.append(f"VIOLATION property={self.pid} replay={rel} no-failing-input-found")
        ev = {"property_id": self.pid, "tier": self.tier, "seed": self.seed, "level": level,
              "coverage": cov, "assumptions": self.assumptions, "wall_s": round(wall, 2),
              "violations": len(self.failing) + (1 if self.broken and not self.failing else 0)}
        (VERIF / "evidence").mkdir(exist_ok=True)
        (VERIF / "evidence" / f"{self.pid}.json").write_text(
            json.dumps(ev, indent=1, ensure_ascii=False, default=str))
        for l in out_lines:
            print(l)
        print(f"[{self.pid}] tier={self.tier} seed={self.seed} wall={wall:.1f}s obligations="
              f"{self.proof_status.get('obligations', 0)} discharged={self.proof_status.get('discharged', 0)} evaluations={cov['evaluations']} "
              f"failing={len(self.failing)} broken={len(self.broken)} exit={rc}")
        sys.exit(rc)


def pmap(fn, args_list, budget_s: float, workers: Optional[int] = None):
    """run fn(*args) for every args in a process pool (fn must be a module-level function); yields
    (args, result) as they complete; stops handing out results when the budget is over (pending work is
    cancelled).  Exceptions in a worker propagate (a crashed harness is exit 2, never a verdict)."""
    import concurrent.futures as cf
    workers = workers or min(16, os.cpu_count() or 4)
    t0 = time.time()
    with cf.ProcessPoolExecutor(max_workers=workers) as ex:
        futs = {ex.submit(fn, *a): a for a in args_list}
        try:
            for f in cf.as_completed(futs, timeout=max(1.0, budget_s)):
                yield futs[f], f.result()
        except cf.TimeoutError:
            for f in futs:
                f.cancel()
            yield None, {"budget_exhausted": True, "done": sum(1 for f in futs if f.done()), "total": len(futs)}


def run_check(pid: str, main: Callable[[Check], None]):
    args = [a for a in sys.argv[1:]]
    tier = os.environ.get("VERIF_TIER", "quick")
    replay = None
    i = 0
    while i < len(args):
        if args[i] in ("quick", "thorough"):
            tier = args[i]
        elif args[i] == "--replay":
            replay = args[i + 1]
            i += 1
        i += 1
    seed = int(os.environ.get("VERIF_SEED", "0"))
    if replay is not None:
        # every random choice of a check derives from (property, seed): re-running the recorded tier with the
        # recorded seed re-executes the recorded failing inputs (they are printed first for the reader)
        rp = Path(replay)
        if not rp.is_absolute():
            rp = VERIF / rp
        rec = json.loads(rp.read_text())
        tier, seed = rec.get("tier", tier), int(rec.get("seed", seed))
        print(f"[{pid}] replaying {rp} (tier={tier}, seed={seed}); recorded failing inputs:")
        for f in rec.get("failing_inputs", [])[:5]:
            print("  ", json.dumps(f, ensure_ascii=False, default=str)[:600])
        for b in rec.get("no_longer_checks", [])[:5]:
            print("   no longer checks:", json.dumps(b, ensure_ascii=False, default=str)[:400])
    ck = Check(pid, tier, seed)
    ck.replay = replay
    try:
        main(ck)
    except SystemExit:
        raise
    except subprocess.TimeoutExpired as e:
        print(f"[{pid}] TIMEOUT: {e}", file=sys.stderr)
        sys.exit(2)
    except Exception:
        traceback.print_exc()
        print(f"[{pid}] harness crashed (exit 2, not a verdict)", file=sys.stderr)
        sys.exit(2)
