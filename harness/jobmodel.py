"""End-to-end correspondence: a WHOLE job (all installed component dispatchers + timer + play + the command
handlers) run by the Lean model `Simaple/Model/JobRunner.lean` (driver fn `job_run`) against the real engine.

  export_job(job, variant)      -> the job description the model needs (read off the REAL built engine)
  run_real(job, variant, cmds)  -> canonical per-play records of the real run
  model_request(job, variant, cmds) / compare(ck, ...) -> driver request / play-by-play diff

Canonical forms (independent of float printing): times are grid integers (2^-10 ms, complib.units), other numbers
exact rationals "num/den" (complib.ratq); a modifier is the opaque token simlib.canon(dump) on both sides.
"""
from __future__ import annotations

import json
import types
from fractions import Fraction
from typing import Any, Optional

import complib
import simlib
from complib import OffGrid, ratq, units
from simlib import canon, command_text, make_engine

from simaple.simulate.base import Checkpoint
from simaple.simulate.component.base import ReducerMethodWrappingDispatcher
from simaple.simulate.reserved_names import Tag
from simaple.simulate.timer import timer_delay_dispatcher

class MappingMismatch(Exception):
    pass


PENDING = ".previous_callbacks"
CLOCK = "global.time"
DYNAMICS = "global.dynamics"


# ------------------------------------------------------------------ canonical payloads / events / actions
def _num(x) -> Any:
    if isinstance(x, bool) or x is None or isinstance(x, str):
        return x
    if isinstance(x, (int, float)):
        return ratq(x)
    if isinstance(x, dict):
        return {k: _num(v) for k, v in x.items()}
    if isinstance(x, (list, tuple)):
        return [_num(v) for v in x]
    raise TypeError(type(x))


def canon_payload(tag: Optional[str], payload) -> str:
    """the canonical text of an event payload (what `Simaple.JobRunner.payloadOf` builds from the model's
    reducer event shapes); relayed callback actions carry the same text"""
    if not isinstance(payload, dict):
        raise TypeError(f"event payload {payload!r}")
    if tag in (Tag.ELAPSED, Tag.DELAY) and set(payload) == {"time"}:
        return canon({"time": units(payload["time"])})
    if tag == Tag.DAMAGE and set(payload) == {"damage", "hit", "modifier"}:
        m = payload["modifier"]
        return canon({"damage": ratq(payload["damage"]), "hit": ratq(payload["hit"]),
                      "modifier": None if m is None else canon(m)})
    if tag == Tag.MOB and set(payload) == {"damage", "lasting_time", "name"}:
        return canon({"damage": ratq(payload["damage"]), "lasting_time": units(payload["lasting_time"]),
                      "name": payload["name"]})
    return canon(_num(payload))


def enc_event(e) -> dict:
    payload = e.get("payload") or {}
    t = payload.get("time") if isinstance(payload, dict) else None
    return {"name": e["name"], "method": e["method"], "tag": e.get("tag") or "", "handler": e.get("handler") or "",
            "payload": canon_payload(e.get("tag"), payload), "time": None if t is None else simlib.frac(t)}


def enc_action(a, tag_of_payload: Optional[str] = None) -> dict:
    p = a["payload"]
    if p is None:
        ep = None
    elif isinstance(p, (int, float)) and not isinstance(p, bool):
        ep = simlib.frac(p)
    else:
        ep = canon_payload(tag_of_payload, p)
    return {"name": a["name"], "method": a["method"], "payload": ep}


def _callback_tag(action) -> Optional[str]:
    """the tag of the event a callback action was derived from: `<method>.emitted.<tag>` / `<method>.done.<tag>`"""
    m = action["method"]
    for sep in (".emitted.", ".done."):
        if sep in m:
            return m.split(sep, 1)[1] or None
    return None


# ------------------------------------------------------------------ entities / stores
def enc_store_entity(addr: str, ent) -> Any:
    cls = type(ent).__name__
    if cls == "Dynamics":
        return "dynamics"
    if cls == "Clock":
        return simlib.frac(ent.current_time)
    if cls == "PreviousCallback":
        return [[enc_action(a, _callback_tag(a)), enc_action(b, _callback_tag(b))] for (a, b) in ent.events]
    return complib.enc_entity(ent)


def enc_store(ckpt_dict: dict) -> dict:
    store = Checkpoint(store_ckpt=ckpt_dict).restore()
    return {addr: enc_store_entity(addr, ent) for addr, ent in store._concrete_store._entities.items()}


# ------------------------------------------------------------------ job description
def _owner(base: ReducerMethodWrappingDispatcher, viewset):
    """the component object behind an installed dispatcher (through its reducer wrappers; a component without
    reducers -- AlwaysEnabledComponent -- through its views)"""
    owners = {id(w._func.__self__): w._func.__self__ for w in base.reducer_mappings.values()}
    if not owners:
        for vname, view in viewset._views.items():
            w = getattr(view, "_wrapped_view_method", None)
            if w is not None and getattr(view, "_name", None) == base._name:
                owners[id(w._func.__self__)] = w._func.__self__
    assert len(owners) <= 1, "one dispatcher, one component"
    return next(iter(owners.values())) if owners else None     # no reducers, no views: never dispatched


def _job_params(comp, state, components) -> dict:
    """complib.params_of on the component with its bound entities of the INITIAL store, made independent of
    the state where the per-call harvest computes a parameter from the current state:
      * tables indexed by a divine mark: the marks the job can set are the `mark_advantage` of its DivineMinions
      * MobComponent.float_text: not used (the runner builds DOT payloads in canonical form itself)
      * ChainLightningVI `prob`: the exact value of the float `electric_current_prob`; the float addition
        `stable_rng_counter += prob` is modelled by the runner (`JobRunner.fadd`)"""
    cls = type(comp).__name__
    if cls == "MobComponent":
        return {"float_text": {}}
    marks = []
    if cls in ("DivineAttackSkillComponent", "HexaAngelRayComponent"):
        from simaple.simulate.component.specific.bishop import DivineMark
        for minion in [c for c in components if type(c).__name__ == "DivineMinion"]:
            st = types.SimpleNamespace(**dict(vars(state), divine_mark=DivineMark(advantage=minion.mark_advantage)))
            for entry in complib.params_of(comp, st)["mod_table"]:
                if entry not in marks:
                    marks.append(entry)
    p = complib.params_of(comp, state)
    if marks:
        p["mod_table"] = marks
    if cls == "ChainLightningVIComponent":
        p["prob"] = ratq(comp.electric_current_prob)
    return p


def expected_mapping(comp) -> list:
    """`Component.get_method_mappings()` restated from the component's fields (keys in dict order): defaults
    `<name>.<method>`, wildcards `*.<method>` (a wildcard entry overrides nothing: the keys differ), then the
    listening actions (a key already present keeps its position, dict.update semantics)"""
    from simaple.simulate.component.base import StaticPayloadReducerInfo
    methods = list(getattr(comp, "__reducers__"))
    order: dict = {}
    for m in methods:
        order[f"{comp.name}.{m}"] = (m, None)
    for m in methods:
        order[f"*.{m}"] = (m, None)
    for sig, info in comp.listening_actions.items():
        if isinstance(info, str):
            order[sig] = (info, None)
    for sig, info in comp.listening_actions.items():
        if isinstance(info, StaticPayloadReducerInfo):
            order[sig] = (info.name, canon(_num(info.payload)))
    return [[k, v[0], v[1]] for k, v in order.items()]


def export_job(job: str, variant: int = 0) -> dict:
    eng = make_engine(job, variant)
    store = eng._history.current_store()
    dispatchers = eng._router._dispatchers
    bases = []
    for i, d in enumerate(dispatchers):
        b = complib.base_of(d)
        if b is None:
            assert d is timer_delay_dispatcher and i == len(dispatchers) - 1, "the timer is installed last"
            continue
        assert not getattr(d, "_next_dispatchers", []), "addons are outside the model"
        bases.append(b)
    components = [_owner(b, eng._viewset) for b in bases]
    comps = []
    for b, comp in zip(bases, components):
        if comp is None:
            assert not b.reducer_mappings
            comps.append({"cls": "(no reducers)", "name": b._name, "params": {},
                          "defaults": [[n, complib.enc_entity(e)] for n, e in b._default_state.items()],
                          "binds": [[k, v] for k, v in b._store_adapter._binds.items()], "mapping": [],
                          "reducers": [], "default_modifier": None})
            continue
        cls = type(comp).__name__
        if cls not in complib.all_modelled():
            raise KeyError(f"class {cls} is not modelled")
        bound = b._store_adapter._get_bound_names()
        local = store.local(b._name)
        state = types.SimpleNamespace(**{n: local.read_entity(a, default=None) for n, a in bound.items()})
        # the mapping exactly as Component.get_method_mappings built it, in the dict order `_find_mapping_name` walks
        mapping = []
        for sig, w in b.reducer_mappings.items():
            static = w._static_payload
            mapping.append([sig, b.method_mappings[sig], None if static is None else canon(_num(static))])
        # `__reducers__` is a frozenset: the order of the default / wildcard keys varies with the hash seed and plays
        # no role (exact keys are looked up, only `$` keys are walked in order) -- compare as sets + `$` order
        exp = expected_mapping(comp)
        if sorted(map(tuple, [[a, b, c or ""] for a, b, c in exp])) != sorted(map(tuple, [[a, b, c or ""] for a, b, c in mapping])) \
                or [e[0] for e in exp if e[0].startswith("$")] != [e[0] for e in mapping if e[0].startswith("$")]:
            raise MappingMismatch(f"{cls} {b._name}: get_method_mappings built {mapping}, expected {exp}")
        modifier = getattr(comp, "modifier", None)
        comps.append({
            "cls": cls, "name": b._name, "params": _job_params(comp, state, components),
            "defaults": [[n, complib.enc_entity(e)] for n, e in b._default_state.items()],
            "binds": [[k, v] for k, v in b._store_adapter._binds.items()],
            "mapping": mapping,
            "reducers": sorted(getattr(comp, "__reducers__")),
            "default_modifier": None if modifier is None else canon(modifier.model_dump()),
        })
    init = {addr: enc_store_entity(addr, ent) for addr, ent in store._concrete_store._entities.items()}
    return {"job": job, "variant": variant, "comps": comps, "init": init}


# ------------------------------------------------------------------ real run
def run_real(job: str, variant: int, cmds: list) -> dict:
    """execute the plan on a fresh real engine; one record per command: the playlogs (clock, action, events,
    full store) in canonical form.  A Python exception ends the run (`raised`); a value off the grid ends it
    with `offgrid` (the plan is skipped and counted)."""
    eng = make_engine(job, variant)
    out = {"logs": [], "raised": None, "offgrid": None}
    for ci, c in enumerate(cmds):
        try:
            log = eng.exec(c)
        except Exception as e:          # noqa: BLE001 -- the real code raised; the model must flag an error there
            out["raised"] = {"command": ci, "error": f"{type(e).__name__}: {str(e)[:200]}"}
            break
        try:
            out["logs"].append({
                "command": simlib.enc_command(c),
                "playlogs": [{"clock": simlib.frac(pl.clock), "action": enc_action(pl.action),
                              "events": [enc_event(e) for e in pl.events],
                              "store": enc_store(pl.checkpoint.store_ckpt)} for pl in log.playlogs]})
        except OffGrid as e:
            out["offgrid"] = {"command": ci, "value": str(e)}
            break
    return out


def model_request(desc: dict, cmds: list) -> dict:
    return {"fn": "job_run", "job": {"comps": desc["comps"]}, "init": desc["init"],
            "commands": [simlib.enc_command(c) for c in cmds]}


def first_difference(real: dict, model: dict) -> Optional[dict]:
    """play-by-play diff of the real records against the model's answer"""
    mlogs = model["logs"]
    for ci, rl in enumerate(real["logs"]):
        if ci >= len(mlogs):
            return {"command": ci, "field": "missing in model"}
        ml = mlogs[ci]
        if len(rl["playlogs"]) != len(ml["playlogs"]):
            return {"command": ci, "field": "number of plays", "real": len(rl["playlogs"]), "model": len(ml["playlogs"])}
        for pi, (rp, mp) in enumerate(zip(rl["playlogs"], ml["playlogs"])):
            for field in ("action", "clock"):
                if rp[field] != mp[field]:
                    return {"command": ci, "play": pi, "field": field, "real": rp[field], "model": mp[field]}
            if rp["events"] != mp["events"]:
                for ei, (re_, me) in enumerate(zip(rp["events"], mp["events"])):
                    if re_ != me:
                        return {"command": ci, "play": pi, "field": f"events[{ei}]", "real": re_, "model": me}
                return {"command": ci, "play": pi, "field": "number of events", "real": len(rp["events"]),
                        "model": len(mp["events"]),
                        "extra": (rp["events"] + mp["events"])[min(len(rp["events"]), len(mp["events"]))]}
            if rp["store"] != mp["store"]:
                keys = sorted(set(rp["store"]) | set(mp["store"]))
                for k in keys:
                    if rp["store"].get(k) != mp["store"].get(k):
                        return {"command": ci, "play": pi, "field": f"store[{k}]", "real": rp["store"].get(k),
                                "model": mp["store"].get(k)}
    return None


# ------------------------------------------------------------------ plans and the comparison
def make_plan(rng, job: str, variant: int, kind: str, size: int) -> list:
    """`random`: simlib.random_plan without debug lines; `rotation`: simlib.rotation_plan (size = rounds)"""
    from simaple.simulate.policy.base import ConsoleText
    if kind == "rotation":
        cmds = simlib.rotation_plan(rng, job, variant, size)
    else:
        cmds = simlib.random_plan(rng, job, variant, size, with_console=False)
    # debug lines are Python `eval` on the viewer: outside the model (random_plan's fixed patterns still contain some)
    return [c for c in cmds if not isinstance(c, ConsoleText)]


def prepare(job: str, variant: int, cmds: list) -> dict:
    """the real run and the driver request of one plan (picklable; runs in a worker process)"""
    try:
        desc = export_job(job, variant)
    except OffGrid as e:
        return {"job": job, "variant": variant, "skipped": f"job description off grid: {e}", "request": None}
    real = run_real(job, variant, cmds)
    done = cmds[:len(real["logs"])]
    return {"job": job, "variant": variant, "plan": [command_text(c) for c in cmds], "real": real,
            "skipped": None if real["offgrid"] is None else f"off grid at command {real['offgrid']['command']}: "
                                                             f"{real['offgrid']['value']}",
            "request": model_request(desc, done)}


def judge(prep: dict, answer: dict) -> Optional[dict]:
    """None if the model run agrees with the real run, else the first difference"""
    base = {"job": prep["job"], "variant": prep["variant"], "plan": prep["plan"]}
    if "ok" not in answer:
        return dict(base, field="driver error", driver=str(answer)[:600])
    m = answer["ok"]
    if not m.get("no_clock_bind", False):
        return dict(base, field="a component is bound to global.time (hypothesis of C06_Job)")
    d = first_difference(prep["real"], m)
    if d is not None:
        return dict(base, **d)
    errs = [(ci, pi, e) for ci, l in enumerate(m["logs"]) for pi, p in enumerate(l["playlogs"])
            for e in p["events"] if e["tag"] == "#error"]
    if errs:       # cannot happen when the events agree (the real run has no such tag); kept as a guard
        return dict(base, command=errs[0][0], play=errs[0][1], field="model error event", model=errs[0][2])
    return None


def fadd_pairs(rng, n: int = 300) -> list:
    """double pairs for the float-addition model: the accumulation `x += 0.2 (mod 1)` of CurrentField.stack_rng,
    random magnitudes, exact ties"""
    pairs, x = [], 0.0
    for _ in range(60):
        pairs.append((x, 0.2))
        x += 0.2
        if x >= 1.0:
            x -= 1.0
    while len(pairs) < n:
        a = rng.choice([rng.random(), rng.uniform(-5, 5), rng.uniform(0, 1e9), float(rng.randint(0, 2 ** 60)),
                        2.0 ** rng.randint(-30, 60), 0.1 * rng.randint(0, 50)])
        b = rng.choice([rng.random(), rng.uniform(-5, 5), rng.uniform(0, 1e9), -a, 2.0 ** -53,
                        2.0 ** -52 * rng.choice([0.5, 1.5, 2.5]), 0.01 * rng.randint(0, 99)])
        pairs.append((a, b))
    return pairs


def compare(ck, units_: list, label: str = "JobRunner (end-to-end) vs real engine", timeout: float = 600) -> dict:
    """units_: prepared plans (`prepare`).  Sends every request to the driver in one run and diffs play by play;
    every failure mode becomes a `ck.broken` entry of kind "correspondence".  Returns the statistics."""
    stats = {"plans": len(units_), "skipped_offgrid": 0, "compared": 0, "plays": 0, "events": 0, "commands": 0,
             "disagreements": 0, "real_raised": 0, "per_job": {}}
    todo = []
    for u in units_:
        if u["request"] is None or (u["skipped"] and not u["real"]["logs"]):
            stats["skipped_offgrid"] += 1
            continue
        if u["skipped"]:
            stats["skipped_offgrid"] += 1          # compared up to the command before the off-grid value
        if u["real"]["raised"]:
            stats["real_raised"] += 1
        todo.append(u)
    if not todo:
        return stats
    fpairs = fadd_pairs(ck.rng)
    res = ck.driver([{"fn": "fadd", "pairs": [[ratq(a), ratq(b)] for a, b in fpairs]}] + [u["request"] for u in todo],
                    timeout=timeout)
    if res is not None:
        got = res[0].get("ok")
        want = [ratq(a + b) for a, b in fpairs]
        if got != want:
            bad = [(a, b) for (a, b), g, w in zip(fpairs, got or [], want) if g != w][:3]
            ck.broken.append({"kind": "correspondence", "point": label + ": JobRunner.fadd vs Python float addition",
                              "pairs": bad, "driver": None if got else res[0]})
        stats["fadd_pairs"] = len(fpairs)
        res = res[1:]
    if res is None:
        for b in ck.broken:
            if b.get("kind") in ("driver", "model-build"):
                b["kind"], b["point"] = "correspondence", label
        return stats
    for u, r in zip(todo, res):
        stats["compared"] += 1
        stats["commands"] += len(u["real"]["logs"])
        plays = sum(len(l["playlogs"]) for l in u["real"]["logs"])
        stats["plays"] += plays
        stats["events"] += sum(len(p["events"]) for l in u["real"]["logs"] for p in l["playlogs"])
        pj = stats["per_job"].setdefault(u["job"], {"plans": 0, "plays": 0})
        pj["plans"] += 1
        pj["plays"] += plays
        d = judge(u, r)
        if d is not None:
            stats["disagreements"] += 1
            if stats["disagreements"] <= 3:
                ck.broken.append({"kind": "correspondence", "point": label, **d})
    return stats
