"""part `Common` of the L2 component correspondence (see complib._load_plugins): parameters / entity codecs
for the classes modelled in lean/Simaple/Model/ComponentCommon.lean (driver:
lean/Simaple/Model/DrvComponentCommon.lean)"""
from __future__ import annotations

import json

CLASSES = {
    "SynergySkillComponent",
    "HitLimitedPeriodicDamageComponent",
    "PeriodicDamageConfiguratedHexaSkillComponent",
    "TriplePeriodicDamageHexaComponent",
    "MultipleHitHexaSkillComponent",
    "ConsumableBuffSkillComponent",
    "StackableBuffSkillComponent",
    "TemporalEnhancingAttackSkill",
    "PeriodicWithFinishSkillComponent",
    "AlwaysEnabledComponent",
    "MobComponent",
}


def _c():
    import complib
    return complib


def _pairs(entries) -> list:
    c = _c()
    return [[c.ratq(e.damage), c.ratq(e.hit)] for e in entries]


def params_of(comp, state) -> dict:
    c = _c()
    units, ratq = c.units, c.ratq
    cls = type(comp).__name__
    if cls == "AlwaysEnabledComponent":
        return {}
    if cls == "MobComponent":
        # the text json.dumps gives each damage value that can appear in a DOT event (events carry the payload
        # as canonical JSON text)
        return {"float_text": {ratq(d): json.dumps(d) for (d, _l) in state.dot.current.values()}}
    dyn = state.dynamics.stat
    if cls == "ConsumableBuffSkillComponent":
        return {"last_eff": units(dyn.calculate_buff_duration(comp.lasting_duration) if comp.apply_buff_duration
                                  else comp.lasting_duration),
                "delay": units(comp.delay), "lasting_duration": units(comp.lasting_duration)}
    p = {"cd_eff": units(dyn.calculate_cooldown(comp.cooldown_duration)), "delay": units(comp.delay),
         "disable_validity": bool(comp.disable_validity)}
    if cls == "SynergySkillComponent":
        p.update(lasting_duration=units(comp.lasting_duration), damage=ratq(comp.damage), hit=ratq(comp.hit))
    elif cls == "HitLimitedPeriodicDamageComponent":
        p.update(periodic_damage=ratq(comp.periodic_damage), periodic_hit=ratq(comp.periodic_hit),
                 lasting_duration=units(comp.lasting_duration), max_count=str(int(comp.max_count)))
    elif cls == "PeriodicDamageConfiguratedHexaSkillComponent":
        p.update(damage_and_hits=_pairs(comp.damage_and_hits), periodic_damage=ratq(comp.periodic_damage),
                 periodic_hit=ratq(comp.periodic_hit), lasting_duration=units(comp.lasting_duration))
    elif cls == "TriplePeriodicDamageHexaComponent":
        p.update(damage_and_hits=_pairs(comp.damage_and_hits), lasting_duration=units(comp.lasting_duration),
                 f1=[ratq(comp.periodic_01.damage), ratq(comp.periodic_01.hit)],
                 f2=[ratq(comp.periodic_02.damage), ratq(comp.periodic_02.hit)],
                 f3=[ratq(comp.periodic_03.damage), ratq(comp.periodic_03.hit)])
    elif cls == "MultipleHitHexaSkillComponent":
        p.update(damage_and_hits=_pairs(comp.damage_and_hits))
    elif cls == "StackableBuffSkillComponent":
        p.update(last_eff=units(dyn.calculate_buff_duration(comp.lasting_duration) if comp.apply_buff_duration
                                else comp.lasting_duration))
    elif cls == "TemporalEnhancingAttackSkill":
        p.update(reforge_cd_eff=units(dyn.calculate_cooldown(comp.reforge_cooldown_duration)),
                 damage=ratq(comp.damage), hit=ratq(comp.hit), reforged_damage=ratq(comp.reforged_damage),
                 reforged_hit=ratq(comp.reforged_hit), reforged_multiple=str(int(comp.reforged_multiple)))
    elif cls == "PeriodicWithFinishSkillComponent":
        p.update(periodic_damage=ratq(comp.periodic_damage), periodic_hit=ratq(comp.periodic_hit),
                 finish_damage=ratq(comp.finish_damage), finish_hit=ratq(comp.finish_hit),
                 lasting_duration=units(comp.lasting_duration))
    return p


def enc_payload(comp, method, payload):
    """hook of complib.model_request for non-numeric reducer payloads: the add_dot request of the mob"""
    if type(comp).__name__ == "MobComponent" and method == "add_dot":
        c = _c()
        d = payload.model_dump() if hasattr(payload, "model_dump") else dict(payload)
        return {"name": d["name"], "damage": c.ratq(d["damage"]), "lasting_time": c.units(d["lasting_time"])}
    return None


def enc_entity(ent):
    c = _c()
    units = c.units
    cls = type(ent).__name__
    if cls == "Consumable":
        return {"maximum_stack": str(int(ent.maximum_stack)), "stack": str(int(ent.stack)),
                "cooldown_duration": units(ent.cooldown_duration), "time_left": units(ent.time_left)}
    if cls == "Stack":
        return {"stack": str(int(ent.stack)), "maximum_stack": str(int(ent.maximum_stack))}
    if cls == "DOT":
        return {"current": [[n, c.ratq(e[0]), units(e[1])] for n, e in ent.current.items()],
                "period_time_left": units(ent.period_time_left), "period": units(ent.period)}
    return None


def enc_view(value):
    return None
