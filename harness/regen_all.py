"""run every generator once (used by setup.sh)"""
import sys
from vlib import Check
ck = Check("setup", "quick", 0)
gens = [p.stem[4:] for p in sorted((__import__("vlib").PY2LEAN).glob("gen_*.py"))]
ok = ck.regenerate(gens)
print("generators:", gens, "ok" if ok else ck.broken)
sys.exit(0 if ok else 1)
