"""C03 -- rolling back and continuing equals never having run the discarded part; hash chain."""
from __future__ import annotations

import hashlib
import itertools
import json
import random
import time

from vlib import Check, run_check, pmap
import simlib
from simlib import JOBS, Recorder, command_text, logs_equal_report, make_engine, model_log_view, op, console

from simaple.simulate.policy.base import ConsoleText


def views_of(eng) -> dict:
    v = eng.get_current_viewer()
    return {
        "clock": v("clock"),
        "validity": [x.model_dump() for x in v("validity")],
        "running": [x.model_dump() for x in v("running")],
        "buff": v("buff").model_dump(),
        "keydown": [x.model_dump() for x in v("keydown")],
        "buffered": simlib.canon(eng.get_buffered_events()),
    }


def surviving(ops):
    acc = []
    for o in ops:
        if o[0] == "exec":
            acc.append(o[1])
        elif o[0] == "rollback":
            acc = acc[: o[1]]
    return acc          # a refused command (("refused", c): the engine raises, the caller goes on) survives nowhere


def independent_hash(log) -> str:
    s = log.previous_hash + log.command.model_dump_json() + "|".join(
        pl.model_dump_json(exclude={"checkpoint"}) for pl in log.playlogs)
    return hashlib.sha1(s.encode()).hexdigest()


def check_program(job, variant, ops, check_every_step=True):
    """run ops on one engine; after every step (or at the end) compare with a fresh reference engine that
    executed the surviving commands.  Returns a failure description or None."""
    eng = make_engine(job, variant)
    done = []
    for idx, o in enumerate(ops):
        try:
            if o[0] == "exec":
                eng.exec(o[1])
            elif o[0] == "refused":
                if simlib.exec_safe(eng, o[1]) is not None:
                    return {"what": f"a malformed command was not refused at step {idx}", "step": idx}
            else:
                eng.rollback(o[1])
        except Exception as e:
            return {"what": f"exception at step {idx}: {type(e).__name__}: {e}", "step": idx}
        done.append(o)
        if check_every_step or idx == len(ops) - 1:
            ref = make_engine(job, variant)
            for c in surviving(done):
                ref.exec(c)
            a, b = list(eng.operation_logs()), list(ref.operation_logs())
            d = logs_equal_report(a, b)
            if d is not None:
                return {"what": "logs differ from the reference", "step": idx, "diff": d}
            va, vb = views_of(eng), views_of(ref)
            if va != vb:
                return {"what": "views differ from the reference", "step": idx,
                        "diff": {k: {"engine": va[k], "reference": vb[k]} for k in va if va[k] != vb[k]}}
            # hash chain
            for i, log in enumerate(a):
                if log.hash != independent_hash(log):
                    return {"what": f"hash of log {i} is not sha1(previous_hash + dump)", "step": idx}
                if i == 0 and log.previous_hash != "":
                    return {"what": "first log has a previous hash", "step": idx}
                if i > 0 and log.previous_hash != a[i - 1].hash:
                    return {"what": f"log {i} previous_hash is not the hash of log {i-1}", "step": idx}
                try:
                    got = eng._history.get_hash_index(log.hash)
                except Exception as e:
                    got = f"{type(e).__name__}"
                if got != i:
                    return {"what": f"get_hash_index(hash of log {i}) = {got}", "step": idx}
            if len({l.hash for l in a}) != len(a):
                return {"what": "two logs of one history share a hash", "step": idx}
    return None


def shrink_ops(job, variant, ops, budget_s=20.0):
    t0 = time.time()
    ops = list(ops)
    changed = True
    while changed and time.time() - t0 < budget_s:
        changed = False
        for i in range(len(ops) - 1, -1, -1):
            cand = ops[:i] + ops[i + 1:]
            # keep rollback indices in range
            n, ok = 0, True
            for o in cand:
                if o[0] == "exec":
                    n += 1
                elif o[0] == "rollback":
                    if o[1] > n:
                        ok = False
                        break
                    n = o[1]
            if ok and cand and check_program(job, variant, cand, check_every_step=False) is not None:
                ops, changed = cand, True
    return ops


def ops_text(ops):
    return [command_text(o[1]) if o[0] == "exec" else f"refused: {command_text(o[1])}" if o[0] == "refused"
            else f"rollback({o[1]})" for o in ops]


def alphabet(job):
    eng = make_engine(job, 0)
    names = [v.name for v in eng.get_current_viewer()("validity")]
    # one CAST with a delay, RESOLVE of it, ELAPSE, !debug
    skill = None
    for n in names:
        e2 = make_engine(job, 0)
        log = e2.exec(op("USE", n))
        if any(ev["tag"] == "global.delay" and ev["payload"]["time"] > 0 for ev in log.playlogs[0].events):
            skill = n
            break
    skill = skill or names[0]
    return [op("USE", skill), op("RESOLVE", skill), op("ELAPSE", time=300.0), console("viewer('clock')")]


def enumerate_programs(alpha, depth):
    """all sequences of exec(command in alpha) / rollback(index in range) of length <= depth"""
    out = []

    def rec(prefix, n):
        if prefix:
            out.append(list(prefix))
        if len(prefix) == depth:
            return
        for c in alpha:
            rec(prefix + [("exec", c)], n + 1)
        if prefix:                       # a rollback as the first op is the identity on a fresh engine
            for i in range(0, n + 1):
                rec(prefix + [("rollback", i)], i)
    rec([], 0)
    return out


def exhaustive_unit(job, variant, chunk_idx, nchunks, depth):
    alpha = alphabet(job)
    progs = enumerate_programs(alpha, depth)
    mine = progs[chunk_idx::nchunks]
    out = {"n": 0, "failing": [], "kind": "exhaustive", "rollbacks": 0, "targets": {"init": 0, "console": 0, "operation": 0}}
    for ops in mine:
        # only maximal-length programs need checking at every step: shorter ones are their prefixes
        if len(ops) != depth:
            continue
        out["n"] += 1
        n_exec = []
        for o in ops:
            if o[0] == "rollback":
                out["rollbacks"] += 1
                tgt = "init" if o[1] == 0 else ("console" if isinstance(n_exec[o[1] - 1], ConsoleText) else "operation")
                out["targets"][tgt] += 1
                n_exec = n_exec[: o[1]]
            else:
                n_exec.append(o[1])
        f = check_program(job, variant, ops)
        if f is not None:
            small = shrink_ops(job, variant, ops[: f["step"] + 1])
            out["failing"].append({"kind": "rollback-differs", "job": job, "variant": variant,
                                   "ops": ops_text(small), "failure": check_program(job, variant, small) or f})
            if len(out["failing"]) >= 2:
                break
    return out


def random_unit(job, variant, pi, seed, length):
    rng = random.Random(f"C03:{seed}:{job}:{variant}:{pi}")
    plan = simlib.random_plan(rng, job, variant, length)
    ops = []
    n = 0
    it = iter(plan)
    targets = {"init": 0, "console": 0, "operation": 0}
    current = []
    refused_pool = simlib.refused_commands()
    for c in it:
        if pi % 2 == 1 and rng.random() < 0.08:
            # a command the engine refuses with an exception; the session (and the rollbacks) go on
            ops.append(("refused", refused_pool[0] if rng.random() < 0.6 else rng.choice(refused_pool)))
        ops.append(("exec", c))
        current.append(c)
        if rng.random() < 0.18:
            i = rng.randint(0, len(current)) if rng.random() < 0.7 else max(0, len(current) - rng.randint(0, 2))
            ops.append(("rollback", i))
            tgt = "init" if i == 0 else ("console" if isinstance(current[i - 1], ConsoleText) else "operation")
            targets[tgt] += 1
            current = current[:i]
    out = {"n": 1, "failing": [], "kind": "random", "rollbacks": sum(1 for o in ops if o[0] == "rollback"),
           "targets": targets, "reqs": [], "expect": []}
    f = check_program(job, variant, ops, check_every_step=True)
    if f is not None:
        small = shrink_ops(job, variant, ops[: f["step"] + 1])
        out["failing"].append({"kind": "rollback-differs", "job": job, "variant": variant, "ops": ops_text(small),
                               "failure": check_program(job, variant, small) or f})
        return out
    # model correspondence: replay the same program in the Lean engine over the recorded play table
    eng = make_engine(job, variant)
    rec = Recorder()
    steps = []
    for o in ops:
        if o[0] == "exec":
            eng.exec(o[1])
        elif o[0] == "refused":
            simlib.exec_safe(eng, o[1])
        else:
            eng.rollback(o[1])
        logs = list(eng.operation_logs())
        rec.add_history(logs)
        steps.append({"n": len(logs), "buffered": [simlib.enc_event(e) for e in eng.get_buffered_events()],
                      "clock": simlib.frac(eng.get_current_viewer()("clock"))})
    final = list(eng.operation_logs())
    if rec.conflicts:
        out["broken"] = [{"kind": "correspondence", "point": "recorded play table is not functional", "job": job,
                          "conflicts": rec.conflicts[:3]}]
    out["reqs"].append({"fn": "engine", "tables": rec.tables(), "init": rec.ckpt_id(final[0].playlogs[0]),
                        "ops": [{"exec": simlib.enc_command(o[1])} if o[0] == "exec" else
                                {"refuse": "console" if isinstance(o[1], ConsoleText) else "op"} if o[0] == "refused" else
                                {"rollback": o[1]} for o in ops]})
    out["expect"].append({"job": job, "ops": ops_text(ops), "steps": steps, "logs": [rec.enc_log(l) for l in final],
                          "links": simlib.hash_structure([l.previous_hash for l in final], [l.hash for l in final])})
    return out


def reactive_unit(job, variant, seed, per_skill):
    """rollback onto a command the engine's components REJECT (a skill used again while it cools down), placed right
    after an action other components react to, and onto the action before it; then time passes and another skill is
    used.  The play of a rejected use still hands the pending reactions of the previous action to their listeners, so
    its checkpoint is not the one before it."""
    rng = random.Random(f"C03:reactive:{seed}:{job}:{variant}")
    names = [v.name for v in make_engine(job, variant).get_current_viewer()("validity")]
    out = {"n": 0, "failing": [], "kind": "reactive", "rollbacks": 0, "targets": {"init": 0, "console": 0, "operation": 0}}
    for s in names:
        for t in rng.sample(names, min(per_skill, len(names))):
            head = [("exec", op(rng.choice(["USE", "CAST"]), s)), ("exec", op("USE", s))]
            if rng.random() < 0.5:
                head.insert(1, ("exec", op("ELAPSE", time=rng.choice([0.0, 300.0, 1000.0]))))
            for target in (len(head), len(head) - 1):
                ops = head + [("rollback", target), ("exec", op("ELAPSE", time=300.0)), ("exec", op("USE", t)),
                              ("exec", op("ELAPSE", time=1000.0))]
                out["n"] += 1
                out["rollbacks"] += 1
                out["targets"]["operation"] += 1
                f = check_program(job, variant, ops)
                if f is not None:
                    small = shrink_ops(job, variant, ops[: f["step"] + 1], budget_s=8.0)
                    out["failing"].append({"kind": "rollback-differs", "job": job, "variant": variant,
                                           "ops": ops_text(small), "failure": check_program(job, variant, small) or f})
                    if len(out["failing"]) >= 2:
                        return out
    return out


def any_unit(kind, args):
    return random_unit(*args) if kind == "rnd" else reactive_unit(*args) if kind == "react" else exhaustive_unit(*args)


def main(ck: Check):
    quick = ck.tier == "quick"
    depth = 4 if quick else 5
    ex_jobs = ["archmagetc"] if quick else ["archmagetc", "adele", "mechanic"]
    nchunks = 12 if quick else 14
    rnd_plans = 2 if quick else 8
    rnd_len = (30, 50) if quick else (40, 120)

    work_ex = [(job, 0, i, nchunks, depth) for job in ex_jobs for i in range(nchunks)]
    rng = ck.rng
    work_rnd = [(job, v, pi, ck.seed, rng.randint(*rnd_len)) for job in JOBS for v in ([0] if quick else [0, 1])
                for pi in range(rnd_plans)]
    stats = {"exhaustive_programs": 0, "random_programs": 0, "reactive_programs": 0, "rollbacks": 0,
             "rollback_targets": {"init": 0, "console": 0, "operation": 0}}
    reqs, expect = [], []

    def absorb(args, out):
        if args is None:
            ck.notes.append(f"budget reached: {out}")
            if out["done"] < out["total"] // 2:
                raise TimeoutError(f"only {out['done']}/{out['total']} units finished within the budget")
            return
        stats[{"exhaustive": "exhaustive_programs", "reactive": "reactive_programs"}.get(out["kind"], "random_programs")] += out["n"]
        stats["rollbacks"] += out["rollbacks"]
        for k, v in out["targets"].items():
            stats["rollback_targets"][k] += v
        for f in out["failing"]:
            ck.add_failing(f)
        ck.broken.extend(out.get("broken", []))
        reqs.extend(out.get("reqs", []))
        expect.extend(out.get("expect", []))

    work_react = [(job, 0, ck.seed, 1 if quick else 4) for job in JOBS]
    for args, out in pmap(any_unit, [("rnd", a) for a in work_rnd] + [("react", a) for a in work_react] +
                          [("ex", a) for a in work_ex], ck.budget_s * 0.8):
        absorb(args, out)

    with ck.locked():
        proved = ck.prove("Simaple.Props.C03")
        if not quick and proved:
            ck.leanchecker(["Simaple.Props.C03"])
        res = ck.driver(reqs, timeout=900)
    disagreements = 0
    if res is not None:
        for r, ex in zip(res, expect):
            ok = "ok" in r
            first = None
            if ok:
                mlogs = r["ok"]["logs"]
                got = [model_log_view(m) for m in mlogs][1:]
                links = simlib.hash_structure([m["prev"] for m in mlogs], [m["hash"] for m in mlogs])
                msteps = [{"n": s["n"], "buffered": s["buffered"], "clock": s["clock"]} for s in r["ok"]["steps"]]
                ok = got == ex["logs"][1:] and links == ex["links"] and msteps == ex["steps"]
                if not ok:
                    for i, (g, w) in enumerate(zip(msteps, ex["steps"])):
                        if g != w:
                            first = {"step": i, "model": g, "implementation": w}
                            break
            if not ok:
                disagreements += 1
                if disagreements <= 3:
                    ck.broken.append({"kind": "correspondence", "point": "Model.Engine (exec/rollback) vs BasicOperationEngine",
                                      "job": ex["job"], "ops": ex["ops"], "first_difference": first,
                                      "driver": None if "ok" in r else r})

    total = stats["exhaustive_programs"] + stats["random_programs"] + stats["reactive_programs"]
    ck.coverage.update({
        "evaluations": total,
        "distinct_nontrivial": total,
        "rule": f"(a) every exec/rollback program of depth {depth} over a 4-command alphabet (USE of a skill with a delay, "
                "RESOLVE of it, ELAPSE 300, !debug) with rollback to every index in range, compared after EVERY step with a "
                "fresh reference engine that executed the surviving commands (logs incl. hashes, validity/running/buff/"
                "keydown/clock views, buffered events; hash chain, sha1 recomputation, get_hash_index of every log); "
                "(b) seeded random programs (plans generated against the validity view, rollback after ~18% of the commands); "
                "(c) per job and skill: the skill used, (time passed,) used again -- mostly REJECTED on cooldown --, rollback "
                "onto the rejected command and onto the one before it, then time passes and another skill is used; "
                "programs are distinct by construction; all contain at least one executed command",
        "samples": [e["ops"][:14] for e in expect[:2]],
        "exhaustive": False,
        "exhaustive_note": f"part (a) is exhaustive for depth {depth} over its alphabet for jobs {ex_jobs}",
        **stats,
        "model_engine_replays": len(reqs),
        "model_engine_disagreements": disagreements,
    })
    ck.assumptions += [
        "StoreLaws hypothesis of the theorems (validated by the C01 check and by the reference comparison here)",
        "sha1 collision freedom (hash_locates / hashes_distinct assume an injective, never-empty H)",
    ]
    ck.finish("proof",
              trusted_base=["Lean 4.33 kernel", "axioms ⊆ {propext, Classical.choice, Quot.sound}",
                            "hand-written model Simaple/Model/Engine.lean tied to the code by the recorded-play-table replay",
                            "StoreLaws hypothesis; injective hash hypothesis"],
              checker_cmd="cd lean && lake build Simaple.Props.C03 && lake env lean Simaple/Audit/C03.lean")


if __name__ == "__main__":
    run_check("C03", main)
