"""C15 -- spec expressions mean ordinary arithmetic and interpretation is side-effect free.

prove Simaple.Props.C15  ->  correspondence of the Lean model (lexer/parser/evaluator, DFSTraversePatch._apply /
ArithmeticPatch / StringPatch / KeywordExtendPatch, Spec.interpret) with the real code on seeded inputs  ->  the
property evaluated directly on the real code against an independent reference evaluator built on Python's `ast`
->  the side-effect half on the shipped specs and the real patch chains (what Lean cannot exhibit).
"""
from __future__ import annotations

import ast
import copy
import math
import re
from fractions import Fraction
from typing import Any, Optional
from unittest import mock

from vlib import Check, run_check, frac_str, parse_frac

from lark.exceptions import UnexpectedInput, VisitError

import simaple.spec._math as M
from simaple.spec.patch import ArithmeticPatch, KeywordExtendPatch, Patch, StringPatch
from simaple.spec.spec import PatchSpecificationMatchFailError, Spec

TOL = 1e-9
FUNCS1 = ["ceil", "floor", "apply_attack_speed"]
FUNCS2 = ["min", "max"]
PARSER = getattr(M, "__arithmetic_parser")


# ====================================================================== the real code, observed
def err_class(e: BaseException) -> str:
    if isinstance(e, VisitError):
        e = e.orig_exc
    if isinstance(e, UnexpectedInput):
        return "parse"
    if isinstance(e, AssertionError):
        return "undefined"
    if isinstance(e, ZeroDivisionError):
        return "divzero"
    if isinstance(e, ValueError):
        return "badnumber"
    if isinstance(e, AttributeError):
        return "attribute"
    if isinstance(e, TypeError):
        return "type"
    if isinstance(e, PatchSpecificationMatchFailError):
        return "mismatch"
    return f"other:{type(e).__name__}"


def real_eval(expr: str, env: dict):
    try:
        return ("v", M.evaluate_expression(expr, env))
    except Exception as e:  # noqa: BLE001 - the class is the observation
        return ("e", err_class(e))


def real_tree(expr: str) -> Optional[str]:
    try:
        t = PARSER.parse(expr)
    except UnexpectedInput:
        return None

    def go(n):
        if n.data == "seperated_number" and "_" not in n.children[0]:
            return f"(number {n.children[0]})"      # NUMBER / SEPERATED_NUMBER ambiguity: same text, same value
        if n.data in ("number", "seperated_number", "variable"):
            return f"({n.data} {n.children[0]})"
        return "(" + " ".join([str(n.data)] + [go(c) for c in n.children]) + ")"
    return go(t)


def real_apply(doc, env):
    try:
        return ("v", ArithmeticPatch(variables=env).apply(doc))
    except Exception as e:  # noqa: BLE001
        return ("e", err_class(e))


# ====================================================================== independent reference (python ast)
WORD = re.compile(r"[0-9A-Za-z_.]+")


class OutOfScope(Exception):
    """the text uses a lexical form the reference does not claim to know (e.g. `_1`, `1e-3`)"""


def ref_prepare(text: str):
    """literals and variable names -> placeholders, so that only operators, parentheses and calls are left to
    Python's own grammar (precedence, associativity, unary minus)"""
    consts: dict[str, tuple[str, Any]] = {}
    out, pos = [], 0
    for i, m in enumerate(WORD.finditer(text)):
        w = m.group(0)
        out.append(text[pos:m.start()])
        pos = m.end()
        if w in FUNCS1 + FUNCS2 and text[m.end():m.end() + 1] == "(":
            out.append(w)
            continue
        if re.fullmatch(r"[0-9]+(_[0-9]+)*", w) or re.fullmatch(r"[0-9]+\.[0-9]*|\.[0-9]+", w):
            consts[f"N{i}"] = ("num", w.replace("_", ""))
            out.append(f"N{i}")
        elif re.fullmatch(r"[A-Za-z_.]+", w) and set(w) - {"_"}:
            consts[f"V{i}"] = ("var", w)
            out.append(f"V{i}")
        else:
            raise OutOfScope(w)
    out.append(text[pos:])
    py = "".join(out)
    if re.search(r"[^0-9A-Za-z_ \t()+\-*/<>,]", py) or "**" in py:
        raise OutOfScope(py)
    return py.strip(" \t"), consts


class RefError(Exception):
    def __init__(self, cls):
        self.cls = cls


def ref_eval(text: str, env: dict, exact: bool):
    """value of the expression in ordinary arithmetic: exact=True over Fractions, exact=False with the float
    operations in the order ordinary precedence/associativity prescribes.  Returns (value, dyadic_safe)."""
    py, consts = ref_prepare(text)
    try:
        tree = ast.parse(py, mode="eval")
    except SyntaxError:
        raise RefError("parse")
    safe = [True]

    def note(v):
        if exact and not isinstance(v, bool):
            f = Fraction(v)
            d = f.denominator
            if d & (d - 1) or d > 2 ** 24 or abs(f.numerator) >= 2 ** 50:
                safe[0] = False
        return v

    def go(n):
        if isinstance(n, ast.Expression):
            return go(n.body)
        if isinstance(n, ast.Name):
            kind, w = consts.get(n.id, (None, None))
            if kind == "num":
                return note(Fraction(w) if exact else float(w))
            if kind == "var":
                if w not in env:
                    raise RefError("undefined")
                return note(Fraction(env[w]) if exact and not isinstance(env[w], bool) else env[w])
            raise OutOfScope(n.id)
        if isinstance(n, ast.UnaryOp) and isinstance(n.op, ast.USub):
            return note(-go(n.operand))
        if isinstance(n, ast.BinOp):
            a = go(n.left)
            b = go(n.right)
            try:
                if isinstance(n.op, ast.Add):
                    return note(a + b)
                if isinstance(n.op, ast.Sub):
                    return note(a - b)
                if isinstance(n.op, ast.Mult):
                    return note(a * b)
                if isinstance(n.op, ast.Div):
                    return note(a / b)
                if isinstance(n.op, ast.FloorDiv):
                    return note(a // b)
            except ZeroDivisionError:
                raise RefError("divzero")
            raise OutOfScope(type(n.op).__name__)
        if isinstance(n, ast.Compare) and len(n.ops) == 1 and isinstance(n.ops[0], (ast.Gt, ast.Lt)):
            a = go(n.left)
            b = go(n.comparators[0])
            return (a > b) if isinstance(n.ops[0], ast.Gt) else (a < b)
        if isinstance(n, ast.Call) and isinstance(n.func, ast.Name) and not n.keywords:
            args = [go(a) for a in n.args]
            f = n.func.id
            if f == "ceil" and len(args) == 1:
                return math.ceil(args[0])
            if f == "floor" and len(args) == 1:
                return math.floor(args[0])
            if f == "apply_attack_speed" and len(args) == 1:
                three_quarters = Fraction(3, 4) if exact else 0.75
                return 30 * math.ceil(args[0] * three_quarters / 30)
            if f == "min" and len(args) == 2:
                return note(min(args[0], args[1]))
            if f == "max" and len(args) == 2:
                return note(max(args[0], args[1]))
        raise OutOfScope(type(n).__name__)

    return go(tree), safe[0]


def ref_template_body(s: str) -> Optional[str]:
    t = s.strip()
    if len(t) >= 5 and t.startswith("{{") and t.endswith("}}") and "\n" not in t[2:-2]:
        return t[2:-2]
    return None


def ref_apply(doc, env, container_keys: bool = True, exact: bool = False):
    """what the property says `apply` returns: every `{{ e }}` (leaf, list element, dict value, dict key) replaced
    by the value of e, everything else unchanged, excluded keys dropped.  container_keys=False is the variant
    that leaves keys of dict/list-valued entries alone (what the code does) - used only to classify a failure."""
    def scalar(x):
        if isinstance(x, str):
            body = ref_template_body(x)
            if body is not None:
                return ref_eval(body, env, exact=exact)[0]
        return x

    def go(d):
        if isinstance(d, list):
            return [go(x) for x in d]
        if isinstance(d, dict):
            ex = list(d.get("exclude", [])) + ["exclude"]
            out = {}
            for k, v in d.items():
                if any(k == e for e in ex if not isinstance(e, (list, dict))):
                    continue
                if isinstance(v, (dict, list)):
                    out[scalar(k) if container_keys else k] = go(v)
                else:
                    nk = scalar(k)
                    out[nk] = scalar(v)
            return out
        return scalar(d)
    return go(doc)


def strict_eq(a, b) -> bool:
    """deep equality that tells 1 / 1.0 / True apart and looks at dict order"""
    if type(a) is not type(b):
        return False
    if isinstance(a, dict):
        return len(a) == len(b) and all(strict_eq(x, y) and strict_eq(a[x], b[y]) for x, y in zip(a, b))
    if isinstance(a, (list, tuple)):
        return len(a) == len(b) and all(strict_eq(x, y) for x, y in zip(a, b))
    if isinstance(a, float) and math.isnan(a):
        return isinstance(b, float) and math.isnan(b)
    return a == b


def value_eq(a, b) -> bool:
    """deep equality of documents up to Python's numeric equality (True == 1 == 1.0), ordered dicts"""
    if isinstance(a, dict) or isinstance(b, dict):
        return (isinstance(a, dict) and isinstance(b, dict) and len(a) == len(b)
                and all(value_eq(x, y) and value_eq(a[x], b[y]) for x, y in zip(a, b)))
    if isinstance(a, list) or isinstance(b, list):
        return (isinstance(a, list) and isinstance(b, list) and len(a) == len(b)
                and all(value_eq(x, y) for x, y in zip(a, b)))
    if isinstance(a, str) or isinstance(b, str) or a is None or b is None:
        return type(a) is type(b) and a == b
    return a == b


# ====================================================================== JSON form of documents for the driver
def doc_json(d):
    if d is None or isinstance(d, (bool, str)):
        return d
    if isinstance(d, (int, float)):
        return {"n": frac_str(Fraction(d))}
    if isinstance(d, list):
        return [doc_json(x) for x in d]
    if isinstance(d, dict):
        return {"d": [[doc_json(k), doc_json(v)] for k, v in d.items()]}
    raise TypeError(type(d))


def env_json(env):
    return [[k, frac_str(Fraction(v))] for k, v in env.items() if v is not None]


def lean_matches_exact_reference(lean_apply: dict, doc, env) -> bool:
    """the model's result is what exact arithmetic gives (used when the implementation's float rounding moved a
    value across a floor / ceil / comparison boundary)"""
    try:
        try:
            exp = ("v", ref_apply(doc, env, container_keys=False, exact=True))
        except RefError as e:
            exp = ("e", e.cls)
    except Exception:  # noqa: BLE001 - outside the reference's scope (corner documents): no second opinion
        return False
    if exp[0] == "e":
        return lean_apply.get("e") == exp[1]
    c = Cmp()
    return "v" in lean_apply and c.same(lean_apply["v"], exp[1]) and c.inexact == 0


class Cmp:
    """compare a Lean document (JSON) with a Python document; numbers exactly or within TOL"""

    def __init__(self):
        self.inexact = 0

    def num(self, lean: str, py) -> bool:
        if isinstance(py, float) and not math.isfinite(py):
            return False
        lf, pf = parse_frac(lean), Fraction(py)
        if lf == pf:
            return True
        if abs(lf - pf) <= TOL * max(1, abs(pf)):
            self.inexact += 1
            return True
        return False

    def same(self, lj, py) -> bool:
        if isinstance(py, bool):
            return (lj is py) if isinstance(lj, bool) else (isinstance(lj, dict) and "n" in lj and self.num(lj["n"], int(py)))
        if py is None or isinstance(py, str):
            return type(lj) is type(py) and lj == py
        if isinstance(py, (int, float, Fraction)):
            return isinstance(lj, dict) and "n" in lj and self.num(lj["n"], py)
        if isinstance(py, list):
            return isinstance(lj, list) and len(lj) == len(py) and all(self.same(a, b) for a, b in zip(lj, py))
        if isinstance(py, dict):
            if not (isinstance(lj, dict) and "d" in lj and len(lj["d"]) == len(py)):
                return False
            return all(self.same(a[0], k) and self.same(a[1], v) for a, (k, v) in zip(lj["d"], py.items()))
        return False


# ====================================================================== generators
DYADIC_NUMS = ["0", "1", "2", "3", "4", "5", "7", "8", "10", "12", "16", "30", "100", "1_000", "1_0", "2_5_6",
               "0.5", "0.25", "1.5", "2.75", "0.125", ".5", "3.", "007", "0.0", "64"]
DECIMAL_NUMS = ["0.1", "0.85", "17.5", "0.01", "1.1", "0.9", "0.15", "0.35", "3", "7", "45_000", "0.02", "2.2"]
POW2 = ["2", "4", "8", "0.5", "16", "0.25"]
VAR_NAMES = ["x", "y", "zero", "skill_level", "character_level", "character_stat.INT", "a.b", "a.b.c", "Cap_Var",
             "_u", "v_", "weapon_pure_attack_power", "ceil", "min", "e", "E"]


def gen_env(rng, decimal: bool) -> dict:
    env: dict[str, Any] = {"zero": 0}
    for n in VAR_NAMES:
        if n == "zero":
            continue
        r = rng.random()
        if r < 0.12:
            continue                                   # undefined
        if decimal and r < 0.5:
            env[n] = round(rng.uniform(-50, 300), 2)
        elif r < 0.55:
            env[n] = rng.randint(-5, 40)
        elif r < 0.7:
            env[n] = rng.randint(0, 300)
        elif r < 0.8:
            env[n] = 0 if rng.random() < 0.5 else 0.0
        else:
            env[n] = rng.randint(-64, 640) / 8
    return env


def ws(rng) -> str:
    return rng.choice(["", "", " ", " ", "  ", "\t", " \t "])


def gen_expr(rng, depth: int, decimal: bool, names, pow2_only: bool = False) -> str:
    """text from the evaluator's grammar; `depth` bounds the nesting of parentheses / calls / negations;
    pow2_only: divisors are powers of two, so dyadic inputs give dyadic (float-exact) values throughout"""
    nums = DECIMAL_NUMS if decimal else DYADIC_NUMS

    def factor(d) -> str:
        r = rng.random()
        if d <= 0 or r < 0.3:
            return rng.choice(nums) if rng.random() < 0.55 else rng.choice(names)
        if r < 0.42:
            return "-" + ws(rng) + factor(d - 1)
        if r < 0.62:
            return "(" + ws(rng) + expr(d - 1) + ws(rng) + ")"
        if r < 0.74:
            return rng.choice(FUNCS1) + "(" + ws(rng) + expr(d - 1) + ws(rng) + ")"
        if r < 0.86:
            return rng.choice(FUNCS2) + "(" + ws(rng) + expr(d - 1) + ws(rng) + "," + ws(rng) + expr(d - 1) + ws(rng) + ")"
        if r < 0.93:   # comparison, parenthesised, no chain: the only form whose meaning is ordinary
            left = factor(d - 1)
            if rng.random() < 0.4:
                left = left + ws(rng) + "*" + ws(rng) + factor(d - 1)
            return "(" + ws(rng) + left + ws(rng) + rng.choice("<>") + ws(rng) + factor(d - 1) + ws(rng) + ")"
        return rng.choice(nums) if rng.random() < 0.55 else rng.choice(names)

    def term(d) -> str:
        s = factor(d)
        while rng.random() < 0.38:
            op = rng.choice(["*", "/", "//", "*", "//"])
            if op != "*" and (pow2_only or rng.random() < 0.6):
                rhs = rng.choice(POW2)
            else:
                rhs = factor(d)
            s = s + ws(rng) + op + ws(rng) + rhs
        return s

    def expr(d) -> str:
        s = term(d)
        while rng.random() < 0.42:
            s = s + ws(rng) + rng.choice("+-") + ws(rng) + term(d)
        return s

    return ws(rng) + expr(depth) + ws(rng)


def gen_zero_expr(rng, names) -> str:
    e = gen_expr(rng, 2, False, names).strip()
    return rng.choice(["0", "0.0", "zero", "1 - 1", "x - x", "0 * 7", "floor(0.5)", "min(0, 3)", "ceil(-0.5)",
                       f"( {e} ) - ( {e} )", f"0 * ( {e} )", "(1 < 0)", "2 // 4", "-0", "zero * y"])


QUIRKS = ["_", "__", "1_000", "_1", "1_", "12", "1.5", ".5", "1.", "1e3", "1e-3", "1.e+3", "1E2", "2.5e-1", "2 > 1",
          "1 + 2 > 1", "2 > 1 + 1", "ceil (1)", "min(1, 2)", "min( 1 ,2 )", "ceil", "a.b", "a . b", "1 - 2 - 3",
          "2 / 2 / 2", "7 // 2 * 2", "- 3 // 2", "--3", "1 - -1", "1/0", "1//0", "y", "1 +", "", " ", "(1", "1 2",
          "3 > 2 > 1", "-x", "1\t+\t2", "1 \n+ 2", "1 \r+ 2", "1.5.2", "x1", "1x", "1e", "2e-x", "1_e-3", "1e-3e-4",
          "0x10", "00012", "1__0", "max(1,2)", "apply_attack_speed(600)", "floor(-0.5)", "ceil(-0.5)", "5 // -2",
          "-5 // 2", "(1)(2)", "2(3)", "min(1,2,3)", "min(1)", ".", "..", "x.", ".x", "1 .5", "1. 5", "1.x", "x.5",
          "1e+", "1e+x", "e", "E", "e1", "1-e", "1e1e1", "1.5e3", "1 / 3", "10 / 4 // 1", "2 * 3 // 4", "2 // 3 * 4",
          "8 / 4 / 2", "8 - 4 + 2", "8 / ( 4 / 2 )", "-(1)", "- - x", "1 -- 1", "1 +- 1", "1 ++ 1", "1 */ 2", "1 // / 2",
          "1 / / 2", "1 /// 2", "minx(1,2)", "xmin(1,2)", "x.min(1,2)", "min(1,2", "min(1 2)", "min(,1)", "()",
          "( )", "ceil()", "floor(1.5", "1,2", ",", "<", "1 <", "< 1", "1 < 2 < 3", "1 > 2 * 3", "x * (y > 0)",
          "apply_attack_speed (1)", "apply_attack_speed(7)", "APPLY(1)", "Ceil(1)", "1_000.5", "1._5", "_.", "._",
          "1e3_0", "1_0e3", "１", "x²", "1 % 2", "2 ** 3", "2 ^ 3", "a+b", "a-b", "a.b-c.d", "1e-3x", "x e", "1 e3"]


def mutate_text(rng, s: str) -> str:
    alphabet = "0123456789abexyz_.()+-*/<>, \t"
    s = list(s)
    for _ in range(rng.randint(1, 2)):
        r = rng.random()
        if r < 0.4 and s:
            del s[rng.randrange(len(s))]
        elif r < 0.8:
            s.insert(rng.randint(0, len(s)), rng.choice(alphabet))
        elif s:
            s[rng.randrange(len(s))] = rng.choice(alphabet)
    return "".join(s)


PLAIN_STRINGS = ["name", "skill_level", "", " ", "{{ }}", "{{}}", "{ { 1 } }", "x {{ 1 }}", "{{ 1 }} y", "{{1}", "{1}}",
                 "{{ 1 }}}", "{{{ 1 }}", "plain text", "1 + 1", "{{ 1\n }}", "exclude", "가나다", "{{", "}}"]


def template_text(rng, e: str) -> str:
    pre = rng.choice(["", "", " ", "\t", "\n ", "\u2003", "\xa0"])
    post = rng.choice(["", "", " ", "\n", " \t", "\u2003", "\x0b"])
    return pre + "{{" + e + "}}" + post


def gen_doc(rng, depth: int, make_expr, allow_none_elem: bool, stats: dict):
    """nested dict/list document (depth <= 4) with templates as key / value / list element / bare scalar"""
    def scalar(position: str):
        r = rng.random()
        if r < 0.5:
            stats[position] = stats.get(position, 0) + 1
            return template_text(rng, make_expr(position))
        if r < 0.62:
            return rng.choice(PLAIN_STRINGS)
        if r < 0.72:
            return rng.randint(-3, 40)
        if r < 0.8:
            return rng.randint(-8, 80) / 4
        if r < 0.88:
            return rng.random() < 0.5
        if r < 0.94 and (position == "value" or allow_none_elem):
            return None
        return "text"

    def key(used, scalar_valued: bool):
        r = rng.random()
        if r < (0.3 if scalar_valued else 0.1):
            stats["key" if scalar_valued else "container_key"] = stats.get("key" if scalar_valued else "container_key", 0) + 1
            return template_text(rng, make_expr("key"))
        if r < 0.36:
            return rng.choice([1, 2, 0, True, 2.5])
        k = rng.choice(["a", "b", "c", "name", "value", "damage", "hit", "k%d" % rng.randint(0, 30)])
        return k

    def node(d):
        r = rng.random()
        if d <= 0 or r < 0.25:
            return scalar("element")
        if r < 0.5:
            return [elem(d - 1) for _ in range(rng.randint(0, 4))]
        return dct(d - 1)

    def elem(d):
        r = rng.random()
        if d <= 0 or r < 0.6:
            return scalar("element")
        return node(d)

    def dct(d):
        out = {}
        n = rng.randint(0, 5)
        for _ in range(n):
            if d > 0 and rng.random() < 0.35:
                v = node(d)
                if not isinstance(v, (dict, list)):
                    k = key(out, True)
                else:
                    k = key(out, False)
            else:
                v = scalar("value")
                k = key(out, True)
            out[k] = v
        if rng.random() < 0.2 and out:
            ks = list(out.keys())
            ex = [rng.choice(ks) for _ in range(rng.randint(0, 2))] + rng.choice([[], ["missing"], [1], [["a"]]])
            rng.shuffle(ex)
            out["exclude"] = ex
            if rng.random() < 0.5:      # exclude need not come last
                first = ks[0]
                out[first] = out.pop(first)
        return out

    r = rng.random()
    if r < 0.08:
        return scalar("bare")
    if r < 0.2:
        return [elem(depth - 1) for _ in range(rng.randint(0, 4))]
    return dct(depth - 1)


# ====================================================================== main
class NoopPatch(Patch):
    def apply(self, raw: dict) -> dict:
        return raw


class OtherPatch(Patch):
    def apply(self, raw: dict) -> dict:
        return raw


def patch_to_json(p):
    if isinstance(p, ArithmeticPatch):
        return {"kind": "arith", "env": env_json(p.variables)}
    if isinstance(p, StringPatch):
        return {"kind": "string", "as_is": p.as_is, "to_be": p.to_be}
    if isinstance(p, KeywordExtendPatch):
        return {"kind": "kwext", "kw": p.target_keyword, "exts": p.extends}
    return {"kind": "other", "name": type(p).__name__}


def mutate_deep(x):
    if isinstance(x, dict):
        for v in list(x.values()):
            mutate_deep(v)
        x["__mutated__"] = ["m"]
    elif isinstance(x, list):
        for v in x:
            mutate_deep(v)
        x.append("__mutated__")


def main(ck: Check):
    rng = ck.rng
    quick = ck.tier == "quick"
    n_expr = 350 if quick else 6000
    n_mut = 150 if quick else 2500
    n_doc = 160 if quick else 2500
    n_interp = 60 if quick else 800

    lean = ck.locked()
    lean.__enter__()
    import time
    t_own = time.time()          # waiting for the shared Lean lock is not this check's work
    own_budget = 70 if quick else 800
    ck.own_time_left = lambda: own_budget - (time.time() - t_own)
    proved = ck.prove("Simaple.Props.C15")
    if not quick and proved:
        ck.leanchecker(["Simaple.Props.C15"])

    reqs: list[dict] = []
    handlers: list = []          # one callable(result_json) per request

    def add(req, handler):
        reqs.append(req)
        handlers.append(handler)

    disagreements = [0]
    per_point: dict[str, int] = {}
    float_divergence = [0]
    stats: dict[str, Any] = {"expr_exact": 0, "expr_tolerance": 0, "expr_errors": {}, "zero_results": 0,
                             "malformed": 0, "placements": {}, "operators": {}}
    distinct_exprs: set[str] = set()
    samples: list = []

    def disagree(point, req, model, impl):
        disagreements[0] += 1
        if disagreements[0] <= 6:
            ck.broken.append({"kind": "correspondence", "point": point, "request": req, "model": model,
                              "implementation": repr(impl)[:600]})

    def fail(function, kind, **detail):
        ck.add_failing({"function": function, "kind": kind, **{k: (v if isinstance(v, (str, int, float, bool, type(None))) else repr(v)[:900]) for k, v in detail.items()}})

    # ------------------------------------------------------------------ expressions
    def check_expr(expr: str, env: dict, stream: str):
        """real evaluator vs the ast reference (the property) and vs the Lean model (correspondence)"""
        real = real_eval(expr, env)
        per_point["evaluate_expression"] = per_point.get("evaluate_expression", 0) + 1
        in_scope = True
        ref_f = ref_x = None
        safe = False
        try:
            try:
                ref_f = ("v", ref_eval(expr, env, exact=False)[0])
            except RefError as e:
                ref_f = ("e", e.cls)
            try:
                v, safe = ref_eval(expr, env, exact=True)
                ref_x = ("v", v)
            except RefError as e:
                ref_x = ("e", e.cls)
        except OutOfScope:
            in_scope = False
        except (OverflowError, ValueError):
            in_scope = False
        if real[0] == "v" and isinstance(real[1], float) and not math.isfinite(real[1]):
            return
        if stream != "malformed" and in_scope:
            # the property itself: the real evaluator computes what ordinary arithmetic says
            if real[0] != ref_f[0] or (real[0] == "e" and real[1] != ref_f[1]) or \
                    (real[0] == "v" and not (real[1] == ref_f[1] or (isinstance(ref_f[1], float) and math.isnan(ref_f[1])))):
                fail("evaluate_expression", "differs-from-ordinary-arithmetic", expression=expr, variables=env,
                     observed=real[1], expected=ref_f[1])
            elif real[0] == "v" and ref_x[0] == "v":
                exact_val = Fraction(int(ref_x[1])) if isinstance(ref_x[1], bool) else Fraction(ref_x[1])
                got = Fraction(int(real[1])) if isinstance(real[1], bool) else Fraction(real[1])
                if safe:
                    stats["expr_exact"] += 1
                    if got != exact_val:
                        fail("evaluate_expression", "differs-from-exact-arithmetic", expression=expr, variables=env,
                             observed=real[1], expected=str(exact_val))
                else:
                    stats["expr_tolerance"] += 1
                    if abs(got - exact_val) > TOL * max(1, abs(exact_val)):
                        float_divergence[0] += 1     # float rounding through floor/ceil/compare; not a defect
                if got == 0:
                    stats["zero_results"] += 1
            elif real[0] == "e":
                stats["expr_errors"][real[1]] = stats["expr_errors"].get(real[1], 0) + 1
            for op in ["+", "-", "*", "//", "/", "<", ">", "(", "_", "."] + FUNCS1 + FUNCS2:
                if op in expr:
                    stats["operators"][op] = stats["operators"].get(op, 0) + 1
            distinct_exprs.add(re.sub(r"\s+", "", expr))
        else:
            stats["malformed"] += 1
        if len(samples) < 4 and stream == "exact" and real[0] == "v" and len(expr) > 25:
            samples.append({"expression": expr, "value": real[1], "variables": {k: v for k, v in env.items() if k in expr}})

        req = {"fn": "c15_eval", "expr": expr, "env": env_json(env)}

        def h_eval(res, real=real, req=req, safe=safe, in_scope=in_scope, ref_x=ref_x):
            if "ok" not in res:
                return disagree("evaluate_expression", req, res, real)
            r = res["ok"]
            if real[0] == "e":
                if r.get("e") != real[1]:
                    disagree("evaluate_expression", req, r, real)
                return
            if "v" not in r:
                return disagree("evaluate_expression", req, r, real)
            got = Fraction(int(real[1])) if isinstance(real[1], bool) else Fraction(real[1])
            lv = parse_frac(r["v"])
            if lv == got:
                return
            if in_scope and safe:
                return disagree("evaluate_expression (exact stream)", req, r, real)
            if abs(lv - got) <= TOL * max(1, abs(got)):
                return
            # model is exact, implementation rounds: accept only if the exact ast reference sides with the model
            if in_scope and ref_x and ref_x[0] == "v" and Fraction(ref_x[1]) == lv:
                return
            disagree("evaluate_expression", req, r, real)
        add(req, h_eval)

        tree = real_tree(expr)
        req2 = {"fn": "c15_parse", "expr": expr}

        def h_parse(res, tree=tree, req2=req2):
            per_point["parse tree"] = per_point.get("parse tree", 0) + 1
            if "ok" not in res:
                return disagree("parse", req2, res, tree)
            r = res["ok"]
            if tree is None:
                if r.get("e") != "parse":
                    disagree("parse (implementation rejects)", req2, r, tree)
                return
            if r.get("sexp") != tree:
                return disagree("parse tree", req2, r, tree)
            if not r.get("roundtrip"):
                return disagree("parse(pretty(tree)) = tree (model)", req2, r, tree)
            # the printed form means the same to the real parser
            if real_tree(r["pretty"]) != tree:
                disagree("pretty printed text read by the real parser", req2, r, tree)
        add(req2, h_parse)

    for i in range(n_expr):
        decimal = i % 3 == 2
        env = gen_env(rng, decimal)
        names = VAR_NAMES
        if i % 11 == 0:
            e = gen_zero_expr(rng, names)
        else:
            e = gen_expr(rng, rng.randint(0, 5), decimal, names)
        check_expr(e, env, "tolerance" if decimal else "exact")
    # the same expression under two bindings that hold the SAME values in the same dict order but under swapped names
    # (a result memo keyed on the values alone would answer the second with the first), evaluated back to back
    for i in range(40 if ck.tier == "quick" else 400):
        env = gen_env(rng, False)
        names2 = [n for n in env if isinstance(env[n], (int, float)) and not isinstance(env[n], bool)]
        if len(names2) < 2:
            continue
        a_, b_ = rng.sample(names2, 2)
        if env[a_] == env[b_]:
            env[b_] = env[b_] + 3
        e = f"{a_} - {b_}" if i % 2 == 0 else f"({a_} * 2 + {b_}) * ({gen_expr(rng, 1, False, [a_, b_])})"
        swapped = {}
        for k, v in env.items():        # same insertion order of VALUES, names a_ and b_ exchanged
            swapped[b_ if k == a_ else a_ if k == b_ else k] = v
        check_expr(e, env, "exact")
        check_expr(e, swapped, "exact")
        check_expr(e, env, "exact")
    # arguments of ceil / floor a hair's breadth away from an integer (rounding the argument first would move them)
    for K in (0, 1, 3, 30, -2, 1000):
        for d in ("0.0000001", "0.0000003", "0.00000049", "1 / 4000000", "3 / 90000000", "0.000001"):
            for f in ("ceil", "floor"):
                for sgn in ("+", "-"):
                    check_expr(f"{f}({K} {sgn} {d})", {}, "exact")
                    check_expr(f"{f}(x {sgn} {d})", {"x": K}, "exact")
    env_q = {"x": 0, "a.b": 2.5, "_": 7, "ceil": 9, "e": 2, "E": 3, "a": 1, "b": 4, "c.d": 0.5}
    for q in QUIRKS:
        check_expr(q, env_q, "malformed")
    for i in range(n_mut):
        env = gen_env(rng, False)
        check_expr(mutate_text(rng, gen_expr(rng, rng.randint(0, 3), False, VAR_NAMES)), env, "malformed")

    # ------------------------------------------------------------------ template detection, whitespace class, replace
    spaces_py = [c for c in range(0x3100) if re.match(r"\s", chr(c))]
    add({"fn": "c15_spaces", "hi": 0x3100},
        lambda res: None if res.get("ok") == spaces_py else disagree("\\s character class", {"fn": "c15_spaces"}, res, spaces_py))
    if not all(not re.match(r"\s", chr(c)) for c in range(0x3100, 0x110000) if not 0xD800 <= c <= 0xDFFF):
        ck.broken.append({"kind": "correspondence", "point": "\\s above U+3100"})
    tmpl_re = re.compile(r"^\s*{{(.+)}}\s*$")
    tcases = list(PLAIN_STRINGS) + ["{{ x }}", " {{x}} ", "{{ a }} }}", "{{ {{ 1 }} }}", "{{ 1 }}\n", "\n{{ 1 }}", "{{ 1 }}\n\n",
                                   "{{\n}}", "{{ 1 }} \x0b", "\x1f{{1}}\x85", "{{ 1 }}　", "{{ 1 }}​", "{{}}}", "{{{}}"]
    for _ in range(60 if quick else 600):
        tcases.append("".join(rng.choice(["{", "}", " ", "\n", "\t", "1", "x", "{{", "}}", " ", "+"]) for _ in range(rng.randint(0, 9))))
    for s in tcases:
        m = tmpl_re.search(s)
        exp = m.group(1) if m else None
        if ref_template_body(s) != exp:
            ck.broken.append({"kind": "reference", "point": "template detection of the reference", "input": s})
        add({"fn": "c15_template", "s": s},
            lambda res, s=s, exp=exp: None if res.get("ok", {}).get("body", "?") == exp else disagree("template regex", {"s": s}, res, exp))
        per_point["template regex"] = per_point.get("template regex", 0) + 1

    # ------------------------------------------------------------------ documents: ArithmeticPatch.apply
    doc_classes = {"wf": 0, "not_wf": 0, "errors": 0, "zero_in_list_or_bare": 0, "container_key_template": 0}
    distinct_docs = set()

    def check_doc(doc, env, in_property_stream: bool):
        before = copy.deepcopy(doc)
        real = real_apply(doc, env)
        per_point["ArithmeticPatch.apply"] = per_point.get("ArithmeticPatch.apply", 0) + 1
        if not strict_eq(doc, before):
            fail("ArithmeticPatch.apply", "input-document-mutated", document=before, after=doc)
        if real[0] == "v" and isinstance(doc, (dict, list)):
            # the result shares no container with the input
            r2 = copy.deepcopy(real[1])
            mutate_deep(real[1])
            if not strict_eq(doc, before):
                fail("ArithmeticPatch.apply", "result-shares-containers-with-input", document=before)
            real = ("v", r2)
            doc_classes["zero_in_list_or_bare"] += count_zero_elements(doc, r2)
        if in_property_stream:
            try:
                try:
                    exp = ("v", ref_apply(doc, env))
                except RefError as e:
                    exp = ("e", e.cls)
                ok = real[0] == exp[0] and (value_eq(real[1], exp[1]) if real[0] == "v" else real[1] == exp[1])
                if not ok:
                    try:
                        coded = ("v", ref_apply(doc, env, container_keys=False))
                    except RefError as e:
                        coded = ("e", e.cls)
                    as_coded = real[0] == coded[0] and (value_eq(real[1], coded[1]) if real[0] == "v" else real[1] == coded[1])
                    kind = "template-key-of-container" if as_coded else "template-not-replaced-or-changed"
                    if as_coded:
                        doc_classes["container_key_template"] += 1
                    fail("DFSTraversePatch._apply", kind, document=doc, variables=env, observed=real[1], expected=exp[1])
            except OutOfScope:
                pass
        req = {"fn": "c15_apply", "doc": doc_json(doc), "env": env_json(env)}

        def h(res, real=real, req=req, doc=before, env=env):
            if "ok" not in res:
                return disagree("ArithmeticPatch.apply", req, res, real)
            r = res["ok"]
            a = r["apply"]
            doc_classes["wf" if r["wf"] else "not_wf"] += 1
            if r["wf"] and a != r["spec"]:
                return disagree("model: apply = spec on a well-formed document", req, r, real)
            if real[0] == "e":
                doc_classes["errors"] += 1
            agree = (a.get("e") == real[1]) if real[0] == "e" else ("v" in a and Cmp().same(a["v"], real[1]))
            if not agree:
                if lean_matches_exact_reference(a, doc, env):
                    float_divergence[0] += 1
                else:
                    disagree("ArithmeticPatch.apply", req, a, real)
        add(req, h)

    for i in range(n_doc):
        decimal_vals = i % 4 == 3
        env = gen_env(rng, decimal_vals)

        def make_expr(position, decimal_vals=decimal_vals):
            r = rng.random()
            if r < 0.25:
                return " " + gen_zero_expr(rng, VAR_NAMES) + " "
            if r < 0.3:
                return rng.choice([" nosuchvar ", " 1 / 0 ", " 1 + ", " 2 // zero "])
            # keys stay dyadic so that key collisions are the same for floats and rationals
            return gen_expr(rng, rng.randint(0, 3), decimal_vals and position != "key", VAR_NAMES, pow2_only=position == "key")
        st: dict[str, int] = {}
        doc = gen_doc(rng, rng.randint(1, 4), make_expr, allow_none_elem=False, stats=st)
        for k, v in st.items():
            stats["placements"][k] = stats["placements"].get(k, 0) + v
        distinct_docs.add(repr(doc))
        check_doc(doc, env, True)
    # structural corner cases, correspondence only (None as list element / root, exclude that is not a list)
    corner = [[None], {"a": [1, None]}, None, {"exclude": "a", "a": 1}, {"exclude": None}, {"exclude": {"a": 1}, "a": 2},
              {"exclude": 3}, {"a": {"exclude": ["b"], "b": "{{ 1 }}", "c": "{{ 2 }}"}, "exclude": ["zzz"]},
              {1: "a", "{{ 1 }}": "b", True: "c"}, {"{{ 2 }}": "a", 2: "b", "{{ 1 + 1 }}": "c"},
              {"{{ 1 }}": {"q": "{{ zero }}"}}, {"{{ 1 }}": ["{{ zero }}"]}, {"{{ bad + }}": []}, {"exclude": ["{{ 1 }}"], "{{ 1 }}": 5, 1: 6},
              {"exclude": [1], 1: "x", True: "y", 1.0: "z"}, "{{ zero }}", ["{{ zero }}", "{{ 1 - 1 }}", 0], "plain", 5, True,
              {"k": None}, {None: 1}, {"a": "{{ 1 / 0 }}", "b": "{{ nosuch }}"}, {"a": ["{{ nosuch }}"], "b": "{{ 1 / 0 }}"}]
    for d in corner:
        check_doc(d, {"zero": 0, "x": 1.5}, False)
        distinct_docs.add(repr(d))

    # ------------------------------------------------------------------ Spec.interpret with patch lists
    names_pool = ["ArithmeticPatch", "StringPatch", "KeywordExtendPatch", "NoopPatch", "OtherPatch", "SkillLevelPatch"]
    interp_classes = {"ok": 0, "mismatch": 0, "other_error": 0, "no_patch_list": 0}

    def gen_patch():
        r = rng.random()
        if r < 0.4:
            return ArithmeticPatch(variables=gen_env(rng, False))
        if r < 0.6:
            n = rng.randint(0, 4)
            return StringPatch(as_is=["first_stat", "a", "ll", ""][:n], to_be=["INT", "bb", "l", "-"][:n])
        if r < 0.75:
            return KeywordExtendPatch(target_keyword=rng.choice(["all_stat", "a", "k", ""]),
                                      extends=[["STR", "DEX"], ["x"], [], ["a", "a"], ["b", "c", "b"]][rng.randrange(5)])
        return NoopPatch() if r < 0.9 else OtherPatch()

    for i in range(n_interp):
        env = gen_env(rng, False)

        def make_expr(position):
            return gen_zero_expr(rng, VAR_NAMES) if rng.random() < 0.2 else gen_expr(rng, rng.randint(0, 2), False, VAR_NAMES, pow2_only=True)
        data = gen_doc(rng, rng.randint(1, 3), make_expr, False, {})
        if not isinstance(data, dict):
            data = {"value": data}
        data = {str(k) if not isinstance(k, str) else k: v for k, v in data.items()}
        r = rng.random()
        patch_names = None if r < 0.15 else [rng.choice(names_pool[:5]) for _ in range(rng.randint(0, 3))]
        given = None if rng.random() < 0.1 else [gen_patch() for _ in range(rng.randint(0, 5))]
        if given is not None and patch_names and rng.random() < 0.6:
            # make a fitting list more likely
            given = []
            for n in patch_names:
                while rng.random() < 0.3:
                    given.append(gen_patch())
                p = gen_patch()
                for _ in range(30):
                    if type(p).__name__ == n:
                        break
                    p = gen_patch()
                given.append(p)
        ignore = rng.random() < 0.75
        spec = Spec(kind="K", version="simaple.io/Thing", metadata={"label": {}}, data=copy.deepcopy(data), patch=patch_names,
                    ignore_overflowing_patch=ignore)
        snap = copy.deepcopy(spec.data)
        try:
            real = ("v", spec.interpret(given))
        except Exception as e:  # noqa: BLE001
            real = ("e", err_class(e))
        per_point["Spec.interpret"] = per_point.get("Spec.interpret", 0) + 1
        if not strict_eq(spec.data, snap):
            fail("Spec.interpret", "stored-data-changed-by-interpret", data=snap, patch=patch_names)
        try:
            again = ("v", spec.interpret(given))
        except Exception as e:  # noqa: BLE001
            again = ("e", err_class(e))
        if real[0] != again[0] or not (strict_eq(real[1], again[1])):
            fail("Spec.interpret", "second-interpretation-differs", data=snap, patch=patch_names, first=real[1], second=again[1])
        if again[0] == "v":
            real = (real[0], copy.deepcopy(real[1]))     # the mutation below may reach it through shared containers
            if again[1] is spec.data:
                fail("Spec.interpret", "result-is-Spec.data-itself", data=snap, patch=patch_names,
                     given=[type(p).__name__ for p in given or []])
            else:
                mutate_deep(again[1])
                if not strict_eq(spec.data, snap):
                    fail("Spec.interpret", "result-shares-containers-with-stored-data", data=snap, declared_patch=patch_names,
                         chain=[type(p).__name__ for p in given or []],
                         detail="mutating a nested list/dict of the returned dict changed Spec.data")
        if patch_names is None:
            interp_classes["no_patch_list"] += 1
        interp_classes["ok" if real[0] == "v" else ("mismatch" if real[1] == "mismatch" else "other_error")] += 1
        req = {"fn": "c15_interpret", "data": doc_json(data), "patch": patch_names, "ignore": ignore,
               "patches": None if given is None else [patch_to_json(p) for p in given]}

        def h(res, real=real, req=req):
            if "ok" not in res:
                return disagree("Spec.interpret", req, res, real)
            r = res["ok"]
            if real[0] == "e":
                if r.get("e") != real[1]:
                    disagree("Spec.interpret (error)", req, r, real)
                return
            if "v" not in r or not Cmp().same(r["v"], real[1]):
                disagree("Spec.interpret", req, r, real)
        add(req, h)
    # str.replace model
    for _ in range(40 if quick else 400):
        s = "".join(rng.choice("aab_l. ") for _ in range(rng.randint(0, 10)))
        o = "".join(rng.choice("ab_l") for _ in range(rng.randint(0, 3)))
        n = "".join(rng.choice("abX") for _ in range(rng.randint(0, 3)))
        add({"fn": "c15_replace", "s": s, "old": o, "new": n},
            lambda res, s=s, o=o, n=n: None if res.get("ok") == s.replace(o, n) else disagree("str.replace", {"s": s, "old": o, "new": n}, res, s.replace(o, n)))
        per_point["str.replace"] = per_point.get("str.replace", 0) + 1

    # ------------------------------------------------------------------ shipped specs x real patch chains
    shipped = shipped_specs(ck, fail, quick)
    for raw, variables, result, ref_agrees in shipped.pop("arith_calls"):
        env = {k: v for k, v in variables.items() if v is not None}
        req = {"fn": "c15_apply", "doc": doc_json(raw), "env": env_json(env)}

        def h(res, result=result, req=req, ref_agrees=ref_agrees, raw=raw, env=env):
            per_point["ArithmeticPatch.apply (shipped spec)"] = per_point.get("ArithmeticPatch.apply (shipped spec)", 0) + 1
            if "ok" not in res or "v" not in res["ok"]["apply"]:
                return disagree("ArithmeticPatch.apply (shipped spec)", req, res, result)
            c = Cmp()
            if not res["ok"]["wf"]:
                return disagree("shipped spec is well-formed (Doc.wf)", req, res["ok"]["wf"], result)
            if not c.same(res["ok"]["apply"]["v"], result):
                # exact floor/ceil of a decimal product may differ from the float one: count, do not fail, when the
                # float reference agrees with the implementation and the exact reference with the model
                float_divergence[0] += 1
                if not (ref_agrees and lean_matches_exact_reference(res["ok"]["apply"], raw, env)):
                    disagree("ArithmeticPatch.apply (shipped spec)", req, res["ok"]["apply"], result)
        add(req, h)

    res = ck.driver(reqs, timeout=900)
    lean.__exit__(None, None, None)
    if res is not None:
        for r, h in zip(res, handlers):
            h(r)

    # ------------------------------------------------------------------ the same under concurrent use
    # (the FastAPI thread pool interprets specifications of several requests at once): a few threads evaluate the same
    # expressions under DIFFERENT bindings with a very short switch interval; every answer must be the sequential one
    import sys
    import threading
    names3 = ["x", "y", "skill_level"]
    conc_exprs = ["x + y * skill_level", "(x + y) * skill_level - x", "min(x, y) + max(y, skill_level) + x",
                  "x * 2 + y * 3 + skill_level * 5 + x + y", "ceil(x / 7) + floor(y / 3) + skill_level"]
    conc_exprs += [gen_expr(rng, 2, False, names3) for _ in range(8 if quick else 40)]
    conc_envs = [{"x": 1 + 10 * t, "y": 2 + 100 * t, "skill_level": 3 + 1000 * t} for t in range(4)]
    expected = [[real_eval(e, env) for e in conc_exprs] for env in conc_envs]
    got_all: dict[int, list] = {}

    def conc_worker(t):
        out = []
        for _round in range(6 if quick else 30):
            out.append([real_eval(e, conc_envs[t]) for e in conc_exprs])
        got_all[t] = out
    old_si = sys.getswitchinterval()
    sys.setswitchinterval(1e-6)
    try:
        ths = [threading.Thread(target=conc_worker, args=(t,)) for t in range(len(conc_envs))]
        for th in ths:
            th.start()
        for th in ths:
            th.join(300)
    finally:
        sys.setswitchinterval(old_si)
    conc_points = 0
    for t, rounds in got_all.items():
        for rd in rounds:
            for e, g, w in zip(conc_exprs, rd, expected[t]):
                conc_points += 1
                if repr(g) != repr(w):
                    fail("evaluate_expression", "differs-when-other-threads-evaluate-under-other-bindings", expression=e,
                         variables=conc_envs[t], observed=g, sequential_answer=w,
                         other_threads_bindings=[v for k, v in enumerate(conc_envs) if k != t])
                    break
            else:
                continue
            break
    stats["concurrent_evaluations"] = conc_points

    n_distinct = len(distinct_exprs) + len(distinct_docs)
    ck.coverage.update({
        "evaluations": len(reqs) + shipped["interpret_calls"] * 3,
        "distinct_nontrivial": n_distinct,
        "rule": "seeded expressions from the evaluator's grammar (nesting depth 0..5, all of + - * / // unary minus "
                "parentheses min max ceil floor apply_attack_speed < >, `_` digit separators, leading zeros, `.5`/`3.` "
                "forms, dotted / underscored / keyword-like variable names, random blanks and tabs) with seeded variable "
                "bindings incl. undefined variables and zero divisors; 2/3 of them over dyadic values (compared exactly "
                "whenever every intermediate value is dyadic), 1/3 over decimal literals (tolerance 1e-9); a fixed list "
                "of lexical corner cases and random one/two-character corruptions (both sides must reject alike); "
                "documents of depth 1..4 with templates as key / value / list element / bare scalar, zero-valued "
                "expressions, failing expressions, non-template look-alikes, None/bool/number leaves, `exclude` lists, "
                "colliding keys; Spec.interpret with random `patch` name lists and given patch lists (Arithmetic, "
                "String, KeywordExtend, two no-op classes), both overflow modes; every shipped spec under the patch "
                "chains the real builders pass.  distinct = distinct expressions up to blanks + distinct documents",
        "samples": samples[:4],
        "model_vs_code_requests": len(reqs),
        "model_vs_code_disagreements": disagreements[0],
        "per_point": per_point,
        "expression_streams": {k: stats[k] for k in ("expr_exact", "expr_tolerance", "malformed", "zero_results")},
        "expression_errors_agreed": stats["expr_errors"],
        "operator_occurrences": stats["operators"],
        "template_placements": stats["placements"],
        "document_classes": doc_classes,
        "interpret_classes": interp_classes,
        "float_rounding_divergences": float_divergence[0],
        "shipped": shipped,
    })
    ck.assumptions += [
        "Python floats are modelled by exact rationals: results are compared exactly on the dyadic stream and within "
        "1e-9 otherwise; where floor/ceil/compare of a rounded float differs from the exact value the case is "
        "counted (float_rounding_divergences) and accepted only if the float-mode ast reference equals the implementation",
        "True/False produced by > and < are identified with 1/0 (Python: True == 1)",
        "ints and floats are one kind of number in the model (1 and 1.0 are not told apart)",
        "variables are bound to numbers (a None binding, as get_passive passes for weapon_pure_attack_power, is outside the model)",
        "Lark's Earley parser with the dynamic lexer is not modelled; the hand-written lexer + precedence parser is "
        "compared with it on every generated, corner-case and corrupted text (tree by tree)",
        "SkillLevelPatch / VSkillImprovementPatch / HexaSkillImprovementPatch / PassiveHyperskillPatch / "
        "SkillImprovementPatch are exercised on the real objects only (snapshot checks), not modelled",
    ]
    ck.finish("proof",
              trusted_base=["Lean 4.33 kernel", "axioms: propext, Classical.choice, Quot.sound (checked by #print axioms)",
                            "hand-written models Simaple/Model/SpecMath.lean, SpecPatch.lean (validated by the correspondence in this run)",
                            "Python's own grammar (ast) as the meaning of precedence and associativity",
                            "CPython float arithmetic ~ exact rationals within 1e-9 away from floor/ceil boundaries"],
              checker_cmd="cd lean && lake build Simaple.Props.C15 && lake env lean Simaple/Audit/C15.lean")


# ====================================================================== shipped specs, real chains, side effects
def shipped_specs(ck: Check, fail, quick: bool) -> dict:
    """every shipped spec under the patch chains the real builders use: interpret() leaves Spec.data and the whole
    repository untouched, gives the same result again, and the result shares nothing with the store."""
    import simaple.data.jobs.builtin as B
    from simaple.container.simulation import get_skill_components
    from simaple.core import JobType
    from simlib import JOBS, make_env

    repo = B.get_kms_jobs_repository()
    db_snapshot = [copy.deepcopy(s.data) for s in repo._db]
    by_data = {id(s.data): i for i, s in enumerate(repo._db)}
    out: dict[str, Any] = {"specs": len(repo._db), "interpret_calls": 0, "specs_interpreted": 0, "chains": {},
                           "arith_calls": [], "aliasing_specs": 0, "arith_templates": 0, "arith_docs_vs_reference": 0}
    touched: set[int] = set()
    alias_reported: set[int] = set()
    orig_interpret = Spec.interpret
    orig_arith_apply = ArithmeticPatch.apply
    rng = ck.rng
    arith_budget = [40 if quick else 100000]

    def checked_interpret(self, patches=None):
        idx = by_data.get(id(self.data))
        d0 = self.data
        snap = copy.deepcopy(self.data)
        r1 = orig_interpret(self, patches)
        out["interpret_calls"] += 1
        if self.data is not d0:
            fail("Spec.interpret", "Spec.data-rebound-by-interpret", spec=dict(self.metadata.label), declared_patch=self.patch)
            self.data = d0
        if r1 is d0:
            fail("Spec.interpret", "result-is-Spec.data-itself", spec=dict(self.metadata.label), declared_patch=self.patch)
            return copy.deepcopy(r1)
        chain = tuple(type(p).__name__ for p in patches) if patches is not None else None
        key = f"{self.kind}: declared={self.patch} given={list(chain) if chain is not None else None}"
        out["chains"][key] = out["chains"].get(key, 0) + 1
        label = dict(self.metadata.label)
        if idx is not None:
            touched.add(idx)
        if not strict_eq(self.data, snap):
            fail("Spec.interpret", "stored-data-changed-by-interpret", spec=label, chain=chain)
            return r1
        r2 = orig_interpret(self, patches)
        if not strict_eq(r1, r2):
            fail("Spec.interpret", "second-interpretation-differs", spec=label, chain=chain)
        mutate_deep(r2)
        if not strict_eq(self.data, snap):
            if idx not in alias_reported:
                alias_reported.add(idx)
                out["aliasing_specs"] += 1
                fail("Spec.interpret", "result-shares-containers-with-stored-data", spec=label, declared_patch=self.patch,
                     chain=chain, detail="mutating a nested list/dict of the returned dict changed Spec.data in the repository")
            self.data.clear()
            self.data.update(copy.deepcopy(snap))     # repair the store so that the run goes on; r1 shares the
            if self.data is not d0:                   # mutated containers too, so hand out a fresh result
                self.data = d0
                d0.clear()
                d0.update(copy.deepcopy(snap))
            return orig_interpret(self, patches)
        else:
            r3 = orig_interpret(self, patches)
            if not strict_eq(r1, r3):
                fail("Spec.interpret", "interpretation-after-mutating-result-differs", spec=label, chain=chain)
        return r1

    def recorded_arith_apply(self, raw):
        before = copy.deepcopy(raw)
        result = orig_arith_apply(self, raw)
        if not strict_eq(raw, before):
            fail("ArithmeticPatch.apply", "input-document-mutated", document=before)
        n_tmpl = sum(1 for _ in iter_templates(raw))
        if n_tmpl:
            env = {k: v for k, v in self.variables.items() if v is not None}
            try:
                exp = ref_apply(raw, env)
                agrees = value_eq(result, exp)
                if not agrees:
                    fail("ArithmeticPatch.apply", "shipped-spec-differs-from-ordinary-arithmetic", document=raw,
                         observed=result, expected=exp)
            except (OutOfScope, RefError) as e:
                agrees = False
                fail("ArithmeticPatch.apply", "shipped-spec-outside-reference", document=raw, error=repr(e))
            out["arith_templates"] += n_tmpl
            out["arith_docs_vs_reference"] += 1
            if arith_budget[0] > 0:
                arith_budget[0] -= 1
                out["arith_calls"].append((before, dict(self.variables), copy.deepcopy(result), agrees))
        return result

    jobs = JOBS[:3] if quick else JOBS
    variants = [1] if quick else [0, 1, 2]
    with mock.patch.object(Spec, "interpret", checked_interpret), \
            mock.patch.object(ArithmeticPatch, "apply", recorded_arith_apply):
        for job in jobs:
            for v in variants:
                if ck.own_time_left() < 20:
                    ck.notes.append(f"shipped-spec sweep stopped at {job}/{v}: budget")
                    break
                try:
                    env = make_env(job, v)       # get_skill_profile etc. are called while the environment is built
                    get_skill_components(env)
                    B.get_damage_logic(JobType(job), env.combat_orders_level)
                    B.get_builtin_strategy(JobType(job))
                    B.get_passive(JobType(job), env.combat_orders_level, env.passive_skill_level, env.level,
                                  weapon_pure_attack_power=env.weapon_pure_attack_power)
                except Exception as e:  # noqa: BLE001 - the real builders must not raise on shipped data
                    fail("build_skills", "builder-raised", job=job, variant=v, error=f"{type(e).__name__}: {str(e)[:300]}")
        # specs the builders did not reach in this run: the generic chains, directly
        from simaple.data.jobs.patch import SkillLevelPatch
        rest = [i for i in range(len(repo._db)) if i not in touched]
        if quick:
            rng.shuffle(rest)
            rest = rest[:60]
        generic_vars = {"character_level": 260, "weapon_attack_power": 700, "weapon_pure_attack_power": 500,
                        "combat_orders_level": 1, "passive_skill_level": 1,
                        **{f"character_stat.{k}": 1000 for k in ("STR", "DEX", "INT", "LUK", "critical_rate", "attack_power", "magic_attack")}}
        for i in rest:
            s = repo._db[i]
            chain = [SkillLevelPatch(combat_orders_level=1, passive_skill_level=1), ArithmeticPatch(variables=generic_vars)]
            declared = s.patch or []
            if any(n not in ("SkillLevelPatch", "ArithmeticPatch") for n in declared):
                # the remaining declared patches are produced by the builders only; stand-ins that keep the data
                chain += [type(n, (NoopPatch,), {})() for n in declared[2:]]
            try:
                s.model_copy().interpret(chain)
            except Exception as e:  # noqa: BLE001
                ck.notes.append(f"generic chain on spec {dict(s.metadata.label)} raised {type(e).__name__}: {str(e)[:120]}")
    out["specs_interpreted"] = len(touched)
    changed = [i for i, (s, snap) in enumerate(zip(repo._db, db_snapshot)) if not strict_eq(s.data, snap)]
    for i in changed[:5]:
        fail("DirectorySpecRepository", "stored-spec-changed-after-builds", spec=dict(repo._db[i].metadata.label))
    out["repository_specs_changed"] = len(changed)
    out["chains"] = dict(sorted(out["chains"].items(), key=lambda kv: -kv[1])[:25])
    return out


def count_zero_elements(doc, res) -> int:
    """templates that are list elements / bare scalars and were replaced by 0"""
    if isinstance(doc, str):
        return int(ref_template_body(doc) is not None and not isinstance(res, str) and res == 0)
    if isinstance(doc, list) and isinstance(res, list) and len(doc) == len(res):
        return sum(count_zero_elements(a, b) for a, b in zip(doc, res) if isinstance(a, (str, list, dict)))
    if isinstance(doc, dict) and isinstance(res, dict):
        return sum(count_zero_elements(v, res[k]) for k, v in doc.items() if isinstance(v, (list, dict)) and k in res
                   and isinstance(k, str) and ref_template_body(k) is None)
    return 0


def iter_templates(d):
    if isinstance(d, dict):
        for k, v in d.items():
            if isinstance(k, str) and ref_template_body(k) is not None:
                yield k
            yield from iter_templates(v)
    elif isinstance(d, list):
        for v in d:
            yield from iter_templates(v)
    elif isinstance(d, str) and ref_template_body(d) is not None:
        yield d


if __name__ == "__main__":
    run_check("C15", main)
