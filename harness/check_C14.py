"""C14 -- plan text round-trips: printed operations re-parse to themselves.

proof (lean/Simaple/Props/C14.lean over the hand model lean/Simaple/Model/Dsl.lean)
 + correspondence of the model with the REAL Lark parser (parse_dsl_to_command / parse_simaple_runtime)
 + the property evaluated directly on the real code.
"""
from __future__ import annotations

import json
import math
import re
import struct

import yaml
from lark.exceptions import UnexpectedInput, VisitError

from vlib import REPO, Check, run_check

from simaple.simulate.policy import parser as dsl_parser
from simaple.simulate.policy.base import ConsoleText, Operation
from simaple.simulate.policy.handlers import get_operation_handlers
from simaple.simulate.policy.parser import (
    DSLError,
    parse_dsl_to_command,
    parse_dsl_to_operations,
    parse_simaple_runtime,
)

# ------------------------------------------------------------------------------------------ helpers


def fhex(x):
    return None if x is None else float(x).hex()


def canon_real(cmds):
    out = []
    for c in cmds:
        if isinstance(c, Operation):
            out.append(["op", c.command, c.name, fhex(c.time), c.expr])
        elif isinstance(c, ConsoleText):
            out.append(["console", c.text])
        else:
            out.append(["?", repr(c)])
    return out


def classify_exc(e: BaseException) -> str:
    c = e.__cause__ if isinstance(e, DSLError) and e.__cause__ is not None else e
    if isinstance(c, UnexpectedInput):
        return "syntax"
    if isinstance(c, VisitError):
        o = c.orig_exc
        if isinstance(o, yaml.YAMLError):
            return "yaml"
        if isinstance(o, ValueError):
            return "valueError"
        return "visit:" + type(o).__name__
    return "other:" + type(c).__name__


def real_body(text):
    try:
        return canon_real(parse_dsl_to_command(text))
    except Exception as e:  # noqa: BLE001
        return classify_exc(e)


def real_runtime(text):
    try:
        meta, cmds = parse_simaple_runtime(text)
    except Exception as e:  # noqa: BLE001
        return None, classify_exc(e)
    return meta, canon_real(cmds)


def canon_model_cmds(cmds):
    """model commands (numbers as tokens) -> canonical form, applying Python's float/repr to the tokens"""
    out = []
    for c in cmds:
        if c["k"] == "console":
            out.append(["console", c["text"]])
            continue
        tok = c["time"]
        if tok is None:
            out.append(["op", c["command"], c["name"], None, c["expr"]])
        else:
            x = float(tok)
            assert c["expr"].endswith(tok)
            out.append(["op", c["command"], c["name"], x.hex(), c["expr"][: len(c["expr"]) - len(tok)] + repr(x)])
    return out


def yaml_eq(a, b):
    try:
        return a == b or (json.dumps(a, sort_keys=True, default=str) == json.dumps(b, sort_keys=True, default=str))
    except Exception:  # noqa: BLE001
        return False


# ------------------------------------------------------------------------------------------ generators

CMD_WORDS = list(get_operation_handlers().keys())  # every command word of the engine
ODD_WORDS = ["x", "xx", "e", "E", "cast", "Xx", "ELAPSEx"]
NAME_ATOMS = ["a", "b c", "#", " # not a comment", '\\"', "\\\\", "한글 이름", "라이트닝 스피어", "체인 라이트닝 VI",
              "it's", "x3", "\t", "\r", "名前", "é", "😀", "---", "!debug", "\\n", "  ", "1e5", "\\\\\\\"", ".", "+"]
FIXED_NAMES = ["", "a", "a b", "a  b", "a\tb", " a b", "a b ", "#x", 'a\\"b', "한글 이름", "\\\\", "a # b", "it's", "x3", "tab\there", "a\rb",
               "라이트닝 스피어", "체인 라이트닝 VI", "플레임 스윕", '\\"', "\\\\\\\"", "---", "\n---".replace("\n", "\\n")]
NUMS = ["5", "-2", "+3", "1e3", ".5", "5.", "1.5e-3", "0", "00012", "1E+2", "-0", "2.5", "-.5e1", "3.e2", "210",
        "200.0", "1e-400", "123456789012345678901234567890", "0.1", "4.35", "1e22", "1e23", "9007199254740993",
        "0.30000000000000004", "1e+16", "5e-324", "1.7976931348623157e308", "-0.0", "+.0e-0"]
OVERFLOW_NUMS = ["1e400", "-1e999", "1.8e308"]
MULTS = ["3", "0", "-1", "+2", "1", "10", "007", "-0", "2", "12"]
BAD_MULTS = ["2.5", "1e1", ".5", "3."]


def rand_name(rng):
    if rng.random() < 0.5:
        return rng.choice(FIXED_NAMES)
    return "".join(rng.choice(NAME_ATOMS) for _ in range(rng.randint(0, 4)))


def rand_num(rng):
    r = rng.random()
    if r < 0.5:
        return rng.choice(NUMS)
    if r < 0.55:
        return rng.choice(OVERFLOW_NUMS)
    if r < 0.75:
        return repr(rand_float(rng))
    if r < 0.85:
        return f"{rng.uniform(-1e4, 1e4):.3f}"
    m = rng.choice(["", "+", "-"]) + str(rng.randint(0, 9999))
    if rng.random() < 0.5:
        m += "." + (str(rng.randint(0, 999)) if rng.random() < 0.7 else "")
    if rng.random() < 0.4:
        m += rng.choice("eE") + rng.choice(["", "+", "-"]) + str(rng.randint(0, 30))
    return m


def rand_float(rng):
    r = rng.random()
    if r < 0.3:
        return struct.unpack("<d", struct.pack("<Q", rng.getrandbits(64) & 0x7FEFFFFFFFFFFFFF))[0] * rng.choice([1, -1])
    if r < 0.6:
        return rng.uniform(-1e6, 1e6)
    if r < 0.8:
        return float(rng.randint(-10**6, 10**6)) / rng.choice([1, 2, 4, 8, 10, 1000])
    return rng.choice([0.0, -0.0, 1e16, 1e-5, 5e-324, 1.7976931348623157e308, 123456789.125, 0.1 + 0.2])


VALIDISH = [False]


def gap_ws(rng):
    if VALIDISH[0]:
        return rng.choice([" ", " ", "  ", "\t", " \t ", "\x0c", " #c\n", "\n"])
    return rng.choice([" ", " ", " ", "  ", "\t", " \t ", "\n", " #c\n", "#c\n ", "\x0c", "\r", " \n ", "#c\n#d\n", ""])


def gap_sep(rng):
    if VALIDISH[0]:
        return rng.choice(["\n", "\n", "\r\n", "\n\n", " \n", " #c\n", "\n#c\n", "\n \n", "\n\t\n", "\n  \n  ",
                           "\n\n#c\n\n", " # x \"y\" \r\n", " #c\n\n#d\n \n", "\n#c\n#d\n"])
    return rng.choice(["\n", "\n", "\n", "\r\n", "\n\n", " \n", "\n ", " #c\n", "\n#c\n", "\n#c\n#d\n", " #c\n#d\n",
                       " #c\n#d\n#e\n", "\n \n", "\n\t\n", "\n  \n  ", "\t\n", "\n\n#c\n\n", "\n \n#c\n", " ", "",
                       "\r", "\r\r\n", "\n\r", "\n\r\n", "#c\n\n#d\n \n", " # x \"y\" \r\n"])


def gap_lead(rng):
    return rng.choice(["", "", "", " ", "\n", "#c\n", "#c\n#d\n", "\t", " \n ", "  #c\n\t"])


def gap_trail(rng):
    return rng.choice(["", "", "", " ", "  ", " #c", "#c", "\n", "\n#c", "\t", " #c\n", "\r"])


def rand_item(rng, words):
    k = rng.random()
    c = rng.choice(words)
    if k < 0.3:
        s = c + gap_ws(rng) + '"' + rand_name(rng) + '"' + gap_ws(rng) + rand_num(rng)
    elif k < 0.6:
        s = c + gap_ws(rng) + '"' + rand_name(rng) + '"'
    elif k < 0.9:
        s = c + gap_ws(rng) + rand_num(rng)
    else:
        return "!debug" + gap_ws(rng) + '"' + rand_name(rng) + '"'
    if rng.random() < 0.3:
        m = rng.choice(MULTS + BAD_MULTS)
        s = "x" + rng.choice(["", "", " ", "  "]) + m + rng.choice(["", " ", " ", "\n", "\t", " #c\n", "  "]) + s
    return s


def rand_text(rng):
    words = CMD_WORDS * 3 + ODD_WORDS
    VALIDISH[0] = rng.random() < 0.6
    s = gap_lead(rng) + rand_item(rng, words)
    for _ in range(rng.randint(0, 3)):
        s += gap_sep(rng) + rand_item(rng, words)
    s += gap_trail(rng)
    if rng.random() < (0.05 if VALIDISH[0] else 0.2) and s:
        i = rng.randrange(len(s))
        ch = rng.choice([" ", "\n", "\t", "#", '"', "x", "1", "\\", "-", ".", "e", "!", "\r", "한"])
        s = s[:i] + ch + s[i + rng.randint(0, 1):]
    return s


HDRS = ["---\na: 1\n---", "a: 1\nb:\n  c: 2\n---", "---\n---", "a: 1\n---\nCAST \"q\"\n---", "#c\nfoo\n---",
        "a: \"x\n---y\"\n---", "---\nname: 한글\nlist: [1, 2.5, x]\n---", "{a: 1\n---"]
AFTER_HDR = ["\n", "", " ", "\n\n", "\n#c\n", "\n#c\n#d\n", "\n#c\n#d\n#e\n", "\n \n", "\t\n", " #c\n", "\n\t",
             "\n#c\n\t#d\n ", "\r\n", " \n#c\n \n#d\n \n"]
PY_WS = ["", " ", "\n", "\n\n  ", "\t", "\x0b", "\x1c", "\x85", "\xa0", "\u2009", "\u3000", "\u200b", "\ufeff"]


def rand_runtime_text(rng):
    body = rand_text(rng)
    s = rng.choice(PY_WS)
    if rng.random() < 0.7:
        s += rng.choice(HDRS) + rng.choice(AFTER_HDR)
    return s + body + rng.choice(PY_WS)


def systematic_texts():
    out = []
    for c in CMD_WORDS + ["x"]:
        for n in FIXED_NAMES:
            out.append(f'{c} "{n}"')
            out.append(f'{c} "{n}" 200.0')
        for t in NUMS + OVERFLOW_NUMS:
            out.append(f"{c} {t}")
            out.append(f'{c} "플레임 스윕" {t}')
    for m in MULTS + BAD_MULTS:
        out.append(f'x{m} CAST "a"')
        out.append(f"x{m} ELAPSE 10")
        out.append(f'x {m} USE "a b" 1.5')
    base = ['USE "플레임 스윕" 200.0', 'CAST "플레임 스윕"', '!debug "abcd"', "ELAPSE 200.0", 'x2 CAST "a"']
    for sep in ["\n", "\r\n", "\n\n", "\n\r\n", " \n", "\n ", "\n\t", "\t\n", " # c\n", "\n# c\n", "\r", "\n#a\n#b\n"]:
        out.append(sep.join(base))
        out.append(sep.join(base) + sep)
        out.append(sep + sep.join(base))
    for ws in [" ", "  ", "\t", " \t", "\n", "\x0c", ""]:
        out.append(f'CAST{ws}"a"{ws}5')
        out.append(f'!debug{ws}"a"')
        out.append(f'x3{ws}CAST "a"')
        out.append(f'x{ws}3 CAST "a"')
    out += ["", " ", "\n", "#c", "CAST", 'CAST "a', 'CAST "a" 5 6', "!debug", "! debug \"a\"", 'x 3', 'x 3\nCAST "a"',
            'x 3\nCAST "a"\nCAST "b"', 'x3\nCAST "a"', 'x3CAST "a"', "ELAPSE 1e", "ELAPSE 1e+", "ELAPSE 1.2.3", "ELAPSE --1",
            'CAST "a"b" 5', 'CAST "a\\" 5', "E1 5", 'CAST "a"\n5', 'CAST\n"a"']
    return out


# decorated layouts for the property check ---------------------------------------------------------

def valid_name_inner(s: str) -> bool:
    text = '"' + s + '"'
    m = ESC_STRING_RE.match(text)
    return m is not None and m.end() == len(text)


ESC_STRING_RE = None
SIGNED_NUMBER_RE = None


def load_terminal_regexes():
    global ESC_STRING_RE, SIGNED_NUMBER_RE
    terms = {t.name: t for t in dsl_parser.get_parser().terminals}
    ESC_STRING_RE = re.compile(terms["ESCAPED_STRING"].pattern.to_regexp())
    SIGNED_NUMBER_RE = re.compile(terms["SIGNED_NUMBER"].pattern.to_regexp())


def rand_cmd_list(rng, n=None, allow_console=True, allow_mult=True):
    """abstract command lines: (mult|None, kind, command, name, numtok)"""
    lines = []
    for _ in range(n or rng.randint(1, 5)):
        k = rng.random()
        c = rng.choice(CMD_WORDS)
        name = rand_name(rng)
        while not valid_name_inner(name):
            name = rand_name(rng)
        num = rng.choice([t for t in NUMS]) if rng.random() < 0.6 else repr(abs(rand_float(rng)) % 1e9)
        if allow_console and k < 0.15:
            lines.append((None, "console", None, name, None))
            continue
        kind = "full" if k < 0.45 else ("skill" if k < 0.75 else "time")
        mult = rng.choice(MULTS) if (allow_mult and rng.random() < 0.25) else None
        lines.append((mult, kind, c, name, num))
    return lines


def line_tokens(l):
    mult, kind, c, name, num = l
    toks = []
    if mult is not None:
        toks += ["x", mult]
    if kind == "console":
        toks += ["!debug", f'"{name}"']
    elif kind == "full":
        toks += [c, f'"{name}"', num]
    elif kind == "skill":
        toks += [c, f'"{name}"']
    else:
        toks += [c, num]
    return toks


def canonical_line(l):
    mult, kind, c, name, num = l
    toks = line_tokens(l)
    if mult is not None:
        return "x" + mult + " " + " ".join(toks[2:])
    return " ".join(toks)


def is_strict(l):
    return l[0] is not None or l[1] == "console"


def rand_comment(rng):
    return "#" + rng.choice(["", " note", " x \"y\" 5", "한글 # again", "\t!debug", "---", " CAST \"a\""])


def decorate_good(rng, lines, crlf=False):
    """a layout inside the class of theorem layout_irrelevant_partial"""
    nl = "\r\n" if crlf else "\n"
    blanks = lambda lo=0: "".join(rng.choice(" \t") for _ in range(rng.randint(lo, 3)))  # noqa: E731
    spaces = lambda lo=0: " " * rng.randint(lo, 3)  # noqa: E731
    out = ""
    # before the first command
    first = lines[0]
    if is_strict(first):
        out += spaces()
    else:
        r = rng.random()
        if r < 0.4:
            out += blanks()
        elif r < 0.7:
            out += "".join(rng.choice([" ", "\t", nl]) for _ in range(rng.randint(0, 4)))
        else:
            out += spaces() + rand_comment(rng) + nl + blanks()
    for i, l in enumerate(lines):
        toks = line_tokens(l)
        if l[0] is not None:
            s = "x" + spaces() + toks[1] + blanks(1 if toks[2][0] in "eE" else 0) + toks[2]
            rest = toks[3:]
        else:
            s = toks[0]
            rest = toks[1:]
        for t in rest:
            s += blanks(1) + t
        out += s
        # end of the line
        eol_comment = rng.random() < 0.4
        out += spaces() + (rand_comment(rng) if eol_comment else "")
        if i == len(lines) - 1:
            break
        nxt = lines[i + 1]
        empties = nl * rng.randint(1, 3)
        if is_strict(nxt):
            out += empties + spaces()
        else:
            r = rng.random()
            if r < 0.35:
                out += empties + blanks()
            elif r < 0.7:
                out += nl + "".join(rng.choice([" ", "\t", nl, nl]) for _ in range(rng.randint(0, 6)))
            else:  # one whole-line comment, only empty lines before it
                out += empties + spaces() + rand_comment(rng) + nl + "".join(
                    rng.choice([" ", "\t", nl]) for _ in range(rng.randint(0, 4)))
    return out


def decorate_excluded(rng, lines, kind):
    """a layout in one of the classes EXCLUDED from the theorem (known finding F13); returns None if the
    command list has no place for it"""
    canon = [canonical_line(l) for l in lines]
    if kind == "trailing-comment-line":
        return "\n".join(canon) + rng.choice(["\n", " \n", "\n\n"]) + rng.choice(["", "  "]) + rand_comment(rng)
    if kind == "trailing-blank-line":
        return "\n".join(canon) + rng.choice(["\n", "\n\n", "\n  ", "\r\n"])
    if kind == "trailing-tab":
        i = rng.randrange(len(canon))
        canon[i] = canon[i] + rng.choice(["\t", " \t", "\t "])
        return "\n".join(canon)
    if kind == "comment-line-run":
        idx = [i for i in range(1, len(lines)) if not is_strict(lines[i])]
        if not idx:
            return "\n".join([rand_comment(rng)] * 2 + canon) if not is_strict(lines[0]) else None
        i = rng.choice(idx)
        k = rng.randint(2, 4)
        return "\n".join(canon[:i] + [rand_comment(rng) for _ in range(k)] + canon[i:])
    if kind == "filler-before-console":
        idx = [i for i in range(1, len(lines)) if lines[i][1] == "console"]
        if not idx:
            return None
        i = rng.choice(idx)
        filler = rng.choice([rand_comment(rng), "  ", "\t", " \t "])
        return "\n".join(canon[:i] + [filler] + canon[i:])
    raise ValueError(kind)


F13_KINDS = ["trailing-comment-line", "trailing-blank-line", "comment-line-run", "filler-before-console", "trailing-tab"]


def expected_cmds(lines):
    """what the command list denotes, as canonical real-form entries"""
    out = []
    for l in lines:
        mult, kind, c, name, num = l
        if kind == "console":
            out.append(["console", name])
            continue
        if kind == "full":
            x = float(num)
            e = ["op", c, name, x.hex(), f'{c} "{name}" {x}']
        elif kind == "skill":
            e = ["op", c, name, None, f'{c} "{name}"']
        else:
            x = float(num)
            e = ["op", c, "", x.hex(), f"{c} {x}"]
        out += [e] * (max(int(mult), 0) if mult is not None else 1)
    return out


def render_plan(meta, cmds):
    """the plan text as simaple/api/base.py writes it (provide_environment_augmented_plan,
    get_initial_plan_from_baseline): yaml.safe_dump(meta, indent=2, allow_unicode=True) between `---` lines,
    then the operations one per line (an Operation prints as its `expr`, a console line as `!debug "text"`)"""
    dumped = yaml.safe_dump(meta, indent=2, allow_unicode=True)
    body = "\n".join(c.expr if isinstance(c, Operation) else f'!debug "{c.text}"' for c in cmds)
    return f"---\n{dumped}\n---\n{body}", dumped


def rand_meta(rng, depth=0):
    keys = ["author", "provider", "environment", "name", "한글키", "a b", "level", "x", "data", "---"]
    d = {}
    for _ in range(rng.randint(0 if depth else 1, 4)):
        k = rng.choice(keys)
        r = rng.random()
        if r < 0.25 and depth < 2:
            d[k] = rand_meta(rng, depth + 1)
        elif r < 0.4:
            d[k] = [rng.choice([1, 2.5, "x", "라이트닝", None, True]) for _ in range(rng.randint(0, 3))]
        elif r < 0.6:
            d[k] = rng.choice(["archmagetc", "a: b", "# not comment", "\n---\nCAST", "multi\nline", "", " lead", "trail ", "'q'", '"dq"', "1e3", "null", "---",
                               # values whose last character is one of the characters of the closing `---` line
                               "burst 0-", "260-", "a--", "x -", "tail-\n"])
        elif r < 0.8:
            d[k] = rng.choice([0, 270, -5, 2.5, 1e22, 1e-7, 40000])
        else:
            d[k] = rng.choice([None, True, False])
    return d


# ------------------------------------------------------------------------------------------ the check


def main(ck: Check):
    rng = ck.rng
    quick = ck.tier == "quick"
    load_terminal_regexes()
    n_rand = 1500 if quick else 40000
    n_rt = 600 if quick else 15000
    n_layout = 300 if quick else 8000
    n_float = 20000 if quick else 400000
    n_engine = 2 if quick else 12

    lean = ck.locked()
    lean.__enter__()
    proved = ck.prove("Simaple.Props.C14")
    if ck.tier == "thorough" and proved:
        ck.leanchecker(["Simaple.Props.C14"])

    # ------------------------------------------------------------ correspondence: model vs the real Lark parser
    body_texts = systematic_texts() + [rand_text(rng) for _ in range(n_rand)]
    rt_texts = [rand_runtime_text(rng) for _ in range(n_rt)]
    # plans printed by the writer (model's renderPlanText vs the harness's render_plan, then both parsers)
    plan_cases = []
    for _ in range(60 if quick else 400):
        lines = [l for l in rand_cmd_list(rng, allow_mult=False)]
        cmds = []
        for l in lines:
            _, kind, c, name, num = l
            if kind == "console":
                cmds.append(ConsoleText(text=name))
            else:
                try:
                    cmds += parse_dsl_to_operations(canonical_line(l))
                except Exception as e:   # a line in canonical layout must parse: a failing input, not a crash
                    ck.add_failing({"kind": "canonical-line-rejected", "text": canonical_line(l),
                                    "error": f"{type(e).__name__}: {str(e)[:200]}"})
        meta = rand_meta(rng)
        text, dumped = render_plan(meta, cmds)
        plan_cases.append((meta, cmds, text, dumped))
        rt_texts.append(text)
    # floats: repr(x) must be ONE number token for the model's scanner as well
    float_sample = [rand_float(rng) for _ in range(400 if quick else 3000)]

    # `xN <op>` with an astronomically large N: Python answers `[op] * N` with MemoryError / OverflowError or not,
    # depending on the machine (a resource limit, not a rule of the language), and the model would build the list.
    # Such texts are outside the comparison (counted); N up to 10^6 is compared.
    huge_mult = re.compile(r"x\s*[+-]?0*[1-9]\d{6,}")
    n_huge = sum(1 for t in body_texts + rt_texts if huge_mult.search(t))
    body_texts = [t for t in body_texts if not huge_mult.search(t)]
    rt_texts = [t for t in rt_texts if not huge_mult.search(t)]
    reqs = [{"fn": "dsl_parse_body", "text": t} for t in body_texts]
    reqs += [{"fn": "dsl_parse_runtime", "text": t} for t in rt_texts]
    n_body, n_runtime = len(body_texts), len(rt_texts)
    for meta, cmds, text, dumped in plan_cases:
        js = []
        for c in cmds:
            if isinstance(c, ConsoleText):
                js.append({"k": "console", "text": c.text})
            else:
                shape = "skill" if c.time is None else ("time" if c.expr == f"{c.command} {c.time}" else "full")
                js.append({"k": "op", "command": c.command, "name": c.name, "shape": shape,
                           "time": None if c.time is None else repr(c.time)})
        reqs.append({"fn": "dsl_render_plan", "dumped": dumped, "cmds": js})
    reqs += [{"fn": "dsl_lex", "text": repr(x)} for x in float_sample]
    space_cps = sorted({cp for cp in range(0x110000) if not (0xD800 <= cp <= 0xDFFF) and chr(cp).isspace()})
    probe_cps = sorted(set(space_cps) | {cp + d for cp in space_cps for d in (-1, 1) if 0 <= cp + d < 0x110000 and not (0xD800 <= cp + d <= 0xDFFF)}
                       | set(range(0, 256)) | {rng.randrange(0x100, 0xD800) for _ in range(300)})
    reqs.append({"fn": "dsl_is_space", "cps": [str(c) for c in probe_cps]})
    int_toks = MULTS + BAD_MULTS + NUMS + ["+", "-", "", "+-1", "1_0", "٣"]
    reqs += [{"fn": "dsl_py_int", "text": t} for t in int_toks]

    res = ck.driver(reqs)
    lean.__exit__(None, None, None)

    disagreements = 0
    stats = {"body": 0, "runtime": 0, "render_plan": 0, "float_token": 0, "is_space": 0, "py_int": 0,
             "model_ambiguous_skipped": 0, "real_ok": 0, "real_syntax": 0, "real_valueError": 0, "real_yaml": 0,
             "huge_multiplier_texts_outside_the_comparison": n_huge}
    parsed_ok_texts = []   # (text, real canonical result)

    num_re = re.compile(r"[+-]?(?:\d+\.?\d*|\.\d+)(?:[eE][+-]?\d+)?")
    drop_re = re.compile(r"x[ \t]*(?:-\d+|\+?0+)(?![\d.]|[eE][+-]?\d)")

    def outside_model(text: str) -> bool:
        """the one case the model does not see (Model/Dsl.lean `interpAll`): a time literal that overflows to inf in
        an operation that a multiplier <= 0 then drops (the real transformer still raises ValueError for it)"""
        if not drop_re.search(text) and not re.search(r"x[ \t]*[+-]?\d", text):
            return False
        for m in num_re.finditer(text):
            try:
                if math.isinf(float(m.group(0))):
                    return True
            except ValueError:
                pass
        return False

    def disagree(point, req, model, impl):
        nonlocal disagreements
        disagreements += 1
        if disagreements <= 6:
            ck.broken.append({"kind": "correspondence", "point": point, "request": req, "model": model,
                              "implementation": impl})

    if res is not None:
        k = 0
        for t in body_texts:
            r = res[k]; k += 1
            stats["body"] += 1
            real = real_body(t)
            if isinstance(real, list):
                stats["real_ok"] += 1
                parsed_ok_texts.append((t, real))
            elif "real_" + real in stats:
                stats["real_" + real] += 1
            if "ok" not in r:
                disagree("parse_dsl_to_command", {"text": t}, r, real); continue
            m = r["ok"]
            if m.get("error") == "ambiguous":
                stats["model_ambiguous_skipped"] += 1
                continue
            if outside_model(t):
                stats["outside_model_skipped"] = stats.get("outside_model_skipped", 0) + 1
                continue
            mc = m["error"] if "error" in m else canon_model_cmds(m["cmds"])
            if mc != real:
                disagree("parse_dsl_to_command", {"text": t}, mc, real)
        for t in rt_texts:
            r = res[k]; k += 1
            stats["runtime"] += 1
            meta, real = real_runtime(t)
            if "ok" not in r:
                disagree("parse_simaple_runtime", {"text": t}, r, real); continue
            m = r["ok"]
            if m.get("error") == "ambiguous":
                stats["model_ambiguous_skipped"] += 1
                continue
            if outside_model(t):
                stats["outside_model_skipped"] = stats.get("outside_model_skipped", 0) + 1
                continue
            if "error" in m:
                if m["error"] != real:
                    disagree("parse_simaple_runtime", {"text": t}, m, real)
                continue
            mc = canon_model_cmds(m["cmds"])
            hdr = m["header"]
            if hdr == "":
                exp_meta, yaml_failed = {}, False
            else:
                try:
                    exp_meta, yaml_failed = yaml.safe_load(hdr), False
                except yaml.YAMLError:
                    exp_meta, yaml_failed = None, True
            if yaml_failed:
                if real != "yaml":
                    disagree("parse_simaple_runtime(yaml)", {"text": t}, {"header": hdr, "cmds": mc}, real)
            elif mc != real or not yaml_eq(exp_meta, meta):
                disagree("parse_simaple_runtime", {"text": t}, {"meta": exp_meta, "cmds": mc}, {"meta": meta, "cmds": real})
        for meta, cmds, text, dumped in plan_cases:
            r = res[k]; k += 1
            stats["render_plan"] += 1
            if r.get("ok") != text:
                disagree("renderPlanText", {"dumped": dumped}, r, text)
        for x in float_sample:
            r = res[k]; k += 1
            stats["float_token"] += 1
            if r.get("ok") != [{"t": "num", "s": repr(x)}]:
                disagree("numTokOk(repr(x))", {"x": repr(x)}, r, "one SIGNED_NUMBER token")
        r = res[k]; k += 1
        stats["is_space"] = len(probe_cps)
        exp = [chr(c).isspace() for c in probe_cps]
        if r.get("ok") != exp:
            bad = [probe_cps[i] for i in range(len(exp)) if "ok" not in r or r["ok"][i] != exp[i]][:10]
            disagree("str.isspace", {"code_points": bad}, "isPySpace", "str.isspace")
        for t in int_toks:
            r = res[k]; k += 1
            stats["py_int"] += 1
            try:
                exp = str(int(t)) if re.fullmatch(r"[+-]?[0-9]+", t) else None
            except ValueError:
                exp = None
            if r.get("ok") != exp:
                disagree("int(token)", {"text": t}, r, exp)

    # ------------------------------------------------------------ the property on the real code
    prop = {"reparse_ops": 0, "multiplier": 0, "layout_good": 0, "layout_excluded_probed": 0,
            "layout_excluded_failing": {k: 0 for k in F13_KINDS}, "plan_round_trip": 0, "yaml_round_trip": 0,
            "engine_runs": 0, "float_round_trip": 0, "non_finite_time": 0}
    distinct_ops = {}

    # (1) every operation the parser produced re-parses, from its expr, to exactly itself
    for t, real in parsed_ok_texts:
        try:
            ops = [o for o in parse_dsl_to_command(t) if isinstance(o, Operation)]
        except Exception:  # noqa: BLE001
            continue
        for op in ops:
            key = (op.command, op.name, fhex(op.time), op.expr)
            if key in distinct_ops:
                continue
            distinct_ops[key] = op
    for key, op in distinct_ops.items():
        prop["reparse_ops"] += 1
        try:
            back = parse_dsl_to_operations(op.expr)
            ok = back == [op] and back[0].expr == op.expr and fhex(back[0].time) == fhex(op.time)
            obs = canon_real(back)
        except Exception as e:  # noqa: BLE001
            ok, obs = False, f"{type(e).__name__}: {str(e)[:120]}"
        if not ok:
            if op.time is not None and not math.isfinite(op.time):
                prop["non_finite_time"] += 1
                ck.add_failing({"function": "expr", "kind": "non-finite-time", "op": canon_real([op])[0], "observed": obs})
            else:
                ck.add_failing({"function": "expr", "kind": "reparse", "op": canon_real([op])[0], "observed": obs,
                                "expected": "parse(op.expr) == [op]"})

    # (2) xN <op> is that operation N times
    finite_ops = [op for op in distinct_ops.values() if op.time is None or math.isfinite(op.time)]
    rng.shuffle(finite_ops)
    for op in finite_ops[: (150 if quick else 1500)]:
        for m in rng.sample(MULTS, 3):
            prop["multiplier"] += 1
            text = f"x{m} {op.expr}"
            try:
                got = parse_dsl_to_operations(text)
                ok = got == [op] * max(int(m), 0)
                obs = f"{len(got)} operations" if not ok else ""
            except Exception as e:  # noqa: BLE001
                ok, obs = False, f"{type(e).__name__}: {str(e)[:120]}"
            if not ok:
                ck.add_failing({"function": "parse", "kind": "multiplier", "text": text, "observed": obs,
                                "expected": f"{max(int(m), 0)} x {op.expr}"})

    # (3) layout: blanks, blank lines and comments do not change the parse
    layout_samples = []
    for i in range(n_layout):
        lines = rand_cmd_list(rng)
        exp = expected_cmds(lines)
        canon_text = "\n".join(canonical_line(l) for l in lines)
        got0 = real_body(canon_text)
        prop["layout_good"] += 1
        if got0 != exp:
            ck.add_failing({"function": "parse", "kind": "canonical-layout", "text": canon_text, "observed": got0,
                            "expected": exp})
            continue
        text = decorate_good(rng, lines, crlf=(i % 4 == 3))
        got = real_body(text)
        if got != exp:
            ck.add_failing({"function": "parse", "kind": "good-layout", "text": text, "canonical": canon_text,
                            "observed": got, "expected": exp})
        elif len(layout_samples) < 3 and ("#" in text):
            layout_samples.append({"text": text, "commands": len(exp)})
        # the same text through parse_simaple_runtime (stripped, no header)
        if i % 3 == 0:
            meta, got_rt = real_runtime(text)
            if got_rt != exp or meta != {}:
                ck.add_failing({"function": "parse", "kind": "good-layout-runtime", "text": text,
                                "observed": got_rt, "expected": exp})
        # the excluded classes (known finding F13): reported, not counted
        kind = F13_KINDS[i % len(F13_KINDS)]
        bad_text = decorate_excluded(rng, lines, kind)
        if bad_text is not None:
            prop["layout_excluded_probed"] += 1
            got_bad = real_body(bad_text)
            if got_bad != exp:
                prop["layout_excluded_failing"][kind] += 1
                ck.add_failing({"function": "parse", "kind": kind, "text": bad_text, "observed": got_bad, "expected": exp})

    # (4) a plan rendered from metadata + commands parses back to the same metadata and commands
    for meta, cmds, text, dumped in plan_cases:
        prop["plan_round_trip"] += 1
        try:
            meta2, cmds2 = parse_simaple_runtime(text)
            ok = yaml_eq(meta2, meta) and cmds2 == cmds
            obs = {"meta": meta2, "cmds": canon_real(cmds2)}
        except Exception as e:  # noqa: BLE001
            ok, obs = False, f"{type(e).__name__}: {str(e)[:160]}"
        if not ok:
            ck.add_failing({"function": "parse_simaple_runtime", "kind": "plan-round-trip", "text": text,
                            "observed": obs, "expected": {"meta": meta, "cmds": canon_real(cmds)}})
        prop["yaml_round_trip"] += 1
        if not yaml_eq(yaml.safe_load("---\n" + dumped + "\n"), meta):
            ck.broken.append({"kind": "hypothesis", "point": "yaml.safe_load('---\\n'+safe_dump(m)+'\\n') == m", "meta": meta})

    # (4b) the plan writers of the API (simaple/api/base.py): a plan with a provider header is re-rendered with its
    #      environment; the re-rendered text must parse back to the SAME commands, whatever the body contains (`---` in a
    #      comment, a debug text or a skill name; `#` in strings) -- and (4c) a parse does not depend on the texts parsed before
    try:
        from simaple.api.base import provide_environment_augmented_plan
        prov = {"name": "MinimalEnvironmentProvider",
                "data": {"level": 270, "action_stat": {}, "stat": {"INT": 40000.0, "magic_attack": 3000.0},
                         "jobtype": "archmagetc", "weapon_pure_attack_power": 0, "combat_orders_level": 1}}
        header = yaml.safe_dump({"author": "verif", "provider": prov}, indent=2, allow_unicode=True)
        bodies = ['CAST "체인 라이트닝 VI"\n# --- burst ---\nELAPSE 300.0\nCAST "프로즌 오브"',
                  'ELAPSE 10.0 # ---\nUSE "체인 라이트닝 VI"\nRESOLVE "체인 라이트닝 VI"',
                  'CAST "a---b"\nELAPSE 5.0',
                  '!debug "\'--- clock ---\'"\nELAPSE 1.0\nx2 ELAPSE 2.5',
                  'ELAPSE 1.0\n#---\n#--- ---\nELAPSE 2.0']
        for _ in range(3 if quick else 20):
            lines = [canonical_line(l) for l in rand_cmd_list(rng, allow_mult=True)]
            if lines:
                k = rng.randrange(len(lines))
                lines[k] = lines[k] + rng.choice(["  # ---", " #--- x ---", ""])
                bodies.append("\n".join(lines))
        prop["api_rerendered_plans"] = 0
        for body in bodies:
            text = f"---\n{header}\n---\n{body}"
            try:
                _m0, c0 = parse_simaple_runtime(text)
            except Exception:  # noqa: BLE001  (a body the grammar rejects is not this test's business)
                continue
            prop["api_rerendered_plans"] += 1
            try:
                aug = provide_environment_augmented_plan(text)
                _m1, c1 = parse_simaple_runtime(aug)
                ok, obs = c1 == c0, canon_real(c1)
            except Exception as e:  # noqa: BLE001
                ok, obs = False, f"{type(e).__name__}: {str(e)[:160]}"
            if not ok:
                ck.add_failing({"function": "provide_environment_augmented_plan", "kind": "rerendered-plan-changes-the-commands",
                                "body": body, "observed": obs, "expected": canon_real(c0)})
    except Exception as e:  # noqa: BLE001
        ck.broken.append({"kind": "api-plan-writer", "error": f"{type(e).__name__}: {e}"[:300]})
    prop["parse_after_failed_parse"] = 0
    good = 'CAST "a"\nELAPSE 10.0\n!debug "x"\nx2 USE "b c" 1.5'
    try:
        want = canon_real(parse_dsl_to_command(good))
        for bad in ['CAST "a"\nELAPSE 1e999', 'USE "k"\nx2.5 ELAPSE 10', '!debug "z"\nCAST "q"\nELAPSE -1e400', 'ELAPSE 1\nCAST']:
            for f in (parse_dsl_to_command, dsl_parser.parse_dsl_to_operations, parse_simaple_runtime):
                try:
                    f(bad)
                except Exception:  # noqa: BLE001
                    pass
                prop["parse_after_failed_parse"] += 1
                got = canon_real(parse_dsl_to_command(good))
                if got != want:
                    ck.add_failing({"function": "parse_dsl_to_command", "kind": "parse-depends-on-an-earlier-failed-parse",
                                    "failed_text": bad, "then": good, "observed": got, "expected": want})
                    want = got
    except Exception as e:  # noqa: BLE001
        ck.add_failing({"function": "parse_dsl_to_command", "kind": "parse-after-failed-parse-raises",
                        "error": f"{type(e).__name__}: {str(e)[:200]}"})

    # (5) executing the re-parsed plan gives the same result (real engine)
    try:
        engine_result = engine_check(ck, rng, n_engine, prop)
    except Exception as e:  # noqa: BLE001
        engine_result = f"{type(e).__name__}: {e}"
        ck.broken.append({"kind": "engine-check", "error": engine_result})

    # (6) the hypothesis on numbers: float(repr(x)) == x and repr(x) is a SIGNED_NUMBER
    for _ in range(n_float):
        x = rand_float(rng)
        prop["float_round_trip"] += 1
        s = repr(x)
        y = float(s)
        if not (y == x and math.copysign(1, y) == math.copysign(1, x)) or SIGNED_NUMBER_RE.fullmatch(s) is None:
            ck.broken.append({"kind": "hypothesis", "point": "float(repr(x)) == x and repr(x) is a SIGNED_NUMBER", "x": s})
            break

    n_eval = len(reqs) + sum(v for v in prop.values() if isinstance(v, int))
    ck.coverage.update({
        "evaluations": n_eval,
        "distinct_nontrivial": len(distinct_ops) + sum(1 for t, r in parsed_ok_texts if len(r) >= 2),
        "rule": "texts generated from the grammar (every command word + odd words, names built from blanks / Korean / '#' / "
                "escaped quotes and backslashes / CR / TAB, number tokens with signs, exponents, leading/trailing dot, "
                "overflow, printed floats, multipliers incl. 0/negative/non-integer, !debug lines, comments, CRLF/LF/TAB/FF, "
                "with and without header, leading/trailing Unicode blanks) plus single-character mutations; each text is parsed "
                "by the Lean model (driver) and by the real Lark parser and the canonical results (command, name, time as exact "
                "float hex, expr; error class) must be equal; texts for which the model reports the grammar's genuine ambiguity "
                "('x <blanks> N' + line break) are excluded from the comparison (Lark resolves them by insertion order). The "
                "property is then evaluated on the real parser: distinct operations re-parsed from their expr, xN, layouts of "
                "the proved class vs the canonical layout, the excluded classes (F13) probed and reported, plans rendered as the "
                "API does and parsed back, two engines run on original and re-parsed plan. distinct_nontrivial = distinct "
                "operations produced by the real parser + generated texts that parse to >= 2 commands",
        "samples": [{"text": t, "result": r} for t, r in parsed_ok_texts[-3:]] + layout_samples,
        "model_vs_code_requests": len(reqs),
        "model_vs_code_disagreements": disagreements,
        "correspondence": stats,
        "property_on_implementation": prop,
        "engine_check": engine_result,
        "command_words": CMD_WORDS,
    })
    ck.assumptions += [
        "Lark's Earley parser with the dynamic lexer is modelled by a hand-written lexer/parser (Simaple.Model.Dsl); "
        "its agreement with the real parser is validated on every run, not proved",
        "Python float()/repr() are abstract in the proofs (NumOk: repr(x) is a SIGNED_NUMBER token and float(repr(x)) == x); "
        "sampled on every run for finite floats; a literal that overflows to inf is rejected by the parser since eae4625 (F16)",
        "yaml.safe_load(yaml.safe_dump(m)) == m is a hypothesis of plan_round_trip, sampled on every run",
        "texts on which the grammar itself is ambiguous ('x <blanks> N' followed by a line break) are outside the theorems "
        "(hypotheses xfree/unamb) and outside the model-vs-code comparison",
    ]
    ck.finish("proof",
              trusted_base=["Lean 4.33 kernel", "axioms: propext, Classical.choice, Quot.sound (checked by #print axioms)",
                            "hand-written model of the Lark grammar (validated against the real parser in this run)",
                            "CPython float()/repr() and PyYAML dump/load (sampled in this run)"],
              checker_cmd="cd lean && lake build Simaple.Props.C14 && lake env lean Simaple/Audit/C14.lean")


def engine_check(ck: Check, rng, n_runs, prop):
    from simaple.container.environment_provider import MinimalEnvironmentProvider
    from simaple.container.simulation import get_operation_engine
    from simaple.core import ActionStat, JobType, Stat

    env = MinimalEnvironmentProvider(level=270, action_stat=ActionStat(), stat=Stat(INT=40000, magic_attack=3000),
                                     jobtype=JobType("archmagetc")).get_simulation_environment()
    base_lines = [l.strip() for l in (REPO / "tests/simulate/policy/archmage_tc_runtime.txt").read_text(encoding="utf-8").splitlines() if l.strip()]

    def run(cmds):
        engine = get_operation_engine(env)
        for c in cmds:
            engine.exec(c)
        logs = list(engine.operation_logs())
        return [l.hash for l in logs], [(p.clock, json.dumps(p.action, sort_keys=True, default=str), json.dumps(p.events, sort_keys=True, default=str))
                                        for l in logs for p in l.playlogs], [l.description for l in logs]

    summary = []
    for i in range(n_runs):
        start = rng.randrange(0, max(1, len(base_lines) - 40))
        chosen = base_lines[start: start + rng.randint(15, 35)]
        lines = []
        for s in chosen:
            r = rng.random()
            if r < 0.1:
                lines.append("x" + str(rng.randint(0, 3)) + " " + s)
            elif r < 0.2:
                lines.append(s + "  # " + rng.choice(["note", "한글", "x2"]))
            elif r < 0.25:
                lines.append('!debug "viewer(\'clock\')"')
                lines.append(s)
            elif r < 0.3 and s.startswith("ELAPSE"):
                lines.append(f"ELAPSE {rng.uniform(10, 600)!r}")
            else:
                lines.append(s)
        text = "\n".join(lines)
        cmds = parse_dsl_to_command(text)
        printed = "\n".join(c.expr if isinstance(c, Operation) else f'!debug "{c.text}"' for c in cmds)
        cmds2 = parse_dsl_to_command(printed)
        meta = {"author": "check", "data": {"level": 270}}
        plan_text, _ = render_plan(meta, cmds)
        meta3, cmds3 = parse_simaple_runtime(plan_text)
        r1, r2, r3 = run(cmds), run(cmds2), run(cmds3)
        prop["engine_runs"] += 3
        if not (r1 == r2 == r3) or cmds != cmds2 or cmds != cmds3:
            ck.add_failing({"function": "engine", "kind": "re-parsed plan executes differently", "text": text,
                            "printed": printed, "same_commands": cmds == cmds2 == cmds3,
                            "hash_original": r1[0][-1], "hash_reparsed": r2[0][-1], "hash_plan": r3[0][-1]})
        summary.append({"commands": len(cmds), "final_hash": r1[0][-1][:12], "clock": r1[1][-1][0] if r1[1] else 0})
    return summary


if __name__ == "__main__":
    run_check("C14", main)
