"""C02 runner: executes ONE job description in THIS interpreter.

Started by check_C02.py as a fresh interpreter (`/venv/bin/python harness/c02_runner.py job.json out.json`, with
PYTHONHASHSEED set by the caller), so that whatever process-wide state the library keeps (lazily created spec
repository, potential table, Lark parsers, class registries, route caches) starts empty for every job.

A job is {"mode": ..., "units": {id: unit}, "order": [...], ...}; a unit is one (job type, environment variant,
plan).  For every executed unit the runner returns per-part digest lists (environment, every built component,
every operation log of an engine driven command by command, every response of `simaple.api.base.run_plan`) and,
when the job carries the reference digests and a part differs, the full JSON of that unit (for the first
differing path).  Around every build and every run it takes a deep snapshot of all module-level / class-level
state of the `simaple` package (see `snapshot`) -- the observed side of the frame hypothesis `hFrame`.
"""
from __future__ import annotations

import enum
import hashlib
import json
import os
import random
import re
import sys
import threading
import time
import types

sys.path.insert(0, os.path.dirname(os.path.abspath(__file__)))


def canon(x) -> str:
    """JSON text that keeps the insertion order of dicts (an order difference is a difference)"""
    return json.dumps(x, ensure_ascii=False, separators=(",", ":"), default=str)


def sha(x) -> str:
    return hashlib.sha1(canon(x).encode("utf-8")).hexdigest()[:16]


# ---------------------------------------------------------------------------------------------- frame snapshot
_DUNDER = re.compile(r"^__.*__$")
LAZY_CELLS = {
    # cells that are created on first use: exactly one change, from the import-time value, is their creation
    "simaple.data.jobs.builtin::_BUILTIN_KMS_SKILL_REPOSITORY",
    "simaple.gear.blueprint.potential_blueprint::__potential_db_table",
}


def freeze(x, depth=0, path=()):
    """a JSON-able deep image of a Python value: containers by content (dict order kept), pydantic models and
    simaple objects by their fields, classes / functions / foreign objects by name (opaque)"""
    import pydantic
    if x is None or isinstance(x, (str, bool, int, float)):
        return x
    if depth > 14 or id(x) in path:
        return "<deep-or-cyclic>"
    path = path + (id(x),)
    if isinstance(x, enum.Enum):
        return f"<enum {type(x).__name__}.{x.name}>"
    if isinstance(x, (list, tuple)):
        return [freeze(i, depth + 1, path) for i in x]
    if isinstance(x, dict):
        return {"__dict__": [[freeze(k, depth + 1, path), freeze(v, depth + 1, path)] for k, v in list(x.items())]}
    if isinstance(x, (set, frozenset)):
        return {"__set__": sorted(canon(freeze(i, depth + 1, path)) for i in list(x))}
    if isinstance(x, type):
        return f"<class {x.__module__}.{x.__qualname__}>"
    if isinstance(x, (types.FunctionType, types.BuiltinFunctionType, types.MethodType)):
        return f"<fn {getattr(x, '__module__', '?')}.{getattr(x, '__qualname__', '?')}>"
    if isinstance(x, re.Pattern):
        return f"<re {x.pattern}>"
    if isinstance(x, pydantic.BaseModel):
        return {"__model__": type(x).__qualname__, "fields": freeze(x.__dict__, depth + 1, path),
                "private": freeze(getattr(x, "__pydantic_private__", None), depth + 1, path)}
    mod = type(x).__module__ or ""
    if mod.startswith("simaple") and hasattr(x, "__dict__"):
        return {"__obj__": f"{mod}.{type(x).__qualname__}", "vars": freeze(vars(x), depth + 1, path)}
    return f"<opaque {mod}.{type(x).__qualname__}>"


def _class_cells(cls) -> dict:
    out = {}
    for name, val in list(vars(cls).items()):
        if _DUNDER.match(name) or name.startswith(("_abc_", "model_", "__pydantic", "__private", "__class_vars",
                                                   "__signature")):
            continue
        if isinstance(val, (list, dict, set)):
            out[f"classattr {name}"] = val
    fields = vars(cls).get("model_fields") or vars(cls).get("__pydantic_fields__")
    if isinstance(fields, dict):
        for fname, finfo in list(fields.items()):
            d = getattr(finfo, "default", None)
            if isinstance(d, (list, dict, set)) or (hasattr(d, "model_dump") and not isinstance(d, type)):
                out[f"fielddefault {fname}"] = d
    return out


def snapshot() -> dict:
    """cell name -> digest, over every module of the simaple package that is imported right now:
       * every module-level name bound to a value defined there (imports of other modules' objects are skipped;
         the object is visited where it lives), by deep content;
       * for functions: default arguments and function attributes;
       * for classes: class-level lists / dicts / sets and the mutable defaults of pydantic fields;
       * the stored specs of the built-in repository, one cell per spec (to name the spec that changed)."""
    cells = {}
    for mname, mod in sorted(list(sys.modules.items())):
        if mod is None or not (mname == "simaple" or mname.startswith("simaple.")):
            continue
        for name, val in list(vars(mod).items()):
            if _DUNDER.match(name) or isinstance(val, types.ModuleType):
                continue
            key = f"{mname}::{name}"
            if isinstance(val, type):
                if val.__module__ != mname:
                    continue
                for sub, v in _class_cells(val).items():
                    cells[f"{key} {sub}"] = sha(freeze(v))
                continue
            if isinstance(val, types.FunctionType):
                if val.__module__ != mname:
                    continue
                extra = {"defaults": val.__defaults__, "kwdefaults": val.__kwdefaults__, "attrs": dict(vars(val))}
                if val.__defaults__ or val.__kwdefaults__ or vars(val):
                    cells[f"{key} fn"] = sha(freeze(extra))
                continue
            cells[key] = sha(freeze(val))
    b = sys.modules.get("simaple.data.jobs.builtin")
    repo = getattr(b, "_BUILTIN_KMS_SKILL_REPOSITORY", None) if b else None
    if repo is not None:
        for i, spec in enumerate(list(repo._db)):
            label = spec.metadata.label
            cells[f"repository._db[{i}] {spec.kind}/{label.get('group')}/{label.get('name', label.get('id', ''))}"] = \
                sha(freeze(spec))
        cells["repository._db length"] = len(repo._db)
    return cells


class Frame:
    """compares successive snapshots; a cell may appear (module imported lazily); a LAZY cell may change once
    from its import-time value; every other change or disappearance is a frame violation"""

    def __init__(self):
        self.lock = threading.Lock()
        self.cur = snapshot()
        self.initial = dict(self.cur)
        self.created = set()
        self.violations = []
        self.count = 0

    def check(self, where: str, pos=None):
        with self.lock:     # snapshots are taken and compared in one order, also when threads check concurrently
            new = snapshot()
            self.count += 1
            for k, v in self.cur.items():
                if k not in new:
                    self.violations.append({"cell": k, "what": "disappeared", "after": where, "pos": pos})
                elif new[k] != v:
                    if k in LAZY_CELLS and k not in self.created and v == self.initial.get(k):
                        self.created.add(k)
                        continue
                    self.violations.append({"cell": k, "what": "changed", "after": where, "pos": pos})
            self.cur = new


# ---------------------------------------------------------------------------------------------- running units
_constructions = {"repository": 0}


def _count_constructions():
    """counts how often the process-wide repository is constructed (evidence that racing sessions both found
    the global empty); timing and semantics of the constructor are unchanged"""
    from simaple.spec import repository as R
    orig = R.DirectorySpecRepository.__init__

    def counted(self, *a, **k):
        from simaple.data.jobs.builtin import get_kms_spec_resource_path
        if a and a[0] == get_kms_spec_resource_path():      # other repositories use the same class
            _constructions["repository"] += 1
        return orig(self, *a, **k)
    R.DirectorySpecRepository.__init__ = counted


def _env_of(unit):
    import simlib
    if unit["kind"] == "baseline":
        from simaple.container.environment_provider import BaselineEnvironmentProvider
        return BaselineEnvironmentProvider(**unit["provider"]).get_simulation_environment()
    from simaple.container.environment_provider import MinimalEnvironmentProvider
    return MinimalEnvironmentProvider(**unit["provider"]).get_simulation_environment()


def _commands(unit):
    from simaple.simulate.policy.parser import parse_simaple_runtime
    if not unit["lines"]:
        return []
    return parse_simaple_runtime("\n".join(unit["lines"]))[1]


def build_engine(unit, frame=None, res=None, pos=None):
    """environment -> component list -> engine; records the environment and component parts into res"""
    from simaple.container.simulation import get_skill_components
    from simaple.simulate.kms import get_builder
    env = _env_of(unit)
    skills = get_skill_components(env)
    if res is not None:
        res["environment"] = [json.loads(env.model_dump_json())]
        res["components"] = [c.model_dump() for c in skills]
    if frame:
        frame.check(f"components of {unit['id']}", pos)
    eng = get_builder(skills, env.character.action_stat).build_operation_engine()
    return eng


def logs_of(eng):
    return [json.loads(l.model_dump_json()) for l in eng.operation_logs()]


def run_unit(unit, frame=None, pos=None):
    """everything the property observes for one unit, as plain data"""
    from simaple.api.base import run_plan
    res = {}
    eng = build_engine(unit, frame, res, pos)
    if unit.get("alias_probe"):
        res["__aliased__"] = aliased_containers(eng)
    for c in _commands(unit):
        eng.exec(c)
    res["logs"] = logs_of(eng)
    if frame:
        frame.check(f"engine run of {unit['id']}", pos)
    if unit["kind"] == "plan":
        res["responses"] = [r.model_dump(mode="json") for r in run_plan(unit["text"])]
        if frame:
            frame.check(f"run_plan of {unit['id']}", pos)
        res["api"] = api_observation(unit["job"])
        # ... and, AFTER the observation, a request for another character of the same job (what the next unit of this
        # job in the same process must not be able to see)
        api_noise(unit["job"], unit.get("variant", 0) + 1)
        if frame:
            frame.check(f"plan-text API of {unit['id']}", pos)
    return res


def api_observation(job):
    """what the plan-text entry points of simaple.api.base say about the job's shipped example plan (the same
    text every user of that job starts from): parsed header + commands, has_environment"""
    from simaple.api.base import has_environment
    from simaple.api.examples import get_example_plan
    from simaple.core import JobType
    from simaple.simulate.policy.parser import parse_simaple_runtime
    try:
        text = get_example_plan(JobType(job))
    except KeyError:
        return []
    meta, cmds = parse_simaple_runtime(text.strip())
    return [{"header": json.loads(json.dumps(meta, default=str))},
            {"commands": [json.loads(c.model_dump_json()) for c in cmds]},
            {"has_environment": has_environment(text)}]


def api_noise(job, variant):
    """another user of the same job asking for a plan for ANOTHER character through the API"""
    from simaple.api.base import get_initial_plan_from_baseline, has_environment
    from simaple.container.environment_provider import BaselineEnvironmentProvider
    from simaple.core import JobType
    try:
        text = get_initial_plan_from_baseline(BaselineEnvironmentProvider(
            tier=["Legendary", "Unique", "Epic"][variant % 3], jobtype=JobType(job), level=230 + 10 * variant,
            artifact_level=10 * variant, passive_skill_level=variant % 2, combat_orders_level=variant % 2,
            union_block_count=20 + variant, link_count=8 + variant, propensity_level=60 + 10 * variant))
        has_environment(text)
    except KeyError:
        pass


def noise(spec, frame=None, pos=None):
    """other users of the shared data whose results are not compared: another environment of a job, the other
    loaders of the repository, a short run"""
    import simlib
    from simaple.container.simulation import get_damage_calculator, get_operation_engine
    from simaple.core import JobType
    from simaple.data.jobs.builtin import get_builtin_strategy, get_damage_logic, get_passive
    job, variant = spec["job"], spec["variant"]
    env = simlib.make_env(job, variant, **spec.get("over", {}))
    eng = get_operation_engine(env)
    names = [v.name for v in eng.get_current_viewer()("validity") if v.valid]
    for n in names[:4]:
        eng.exec(simlib.op("USE", n))
        eng.exec(simlib.op("ELAPSE", time=700.0))
    get_damage_calculator(env)
    get_damage_logic(JobType(job), 2)
    get_passive(JobType(job), 1, 1, 260, 700)
    get_builtin_strategy(JobType(job))
    # another user of the public loader who INJECTS values into what it loads (SpecBasedLoader.load(..., injects=...)):
    # the injected values belong to that one object, not to the stored specification
    from simaple.data.jobs.builtin import get_kms_skill_loader
    try:
        get_kms_skill_loader().load(query={"group": job, "kind": "SkillProfile"},
                                    injects={"verif_injected": variant + 1, "hexa_skill_names": ["injected by another user"]})
    except Exception:  # noqa: BLE001 -- what this user gets is not compared
        pass
    api_noise(job, variant)
    if frame:
        frame.check(f"noise {job}/{variant}", pos)


def aliased_containers(product) -> int:
    """number of dicts / lists reachable from a built engine (router, dispatchers, components, store) that are
    the very objects stored in the repository (0: builds only ever hold copies)"""
    import pydantic
    b = sys.modules.get("simaple.data.jobs.builtin")
    repo = getattr(b, "_BUILTIN_KMS_SKILL_REPOSITORY", None)
    if repo is None:
        return 0
    ids = set()

    def walk(x):
        if isinstance(x, (dict, list)):
            ids.add(id(x))
            for v in (x.values() if isinstance(x, dict) else x):
                walk(v)
    for s in repo._db:
        walk(s.data)
        walk(s.metadata.label)
        walk(s.metadata.annotation)
    seen, found = set(), [0]

    def walk2(x, depth=0):
        if id(x) in seen or depth > 14:
            return
        seen.add(id(x))
        if isinstance(x, (dict, list, tuple)):
            if id(x) in ids:
                found[0] += 1
            for v in (x.values() if isinstance(x, dict) else x):
                walk2(v, depth + 1)
        elif isinstance(x, pydantic.BaseModel):
            for v in x.__dict__.values():
                walk2(v, depth + 1)
        elif hasattr(x, "__dict__") and (type(x).__module__ or "").startswith("simaple"):
            for v in vars(x).values():
                walk2(v, depth + 1)
    walk2(product)
    return found[0]


PARTS = ["environment", "components", "logs", "responses", "api"]


def digests(res) -> dict:
    return {p: [sha(x) for x in res[p]] for p in PARTS if p in res}


class Collector:
    def __init__(self, job):
        self.ref = job.get("reference") or {}
        self.results = []
        self.full = {}
        self.lock = threading.Lock()

    def add(self, pos, unit, res, ctx=None):
        d = digests(res)
        ref = self.ref.get(unit["id"])
        if ref is not None:
            # a context that drives the engine only compares the parts it produced
            differs = any(d[p] != ref.get(p) for p in d)
        else:
            differs = False
        with self.lock:
            self.results.append({"pos": pos, "unit": unit["id"], "digests": d, "differs": differs, "ctx": ctx,
                                 "aliased": res.get("__aliased__")})
            if differs or self.ref.get("__full__"):
                self.full[f"{pos}:{unit['id']}"] = res


def mode_seq(job, frame, col):
    """the order, step by step, in this one interpreter; a step is a unit id or {"noise": ...}"""
    units = job["units"]
    for pos, step in enumerate(job["order"]):
        if isinstance(step, dict):
            try:
                noise(step["noise"], frame, pos)
            except Exception:   # results of these builds are not compared
                pass
            continue
        try:
            res = run_unit(units[step], frame, pos)
        except Exception as e:  # an exception that the run alone does not raise is a difference too
            res = {"logs": [{"exception": f"{type(e).__name__}: {e}"[:300]}]}
        col.add(pos, units[step], res)


def mode_interleave(job, frame, col):
    """all engines are created first (in `order`), then driven command by command in the interleaving
    `schedule` (a list of unit ids, one entry per command); the logs of each must equal its logs alone"""
    units = job["units"]
    engines, cmds, nxt, parts = {}, {}, {}, {}
    failed = {}
    for pos, uid in enumerate(job["order"]):
        parts[uid] = {}
        try:
            engines[uid] = build_engine(units[uid], frame, parts[uid], pos)
            cmds[uid] = _commands(units[uid])
        except Exception as e:  # an exception that the run alone does not raise is a difference too
            failed[uid] = f"{type(e).__name__}: {e}"[:300]
        nxt[uid] = 0
    for uid in job["schedule"]:
        if uid not in failed and nxt[uid] < len(cmds[uid]):
            try:
                engines[uid].exec(cmds[uid][nxt[uid]])
            except Exception as e:
                failed[uid] = f"{type(e).__name__}: {e}"[:300]
            nxt[uid] += 1
    frame.check("interleaved run")
    for pos, uid in enumerate(job["order"]):
        if uid not in failed:
            try:
                for c in cmds[uid][nxt[uid]:]:
                    engines[uid].exec(c)
                parts[uid]["logs"] = logs_of(engines[uid])
            except Exception as e:
                failed[uid] = f"{type(e).__name__}: {e}"[:300]
        if uid in failed:
            parts[uid]["logs"] = [{"exception": failed[uid]}]
        col.add(pos, units[uid], parts[uid], ctx="interleaved")


def mode_threads(job, frame, col):
    """rounds of the batch on a thread pool; in a `split` round the engines are created by one set of tasks and
    driven, a few commands at a time, by whichever thread takes them next (an engine migrates between threads,
    never two threads on one engine)"""
    import concurrent.futures as cf
    import queue
    units = job["units"]
    sys.setswitchinterval(job.get("switchinterval", 1e-4))
    rng = random.Random(job.get("seed", 0))
    for rnd in job["rounds"]:
        order = rnd["order"]
        n = rnd["threads"]
        barrier = threading.Barrier(min(n, len(order)))
        started = []

        def whole(pos, uid):
            if pos < barrier.parties:
                try:
                    barrier.wait(timeout=30)
                except threading.BrokenBarrierError:
                    pass
            started.append(uid)
            try:
                res = run_unit(units[uid], frame if rnd.get("frames") else None)
            except Exception as e:
                res = {"logs": [{"exception": f"{type(e).__name__}: {e}"[:300]}]}
            col.add(pos, units[uid], res, ctx=f"threads={n}")

        if rnd["kind"] == "whole":
            with cf.ThreadPoolExecutor(max_workers=n) as ex:
                futs = [ex.submit(whole, pos, uid) for pos, uid in enumerate(order)]
                for f in futs:
                    f.result()
        else:
            engines, parts, cmds = {}, {}, {}

            def create(pos, uid):
                if pos < barrier.parties:
                    try:
                        barrier.wait(timeout=30)
                    except threading.BrokenBarrierError:
                        pass
                parts[(pos, uid)] = {}
                try:
                    engines[(pos, uid)] = build_engine(units[uid], None, parts[(pos, uid)])
                    cmds[(pos, uid)] = _commands(units[uid])
                except Exception as e:
                    parts[(pos, uid)]["logs"] = [{"exception": f"{type(e).__name__}: {e}"[:300]}]

            with cf.ThreadPoolExecutor(max_workers=n) as ex:
                for f in [ex.submit(create, pos, uid) for pos, uid in enumerate(order)]:
                    f.result()
            work: "queue.Queue" = queue.Queue()
            keys = list(engines)
            rng.shuffle(keys)
            for k in keys:
                work.put((k, 0))
            chunk = rnd.get("chunk", 3)

            def drive():
                while True:
                    try:
                        k, i = work.get_nowait()
                    except queue.Empty:
                        return
                    try:
                        for c in cmds[k][i:i + chunk]:
                            engines[k].exec(c)
                    except Exception as e:
                        parts[k]["logs"] = [{"exception": f"{type(e).__name__}: {e}"[:300]}]
                        continue
                    if i + chunk < len(cmds[k]):
                        work.put((k, i + chunk))
                    else:
                        parts[k]["logs"] = logs_of(engines[k])

            ths = [threading.Thread(target=drive) for _ in range(n)]
            for t in ths:
                t.start()
            for t in ths:
                t.join()
            for (pos, uid), p in parts.items():
                col.add(pos, units[uid], p, ctx=f"threads={n} split")
        frame.check(f"thread round {rnd['kind']}")


def main():
    job = json.loads(open(sys.argv[1], encoding="utf-8").read())
    t0 = time.time()
    try:
        from loguru import logger
        logger.remove()
    except Exception:
        pass
    import simlib  # noqa: F401  (imports the simaple packages the units use)
    import simaple.api.base  # noqa: F401
    _count_constructions()
    frame = Frame()
    col = Collector(job)
    {"seq": mode_seq, "interleave": mode_interleave, "threads": mode_threads}[job["mode"]](job, frame, col)
    frame.check("end")
    out = {"results": col.results, "full": col.full, "frame_violations": frame.violations[:50],
           "frame_checks": frame.count, "frame_cells": len(frame.cur), "lazy_created": sorted(frame.created),
           "repository_constructions": _constructions["repository"], "hashseed": os.environ.get("PYTHONHASHSEED"),
           "wall": round(time.time() - t0, 2)}
    if job.get("want_cells"):
        out["cells"] = sorted(frame.cur)
    tmp = sys.argv[2] + ".tmp"
    with open(tmp, "w", encoding="utf-8") as f:
        f.write(canon(out))
    os.replace(tmp, sys.argv[2])


if __name__ == "__main__":
    main()
