"""C02 -- same plan, same environment, same result: always and everywhere.

Level "other" (partial).  Two halves:

* PROVED (Lean, `Simaple.Props.C02`): the abstract sharing protocol -- a process-wide lazily created repository read
  by every build, sessions whose atomic steps are interleaved in every possible way (two sessions may both find
  the global empty and both construct), `interpret` over a heap with aliasing writes only fresh cells, and the
  router's memo `_route_cache` (with re-entrant dispatchers) is transparent.  Tied to the code by two driver
  correspondences: the real `RouterDispatcher` against the model on seeded dispatcher tables / action sequences,
  and the real `get_kms_jobs_repository` under *forced* thread interleavings (line-level scheduler) against the
  model's state machine on the same schedules.
* OBSERVED (this file, on the real code): what no functional model can exhibit -- CPython thread switching, hash
  randomisation, Lark's internal state, object aliasing.  Every (job, environment, plan) of a batch is run
    (a) ALONE in a fresh interpreter (the reference),
    (b) in ONE interpreter in several orders (forward with repeats, reverse with other builds in between,
        shuffled), and with all engines created first and then driven command by command interleaved,
    (c) on thread pools (4-16 threads, shuffled, engines created and driven by different threads),
    (d) under other PYTHONHASHSEED values,
  and the canonical JSON of the environment, of every built component, of every operation log and of every
  `run_plan` response must be identical to the reference.  Around every build and run the runner takes a deep
  snapshot of all module-level and class-level state of the package (659 cells: every stored spec of the
  repository, the tables, the registries, defaults): any change other than the first creation of the two lazily
  created singletons is a failing input (this is the frame hypothesis `hFrame` of the theorem, observed).
"""
from __future__ import annotations

import ast
import json
import os
import random
import shutil
import subprocess
import sys
import tempfile
import time
from pathlib import Path

from vlib import Check, run_check, pmap, REPO
import simlib
from simlib import JOBS, command_text

HERE = Path(__file__).resolve().parent
RUNNER = str(HERE / "c02_runner.py")
PARTS = ["environment", "components", "logs", "responses", "api"]


# ====================================================================== static inventory of shared state
def static_inventory(root: Path) -> list[dict]:
    """every module-level binding to a mutable value, `global` statement, cache decorator, mutable default
    argument and class-level mutable attribute of the package, with the class it falls in"""
    def kind_of(node):
        if isinstance(node, (ast.Dict, ast.List, ast.Set, ast.ListComp, ast.DictComp, ast.SetComp)):
            return type(node).__name__
        if isinstance(node, ast.Call):
            f = node.func
            return "call:" + (f.id if isinstance(f, ast.Name) else f.attr if isinstance(f, ast.Attribute) else "?")
        return None

    boring_calls = {"TypeVar", "getLogger", "NewType", "Field", "join", "compile", "ConfigDict", "PrivateAttr"}
    out = []
    for p in sorted(root.rglob("*.py")):
        try:
            tree = ast.parse(p.read_text(encoding="utf-8"))
        except SyntaxError:
            continue
        rel = str(p.relative_to(root.parent))
        for node in tree.body:
            if isinstance(node, (ast.Assign, ast.AnnAssign)) and node.value is not None:
                k = kind_of(node.value)
                tgt = node.targets[0] if isinstance(node, ast.Assign) else node.target
                name = ast.unparse(tgt)
                if k and not (k.startswith("call:") and k[5:] in boring_calls):
                    if name == "__all__":
                        cls = "export list"
                    elif k == "call:Lark":
                        cls = "shared parser object (state opaque to the snapshot; covered by the differential)"
                    elif k.startswith("call:"):
                        cls = "module-level object built at import (snapshot by content when a simaple object)"
                    else:
                        cls = "table written only at import (snapshot: never changes)"
                    out.append({"where": f"{rel}:{node.lineno}", "kind": "module-level value", "name": name,
                                "value": k, "class": cls})
        for node in ast.walk(tree):
            if isinstance(node, ast.Global):
                out.append({"where": f"{rel}:{node.lineno}", "kind": "global statement", "name": ",".join(node.names),
                            "value": "", "class": "lazily created process-wide singleton (check-then-set, not "
                            "locked: racing threads each construct; content read-only afterwards: snapshot)"})
            if isinstance(node, (ast.FunctionDef, ast.AsyncFunctionDef)):
                for d in node.decorator_list:
                    if "cache" in ast.unparse(d):
                        out.append({"where": f"{rel}:{node.lineno}", "kind": "cache decorator", "name": node.name,
                                    "value": ast.unparse(d), "class": "memo"})
                for d in node.args.defaults + [x for x in node.args.kw_defaults if x is not None]:
                    k = kind_of(d)
                    if k and (not k.startswith("call:") or k[5:] in {"dict", "list", "set", "defaultdict"}):
                        out.append({"where": f"{rel}:{node.lineno}", "kind": "mutable default argument",
                                    "name": node.name, "value": ast.unparse(d), "class": "shared across calls (snapshot)"})
            if isinstance(node, ast.ClassDef):
                for st in node.body:
                    if isinstance(st, (ast.Assign, ast.AnnAssign)) and st.value is not None:
                        k = kind_of(st.value)
                        if k and (not k.startswith("call:") or k[5:] in {"dict", "list", "set", "defaultdict"}):
                            tgt = st.targets[0] if isinstance(st, ast.Assign) else st.target
                            out.append({"where": f"{rel}:{st.lineno}", "kind": "class-level mutable value",
                                        "name": f"{node.name}.{ast.unparse(tgt)}", "value": ast.unparse(st.value)[:40],
                                        "class": "pydantic field default (copied per instance; the default itself "
                                                 "is in the snapshot)"})
    return out


# ====================================================================== units
# environment variants of this check: they differ in everything the spec expressions can see (character level,
# stats, weapon attack, combat orders, skill levels), so that a value leaking from one build into another shows
STATS = [
    dict(simlib.REF_STAT),
    dict(simlib.REF_STAT, INT=4210, STR=3890, DEX=2750, LUK=3420, attack_power=3350, magic_attack=3610,
         critical_rate=90, critical_damage=72, boss_damage_multiplier=340, ignored_defence=92.5),
    dict(simlib.REF_STAT, INT=2480, STR=2615, DEX=3975, LUK=2890, attack_power=2700, magic_attack=2550,
         INT_multiplier=112, STR_multiplier=95, damage_multiplier=65, final_damage_multiplier=25),
]
PROVIDERS = [
    dict(level=270, action_stat={}, stat=STATS[0]),
    dict(level=285, action_stat=dict(cooltime_reduce=2000.0, buff_duration=50.0, cooltime_reduce_rate=5.0),
         stat=STATS[1], hexa_skill_level=10, hexa_mastery_level=10, hexa_improvements_level=5,
         weapon_attack_power=650, weapon_pure_attack_power=500),
    dict(level=262, action_stat=dict(cooltime_reduce=6000.0, summon_duration=20.0, buff_duration=195.0),
         stat=STATS[2], v_skill_level=25, combat_orders_level=2, hexa_skill_level=30, hexa_mastery_level=30,
         weapon_attack_power=400, weapon_pure_attack_power=295, v_improvements_level=40),
]


def provider_of(job, variant):
    return dict(PROVIDERS[variant % len(PROVIDERS)], jobtype=job)


BASELINE = dict(tier="Legendary", level=270, passive_skill_level=0, combat_orders_level=1, union_block_count=37,
                link_count=13, artifact_level=40, propensity_level=100)


def gen_unit(job, variant, pi, seed, n_lo, n_hi, kind, burst_skills=3, burst_uses=3):
    import yaml
    rng = random.Random(f"C02:{seed}:{job}:{variant}:{pi}:{kind}")
    n = rng.randint(n_lo, n_hi)
    # every skill of the job is used once (so that every component's reducers, and whatever accumulators they
    # keep, take part in every unit), then a random plan generated against the validity view
    names = [v.name for v in simlib.make_engine(job, variant).get_current_viewer()("validity")]
    rng.shuffle(names)
    sweep = []
    for nme in names:
        sweep += [command_text(simlib.op("USE", nme)), command_text(simlib.op("RESOLVE", nme))]
    # skills that can be used again at once are used several times in a row (accumulators that only show after
    # a few uses: stacks, the pseudo-random counters of archmagetc.CurrentField)
    eng = simlib.make_engine(job, variant)
    spam = []
    for nme in names:
        eng.exec(simlib.op("USE", nme))
        eng.exec(simlib.op("RESOLVE", nme))
        if any(v.name == nme and v.valid for v in eng.get_current_viewer()("validity")):
            spam.append(nme)
    burst = []
    for nme in spam[:burst_skills]:
        for _ in range(burst_uses):
            burst += [command_text(simlib.op("USE", nme)), command_text(simlib.op("RESOLVE", nme))]
    lines = sweep + burst + [command_text(c) for c in simlib.random_plan(rng, job, variant, n, max_elapse=6000.0)]
    if kind == "baseline":
        return {"id": f"baseline/{job}", "kind": "baseline", "job": job, "variant": variant, "lines": lines,
                "provider": dict(BASELINE, jobtype=job)}
    from simaple.container.environment_provider import MinimalEnvironmentProvider
    env = MinimalEnvironmentProvider(**provider_of(job, variant)).get_simulation_environment()
    header = yaml.safe_dump({"author": "verif", "environment": json.loads(env.model_dump_json())}, indent=2,
                            allow_unicode=True)
    return {"id": f"{job}/{variant}/{pi}", "kind": "plan", "job": job, "variant": variant, "lines": lines,
            "provider": provider_of(job, variant), "text": f"---\n{header}\n---\n" + "\n".join(lines)}


# ====================================================================== subprocess jobs
def sub(tag, job, hashseed, timeout):
    """run one job in a fresh interpreter; returns the runner's output (plus tag)"""
    d = tempfile.mkdtemp(prefix="c02_")
    try:
        jf, of = os.path.join(d, "job.json"), os.path.join(d, "out.json")
        with open(jf, "w", encoding="utf-8") as f:
            json.dump(job, f, ensure_ascii=False)
        env = dict(os.environ, PYTHONHASHSEED=str(hashseed))
        t0 = time.time()
        try:
            p = subprocess.run([sys.executable, RUNNER, jf, of], env=env, capture_output=True, text=True,
                               timeout=timeout)
        except subprocess.TimeoutExpired:
            return {"tag": tag, "crash": f"timeout after {timeout}s"}
        if p.returncode != 0 or not os.path.exists(of):
            return {"tag": tag, "crash": p.stderr[-1500:], "returncode": p.returncode}
        with open(of, encoding="utf-8") as f:
            out = json.load(f)
        out["tag"] = tag
        out["sub_wall"] = round(time.time() - t0, 2)
        return out
    finally:
        shutil.rmtree(d, ignore_errors=True)


def first_path(a, b, path="$"):
    """first differing path of two JSON values (dict key order counts)"""
    if type(a) is not type(b):
        return {"path": path, "reference": repr(a)[:200], "observed": repr(b)[:200]}
    if isinstance(a, dict):
        if list(a) != list(b):
            for i, (x, y) in enumerate(zip(list(a), list(b))):
                if x != y:
                    return {"path": f"{path}<key #{i}>", "reference": x, "observed": y}
            return {"path": f"{path}<keys>", "reference": list(a)[-3:], "observed": list(b)[-3:]}
        for k in a:
            r = first_path(a[k], b[k], f"{path}.{k}")
            if r:
                return r
        return None
    if isinstance(a, list):
        for i, (x, y) in enumerate(zip(a, b)):
            r = first_path(x, y, f"{path}[{i}]")
            if r:
                return r
        if len(a) != len(b):
            return {"path": f"{path}<length>", "reference": len(a), "observed": len(b)}
        return None
    if a != b and not (a != a and b != b):
        return {"path": path, "reference": a, "observed": b}
    return None


def first_part_diff(ref_d, got_d):
    for p in PARTS:
        if p in got_d and got_d[p] != ref_d.get(p):
            r, g = ref_d.get(p) or [], got_d[p]
            for i, (x, y) in enumerate(zip(r, g)):
                if x != y:
                    return p, i
            return p, min(len(r), len(g))
    return None


class Ctx:
    """everything the comparison needs"""

    def __init__(self, ck, units, ref, ref_seed):
        self.ck, self.units, self.ref, self.ref_seed = ck, units, ref, ref_seed
        self._ref_full = {}

    def job(self, mode, ids, **kw):
        need = set()
        for s in ids:
            if isinstance(s, str):
                need.add(s)
        j = {"mode": mode, "units": {u: self.units[u] for u in need},
             "reference": {u: self.ref[u] for u in need if u in self.ref}}
        j.update(kw)
        return j

    def ref_full(self, uid):
        if uid not in self._ref_full:
            j = {"mode": "seq", "units": {uid: self.units[uid]}, "order": [uid], "reference": {"__full__": True}}
            out = sub("ref-full", j, self.ref_seed, 120)
            self._ref_full[uid] = (out.get("full") or {}).get(f"0:{uid}")
        return self._ref_full[uid]

    def failures_of(self, out, order=None):
        """digest differences and frame violations of one runner output"""
        fs = []
        for r in out.get("results", []):
            ref = self.ref.get(r["unit"])
            if ref is None:
                continue
            d = first_part_diff(ref, r["digests"])
            if d:
                fs.append({"type": "digest", "unit": r["unit"], "pos": r["pos"], "part": d[0], "index": d[1],
                           "ctx": r.get("ctx"), "full": (out.get("full") or {}).get(f"{r['pos']}:{r['unit']}")})
        for v in out.get("frame_violations", []):
            fs.append({"type": "frame", "cell": v["cell"], "what": v["what"], "after": v["after"], "pos": v.get("pos")})
        return fs

    def describe(self, f):
        """the first differing JSON path of a digest failure"""
        if f["type"] != "digest" or not f.get("full"):
            return None
        ref = self.ref_full(f["unit"])
        if ref is None:
            return {"path": f"$.{f['part']}[{f['index']}]", "note": "reference JSON not available"}
        part, i = f["part"], f["index"]
        a = ref.get(part, [])
        b = f["full"].get(part, [])
        if i < len(a) and i < len(b):
            return first_path(a[i], b[i], f"$.{part}[{i}]")
        return {"path": f"$.{part}<length>", "reference": len(a), "observed": len(b)}


def same_failure(f, g):
    if f["type"] != g["type"]:
        return False
    if f["type"] == "frame":
        return f["cell"] == g["cell"]
    return f["unit"] == g["unit"]


def units_job(cx, step):
    return cx.units[step]["job"] if isinstance(step, str) else step["noise"]["job"]


def shrink_seq(cx: Ctx, order, f, hashseed, budget_s):
    """smallest sequential order (fresh interpreter each trial) that still shows failure f.
    Stage A (parallel): the victim step alone, and every [other step, victim]; stage B: delta debugging."""
    t0 = time.time()
    pos = f.get("pos")
    if pos is None or pos >= len(order):
        pos = len(order) - 1
    victim = order[pos]
    prefix = order[:pos]
    distinct = []
    for s in prefix:
        if s not in distinct and s != victim:
            distinct.append(s)
    def job_of(step):
        return units_job(cx, step)
    distinct.sort(key=lambda st: 0 if job_of(st) == job_of(victim) else 1)      # likeliest culprits first
    cands = [[victim]] + ([[victim, victim]] if victim in prefix else []) + [[s, victim] for s in distinct]

    def trial(o):
        return cx.job("seq", o, order=o)

    work = [(f"shrink{i}", trial(o), hashseed, 120) for i, o in enumerate(cands)]
    hits = {}
    for args, out in pmap(sub, work, max(20.0, budget_s)):
        if args is None:
            break
        i = int(args[0][6:])
        for g in cx.failures_of(out):
            if same_failure(f, g):
                hits[i] = g
                break
    if hits:
        i = min(hits, key=lambda k: (len(cands[k]), k))
        return cands[i], hits[i]
    cur, curf = prefix + [victim], f
    n = 2
    while len(cur) > 2 and time.time() - t0 < budget_s:
        body = cur[:-1]
        chunk = max(1, len(body) // n)
        reduced = False
        for s in range(0, len(body), chunk):
            cand = body[:s] + body[s + chunk:] + [victim]
            out = sub("ddmin", trial(cand), hashseed, 180)
            g = next((g for g in cx.failures_of(out) if same_failure(f, g)), None)
            if g:
                cur, curf, reduced = cand, g, True
                n = max(n - 1, 2)
                break
            if time.time() - t0 > budget_s:
                break
        if not reduced:
            if chunk == 1:
                break
            n = min(len(body), n * 2)
    return cur, curf


def step_text(s):
    return s if isinstance(s, str) else f"<other build: {s['noise']['job']}/{s['noise']['variant']}>"


# ====================================================================== model correspondence (router, protocol)
class FakeDispatcher:
    def __init__(self, name, sigs, emits, reenter):
        self.name, self.sigs, self.emits, self.reenter = name, sigs, emits, reenter
        self.router = None

    def includes(self, signature):
        return signature in self.sigs

    def init_store(self, store):
        return

    def __call__(self, action, store):
        store.append(self.name)
        sig = f"{action['name']}.{action['method']}"
        events = [{"name": self.name, "method": sig, "tag": str(len(store)), "payload": {}, "handler": None}]
        nxt = self.reenter.get(sig)
        if nxt is not None and self.router is not None and len(store) < 40:
            events += self.router({"name": nxt[0], "method": nxt[1], "payload": None}, store)
        return events


def router_cases(rng, n):
    sigs = [("a", "use"), ("a", "elapse"), ("b", "use"), ("b", "elapse"), ("c", "x")]
    cases = []
    for _ in range(n):
        nd = rng.randint(0, 6)
        ds = []
        for i in range(nd):
            inc = [s for s in sigs if rng.random() < 0.45]
            re_ = {}
            for s in inc:
                if rng.random() < 0.3:
                    re_[f"{s[0]}.{s[1]}"] = list(rng.choice(sigs))
            ds.append({"name": f"d{i}", "includes": [f"{s[0]}.{s[1]}" for s in inc], "reenter": re_})
        acts = [list(rng.choice(sigs)) for _ in range(rng.randint(0, 12))]
        late = rng.random() < 0.25 and nd > 0
        cases.append({"dispatchers": ds, "actions": acts, "install_late": late})
    return cases


def real_router(case):
    """the real RouterDispatcher on fake dispatchers: events of every call, the store trace, the final cache.
    install_late: the last dispatcher is installed only after the first half of the actions (stale memo)"""
    from simaple.simulate.base import RouterDispatcher
    r = RouterDispatcher()
    ds = [FakeDispatcher(d["name"], set(d["includes"]), None, d["reenter"]) for d in case["dispatchers"]]
    for d in ds:
        d.router = r
    late = ds[-1] if case["install_late"] else None
    for d in ds:
        if d is not late:
            r.install(d)
    store = []
    out = []
    half = len(case["actions"]) // 2
    for i, (nme, meth) in enumerate(case["actions"]):
        if late is not None and i == half:
            r.install(late)
        ev = r({"name": nme, "method": meth, "payload": None}, store)
        out.append([[e["name"], e["method"], e["tag"]] for e in ev])
    cache = {k: [d.name for d in v] for k, v in r._route_cache.items()}
    return {"events": out, "store": list(store), "cache": cache}


def forced_schedules(rng, n_two, n_three):
    """interleavings of the atomic steps of get_kms_jobs_repository (check, construct, write, re-read) of 2 and 3
    sessions: a schedule names, step by step, the session that may execute its next access to the global"""
    import itertools
    two = sorted(set(itertools.permutations([0, 0, 0, 0, 1, 1, 1, 1])))
    rng.shuffle(two)
    out = [list(s) for s in two[:n_two]]
    for _ in range(n_three):
        s = [0, 0, 0, 0, 1, 1, 1, 1, 2, 2, 2, 2]
        rng.shuffle(s)
        out.append(s)
    return out


def full_schedule(schedule):
    """the schedule plus a fair tail, so that every session finishes (the model gets the same list)"""
    n = max(schedule) + 1
    return list(schedule) + [i for _ in range(5) for i in range(n)]


_WARM: list = []


def real_protocol(schedule, resource_dir):
    """the real get_kms_jobs_repository() called by n threads whose accesses to the module global are forced into
    the given interleaving: an opcode-level trace function parks a thread before each LOAD_GLOBAL / STORE_GLOBAL
    of `_BUILTIN_KMS_SKILL_REPOSITORY` and before the constructor call, until the schedule names it and the
    previously released thread has parked again or left the function (entries of finished sessions are skipped).
    Only timing is controlled.  Returns, per session, the construction index of the object it was handed, the
    number of constructions and the index the global ends with."""
    import dis
    import threading
    import simaple.data.jobs.builtin as B
    from simaple.spec import repository as R
    sched = full_schedule(schedule)
    n = max(schedule) + 1
    code = B.get_kms_jobs_repository.__code__
    name = "_BUILTIN_KMS_SKILL_REPOSITORY"
    instrs = list(dis.get_instructions(code))
    gates = {}
    for k, ins_ in enumerate(instrs):
        if ins_.opname == "LOAD_GLOBAL" and ins_.argval == name:
            gates[ins_.offset] = "read"
        elif ins_.opname == "STORE_GLOBAL" and ins_.argval == name:
            gates[ins_.offset] = "write"
            for back in range(k - 1, -1, -1):
                if instrs[back].opname.startswith("CALL"):
                    gates[instrs[back].offset] = "construct"
                    break
    saved = (B._BUILTIN_KMS_SKILL_REPOSITORY, B.get_kms_spec_resource_path, R.DirectorySpecRepository.__init__)
    built = []
    orig_init = saved[2]

    def counted(self, *a, **k):
        orig_init(self, *a, **k)
        built.append(self)
    cond = threading.Condition()
    state = {"i": 0, "running": None, "trace": [], "stuck": False}
    finished = [False] * n
    got = [None] * n

    def advance():
        while state["i"] < len(sched) and finished[sched[state["i"]]]:
            state["i"] += 1
        return True

    def tracer_for(me):
        def local(frame, event, arg):
            if event == "opcode" and frame.f_lasti in gates:
                with cond:
                    if state["running"] == me:
                        state["running"] = None
                        cond.notify_all()
                    ok = cond.wait_for(lambda: advance() and state["running"] is None and state["i"] < len(sched)
                                       and sched[state["i"]] == me, timeout=10)
                    if not ok:
                        state["stuck"] = True
                        raise RuntimeError("forced schedule cannot be realised")
                    state["running"] = me
                    state["i"] += 1
                    state["trace"].append([me, gates[frame.f_lasti]])
            return local

        def glob(frame, event, arg):
            if event == "call" and frame.f_code is code:
                frame.f_trace_opcodes = True
                return local
            return None
        return glob

    def session(me):
        sys.settrace(tracer_for(me))
        try:
            got[me] = B.get_kms_jobs_repository()
        except RuntimeError:
            pass
        finally:
            sys.settrace(None)
            with cond:
                finished[me] = True
                if state["running"] == me:
                    state["running"] = None
                advance()
                cond.notify_all()

    try:
        B.get_kms_spec_resource_path = lambda: resource_dir
        R.DirectorySpecRepository.__init__ = counted
        if not _WARM:
            # CPython 3.12 instruments a code object for opcode events lazily: the first traced call misses its
            # first opcodes.  One throw-away traced call makes every later call fully traced.
            def warm(frame, event, arg):
                if event == "call" and frame.f_code is code:
                    frame.f_trace_opcodes = True
                    return lambda *a: None
                return None
            B._BUILTIN_KMS_SKILL_REPOSITORY = None
            sys.settrace(warm)
            try:
                B.get_kms_jobs_repository()
            finally:
                sys.settrace(None)
            _WARM.append(True)
            built.clear()
        B._BUILTIN_KMS_SKILL_REPOSITORY = None
        ths = [threading.Thread(target=session, args=(i,)) for i in range(n)]
        for t in ths:
            t.start()
        for t in ths:
            t.join(60)
        final = B._BUILTIN_KMS_SKILL_REPOSITORY

        def idx(o):
            return next((i for i, b in enumerate(built) if b is o), None)
        return {"refs": [idx(g) for g in got], "constructions": len(built), "global": idx(final),
                "trace": state["trace"], "stuck": state["stuck"],
                "all_equal": all(json.dumps([s.model_dump() for s in b._db]) ==
                                 json.dumps([s.model_dump() for s in built[0]._db]) for b in built)}
    finally:
        B._BUILTIN_KMS_SKILL_REPOSITORY, B.get_kms_spec_resource_path, R.DirectorySpecRepository.__init__ = saved


# ====================================================================== main
def shared_state_unit(job, variant, pi, seed, only):
    """replay the harvested calls of the given (component class, method) pairs -- and the states their components reach
    when time passes -- and compare the snapshot of all module / class level state before and after"""
    import copy
    import complib
    import c02_runner
    from simlib import random_plan
    import simlib
    rng = random.Random(f"C02:shared:{seed}:{job}:{variant}:{pi}")
    cmds = random_plan(rng, job, variant, 60) if pi % 2 == 0 else simlib.rotation_plan(rng, job, variant, 8)
    out = {"calls": 0, "failing": []}
    with complib.Harvest(4000, only={tuple(x) for x in only}) as hv:
        eng = simlib.make_engine(job, variant)
        for i, c in enumerate(cmds):
            eng.exec(c)
            if i % 4 == 0:
                complib.eval_views(eng)
    calls = list(hv.calls.values())
    extra = []
    for call in calls:
        owner = call["owner"]
        if "elapse" in getattr(type(owner), "__reducers__", ()):
            for T in (15_000.0, 45_000.0, 100_000.0):
                try:
                    st2 = owner.elapse(T, copy.deepcopy(call["args"][-1]))[0]
                    if type(st2) is type(call["args"][-1]):
                        extra.append({**call, "args": tuple(list(copy.deepcopy(call["args"][:-1])) + [st2])})
                except Exception:  # noqa: BLE001
                    pass
    calls += extra[:3000]
    frame = c02_runner.Frame()

    def run(batch):
        for call in batch:
            try:
                getattr(call["owner"], call["method"])(*copy.deepcopy(call["args"]))
            except Exception:  # noqa: BLE001
                pass
        n = len(frame.violations)
        frame.check("replayed reducer calls")
        return frame.violations[n:]

    out["calls"] = len(calls)
    bad = run(calls)
    if bad:
        # find one call that does it (the state was already changed once: look for a call that changes it AGAIN)
        culprit = None
        for call in calls:
            if run([call]):
                culprit = call
                break
        out["failing"].append({"kind": "shared-state-changed-by-a-reducer-call", "job": job,
                               "cells": sorted({v["cell"] for v in bad})[:5],
                               "component_class": None if culprit is None else type(culprit["owner"]).__name__,
                               "method": None if culprit is None else culprit["method"],
                               "payload": None if culprit is None or culprit["is_view"] else complib.dump_arg(culprit["args"][0]),
                               "state": None if culprit is None else complib.dump_arg(culprit["args"][-1])})
    return out


def main(ck: Check):
    quick = ck.tier == "quick"
    rng = ck.rng
    ref_seed = 0
    other_seeds = [1] if quick else [1, 1000 + ck.seed % 4000000]
    t_start = time.time()

    # ---- reducers / views that READ a module-level mutable object (found by the effect translator): the calls most
    #      likely to change process-wide state; none on the unchanged tree.  Their harvested calls are replayed with a
    #      snapshot of all shared state around them.
    shared_targets, shared_calls = [], 0
    try:
        import gen_effects
        shared_targets = sorted({(e["cls"], e["method"]) for e in gen_effects.lower_all() if e.get("global_reads")})
    except Exception as e:  # noqa: BLE001
        ck.notes.append(f"gen_effects.lower_all failed: {type(e).__name__}: {e}"[:300])
    if shared_targets:
        work0 = [(job, v, pi, ck.seed, shared_targets) for job in JOBS for v in (0, 1) for pi in range(2 if quick else 6)]
        for args, out in pmap(shared_state_unit, work0, max(30.0, ck.budget_s * 0.2)):
            if args is None:
                ck.notes.append(f"budget reached in the shared-state replay: {out}")
                continue
            shared_calls += out["calls"]
            for f in out["failing"][:2]:
                ck.add_failing(f)

    # ---- static inventory
    inv = static_inventory(REPO / "simaple")
    inv_classes: dict[str, int] = {}
    for e in inv:
        inv_classes[e["kind"]] = inv_classes.get(e["kind"], 0) + 1

    # ---- units
    if quick:
        specs = [(job, 0, 0, "plan") for job in JOBS] + [(job, 2, 0, "plan") for job in JOBS[:4]]
        base_jobs = [JOBS[ck.seed % len(JOBS)]]
        plan_len = (10, 16)
    else:
        specs = [(job, v, pi, "plan") for job in JOBS for v in (0, 1, 2) for pi in (0, 1)]
        base_jobs = [JOBS[(ck.seed + i * 3) % len(JOBS)] for i in range(3)]
        plan_len = (20, 36)
    specs += [(job, 0, 0, "baseline") for job in base_jobs]
    units = {}
    for args, u in pmap(gen_unit, [(j, v, pi, ck.seed, plan_len[0], plan_len[1], k, 0 if quick else 8, 0 if quick else 5)
                                      for j, v, pi, k in specs], 120):
        if args is None:
            raise TimeoutError(f"plan generation: {u}")
        units[u["id"]] = u
    U = [f"{j}/{v}/{pi}" for j, v, pi, k in specs if k == "plan"]
    B = [f"baseline/{j}" for j in base_jobs]
    units[U[0]]["alias_probe"] = True
    for b in B:
        units[b]["alias_probe"] = True

    # ---- stage 1: every unit ALONE in a fresh interpreter (reference, hash seed 0) and under the other seeds
    work = []
    for uid in U + B:
        for hs in [ref_seed] + other_seeds:
            j = {"mode": "seq", "units": {uid: units[uid]}, "order": [uid], "want_cells": uid == U[0] and hs == ref_seed}
            work.append((f"alone|{uid}|{hs}", j, hs, 240))
    alone = {}
    crashes = []
    for args, out in pmap(sub, work, max(60.0, ck.budget_s * (0.5 if quick else 0.35))):
        if args is None:
            raise TimeoutError(f"reference runs: {out}")
        if "crash" in out:
            crashes.append(out)
            continue
        _, uid, hs = out["tag"].split("|")
        alone[(uid, int(hs))] = out
    if crashes:
        raise RuntimeError(f"runner crashed: {crashes[0]}")
    ref = {uid: alone[(uid, ref_seed)]["results"][0]["digests"] for uid in U + B}
    cx = Ctx(ck, units, ref, ref_seed)
    cell_names = alone[(U[0], ref_seed)].get("cells", [])

    evaluations = 0
    per_context: dict[str, int] = {}
    distinct = set()
    frame_checks = 0
    constructions = []
    aliased_total = 0
    aliased_probes = 0
    lazy_seen = set()
    reported = []

    def account(out, kind):
        nonlocal evaluations, frame_checks, aliased_total, aliased_probes
        n = len(out.get("results", []))
        evaluations += n + out.get("frame_checks", 0)
        frame_checks += out.get("frame_checks", 0)
        per_context[kind] = per_context.get(kind, 0) + n
        lazy_seen.update(out.get("lazy_created", []))
        for r in out.get("results", []):
            if r.get("aliased") is not None:
                aliased_total += r["aliased"]
                aliased_probes += 1

    PRIORITY = ["order-dependence", "interleaving-dependence", "thread-dependence", "hash-seed",
                "shared-data-changed", "alone-in-fresh-interpreter"]

    def report(kind, f, batch_order, hashseed, extra=None, run_failures=()):
        """queue one failing input (digest differences first when the verdict is printed)"""
        cells = []
        for g in run_failures:
            if g["type"] == "frame" and g["cell"] not in cells:
                cells.append(g["cell"])
        key = (kind.split(" (")[0], f["type"], f.get("unit") or f.get("cell"))
        if key in [r[0] for r in reported]:
            return
        item = {"kind": kind, "hashseed": hashseed, "batch": sorted({step_text(s) for s in batch_order}),
                "order": [step_text(s) for s in batch_order]}
        if f["type"] == "digest":
            item.update({"unit": f["unit"], "job": units[f["unit"]]["job"], "part": f["part"], "index": f["index"],
                         "first_difference": cx.describe(f), "plan": units[f["unit"]]["lines"]})
        else:
            item.update({"shared_cell": f["cell"], "what": f["what"], "changed_after": f["after"]})
        if cells:
            item["shared_cells_changed_in_the_run"] = cells[:8]
            item["shared_cells_changed_count"] = len(cells)
        if extra:
            item.update(extra)
        reported.append((key, item))

    def pick(fs):
        """the failure of a run to report: a digest difference if there is one, else a changed shared cell"""
        return next((g for g in fs if g["type"] == "digest"), fs[0])

    # (d) hash seeds + frame of the alone runs
    for (uid, hs), out in sorted(alone.items()):
        account(out, f"alone hashseed={hs}")
        if hs != ref_seed:
            distinct.add((uid, f"hashseed={hs}"))
        fs = cx.failures_of(out)
        if fs:
            f = pick(fs)
            report("alone-in-fresh-interpreter" if f["type"] == "frame" else "hash-seed", f, [uid], hs, run_failures=fs)

    # ---- stage 2: orders, interleavings, thread rounds (each in its own fresh interpreter)
    def noise_step():
        return {"noise": {"job": rng.choice(JOBS), "variant": rng.randint(0, 2),
                          "over": rng.choice([{}, {"combat_orders_level": 2}, {"hexa_skill_level": 20}])}}

    orders = []
    orders.append(("forward, first plan twice and once more at the end", [U[0], U[0]] + U[1:] + [U[0]]))
    rev = []
    for i, u in enumerate(reversed(U)):
        rev += [u] + ([noise_step()] if i % 3 == 1 else [])
    orders.append(("reverse with other builds in between", rev))
    n_shuffles = 1 if quick else 4
    for k in range(n_shuffles):
        sh = U + [rng.choice(U) for _ in range(2)]
        rng.shuffle(sh)
        o = []
        for u in sh:
            o.append(u)
            if rng.random() < 0.15:
                o.append(noise_step())
        orders.append((f"shuffled #{k} with repeats and other builds", o))
    for b in B:
        same_job = [u for u in U if units[u]["job"] == units[b]["job"]]
        orders.append((f"gear-based environment ({b}) before, between and after the plans of its job",
                       [b] + same_job[:1] + [b] + same_job[1:3]))
    stage2 = []
    for i, (label, o) in enumerate(orders):
        stage2.append((f"order|{i}", cx.job("seq", o, order=o), ref_seed if i % 2 == 0 else other_seeds[0], 600))
    n_il = 1 if quick else 3
    il_jobs = []
    for k in range(n_il):
        o = list(U if quick else rng.sample(U, 16))
        rng.shuffle(o)
        if k == 0:
            m = max(len(units[u]["lines"]) for u in o)
            sched = [u for _ in range(m) for u in o]        # strict round robin, one command each
        else:
            sched = [u for u in o for _ in units[u]["lines"]]
            rng.shuffle(sched)
        il_jobs.append((o, sched))
        stage2.append((f"interleave|{k}", cx.job("interleave", o, order=o, schedule=sched), ref_seed, 600))
    th_jobs = []
    n_rounds = 2 if quick else 20
    for k in range(n_rounds):
        kind = "whole" if k % 2 == 0 else "split"
        nthreads = (6 if kind == "whole" else 4) if quick else rng.randint(4, 16)
        pool_units = rng.sample(U, 10) if quick else rng.sample(U, 16) + (B[:1] if k % 7 == 0 else [])
        o = pool_units + [rng.choice(pool_units) for _ in range(2)]
        rng.shuffle(o)
        rnd = {"kind": kind, "order": o, "threads": nthreads, "frames": kind == "whole" and k % 4 == 0,
               "chunk": rng.randint(1, 5)}
        th_jobs.append(rnd)
        stage2.append((f"threads|{k}", cx.job("threads", o, rounds=[rnd], seed=rng.randint(0, 10 ** 6),
                                              switchinterval=rng.choice([1e-4, 1e-3, 5e-3])),
                       rng.choice([ref_seed] + other_seeds), 900))
    outs = {}
    budget2 = ck.budget_s - (time.time() - t_start) - (25 if quick else 120)
    for args, out in pmap(sub, stage2, max(150.0, budget2)):
        if args is None:
            # a slow machine: what finished is judged, what did not is named in the evidence (never a verdict by itself)
            ck.notes.append(f"budget reached in the batch runs: {out}")
            if out["done"] * 2 < out["total"]:
                raise TimeoutError(f"batch runs: {out}")
            continue
        if "crash" in out:
            raise RuntimeError(f"runner crashed in {out['tag']}: {out['crash']}")
        outs[out["tag"]] = out
    sub_walls = {t: o.get("sub_wall") for t, o in sorted(outs.items())}
    sub_walls["alone(max)"] = max(o.get("sub_wall", 0) for o in alone.values())
    shrink_budget = 40.0 if quick else 180.0
    shrinks = 0
    todo = []
    for tag, out in sorted(outs.items()):
        kind, k = tag.split("|")
        account(out, {"order": "one interpreter, sequential order", "interleave": "engines interleaved command by command",
                      "threads": "thread pool"}[kind])
        for r in out["results"]:
            distinct.add((r["unit"], tag))
        if kind == "threads":
            constructions.append(out["repository_constructions"])
        fs = cx.failures_of(out)
        if fs:
            todo.append((0 if any(g["type"] == "digest" for g in fs) else 1, tag, fs))
    # runs with a difference in the results first (they get the shrinking budget), then runs where only shared
    # data changed
    for _prio, tag, fs in sorted(todo, key=lambda x: (x[0], x[1])):
        kind, k = tag.split("|")
        k = int(k)
        out = outs[tag]
        hs = next(a[2] for a in stage2 if a[0] == tag)
        f = pick(fs)
        if kind == "order":
            if shrinks < 3:
                shrinks += 1
                small, g = shrink_seq(cx, orders[k][1], f, hs, shrink_budget)
            else:
                small, g = orders[k][1][:(f.get("pos") or 0) + 1], f
            report("order-dependence" if f["type"] == "digest" else "shared-data-changed", g, small, hs,
                   {"found_in": orders[k][0], "original_order_length": len(orders[k][1])}, run_failures=fs)
        else:
            # try to show the same difference sequentially (a simpler context); otherwise report the round as is
            o = il_jobs[k][0] if kind == "interleave" else th_jobs[k]["order"]
            victim = f.get("unit")
            seq_order = [u for u in o if u != victim] + ([victim] if victim else [])
            ff = dict(f, pos=len(seq_order) - 1)
            small, g = None, None
            attempted = victim is not None and shrinks < 3
            if victim is not None and shrinks < 3:
                shrinks += 1
                out2 = sub("seqrepro", cx.job("seq", seq_order, order=seq_order), hs, 600)
                g0 = next((x for x in cx.failures_of(out2) if same_failure(f, x)), None)
                if g0 is not None:
                    small, g = shrink_seq(cx, seq_order, g0, hs, shrink_budget)
            if small is not None:
                report("order-dependence (first seen " + ("interleaved" if kind == "interleave" else "on threads") + ")",
                       g, small, hs, run_failures=fs)
            else:
                report("interleaving-dependence" if kind == "interleave" else "thread-dependence", f, o, hs,
                       {"threads": None if kind == "interleave" else th_jobs[k]["threads"],
                        "round": None if kind == "interleave" else th_jobs[k]["kind"],
                        "sequential_reproduction": "failed" if attempted else "not attempted"}, run_failures=fs)
    reported.sort(key=lambda r: (next((i for i, p in enumerate(PRIORITY) if r[0][0].startswith(p)), 9),
                                 len(r[1]["order"])))
    for _key, item in reported[:8]:
        ck.add_failing(item)
    if len(reported) > 8:
        ck.notes.append(f"{len(reported) - 8} further failing inputs not listed")

    # ---- the proved half, and its tie to the code
    proto_dir = tempfile.mkdtemp(prefix="c02_res_")
    try:
        for i in range(2):
            with open(os.path.join(proto_dir, f"s{i}.yaml"), "w", encoding="utf-8") as fh:
                fh.write(f"kind: Component\nversion: simaple.io/X\nmetadata:\n  label:\n    group: g\n    name: n{i}\n"
                         f"data:\n  name: n{i}\n  value: {i}\n")
        router_in = router_cases(rng, 60 if quick else 400)
        scheds = forced_schedules(rng, 20, 10 if quick else 60)
        reqs = [{"fn": "c02.router", **c} for c in router_in] + [{"fn": "c02.protocol", "schedule": full_schedule(s)} for s in scheds]
        real_r = [real_router(c) for c in router_in]
        real_p = [real_protocol(s, proto_dir) for s in scheds]
    finally:
        shutil.rmtree(proto_dir, ignore_errors=True)
    with ck.locked():
        ck.regenerate(["effects"])      # Props/C02_Patches.lean: the build path lowered from the source
        proved = ck.prove("Simaple.Props.C02")
        if not quick and proved:
            ck.leanchecker(["Simaple.Props.C02", "Simaple.Props.C02_Patches", "Simaple.Props.C02_BuildPath"])
        res = ck.driver(reqs + [{"fn": "patch_table"}], timeout=600)
    with ck.locked():
        # Props/C02_BuildPath.lean: the rest of the build path (entries tagged 2 and 16 of the generated pureTable)
        build_fn_rows = (ck.effect_entries(2, "Simaple.Props.C02.build_path_functions_wellFormed") or []) + \
                        (ck.effect_entries(16, "Simaple.Props.C02.build_path_functions_wellFormed") or [])
    patch_table = None
    if res is not None:
        patch_table = res[-1].get("ok")
        res = res[:-1]
        if patch_table is None:
            ck.broken.append({"kind": "driver", "answer": res[-1] if res else None})
        else:
            for name, why in patch_table["notLowered"]:
                ck.broken.append({"kind": "translator", "generator": "effects", "entry": name, "error": why})
            for e in patch_table["entries"]:
                if e["api"] and not e["wellFormed"]:
                    ck.broken.append({"kind": "proof", "theorem": "Simaple.Props.C02.patchTable_wellFormed", "entry": e["name"],
                                      "what": "the effect checker rejects the program generated from this entry point: it "
                                              "may write an object that existed before the call (the shared repository)"})
    disagreements = 0
    raced = 0
    stale = 0
    if res is not None:
        for c, real, r in zip(router_in, real_r, res[:len(router_in)]):
            ok = "ok" in r and r["ok"]["cached"]["events"] == real["events"] and r["ok"]["cached"]["store"] == real["store"] \
                and {k: v for k, v in r["ok"]["cached"]["cache"]} == real["cache"]
            if ok and not c["install_late"]:
                # the memo is transparent on the real router too: same events as the model's router without memo
                if r["ok"]["plain"]["events"] != real["events"] or r["ok"]["plain"]["store"] != real["store"]:
                    ck.add_failing({"kind": "route-cache-not-transparent", "case": c, "with_memo": real["events"],
                                    "without_memo": r["ok"]["plain"]["events"]})
            if ok and c["install_late"] and r["ok"]["plain"]["events"] != real["events"]:
                stale += 1
            if not ok:
                disagreements += 1
                if disagreements <= 3:
                    ck.broken.append({"kind": "correspondence", "point": "Model.Sharing router vs RouterDispatcher",
                                      "case": c, "real": real, "model": r})
        for s, real, r in zip(scheds, real_p, res[len(router_in):]):
            ok = "ok" in r and r["ok"]["refs"] == real["refs"] and r["ok"]["constructions"] == real["constructions"] \
                and r["ok"]["global"] == real["global"]
            if real["constructions"] > 1:
                raced += 1
            if not real["all_equal"]:
                ck.add_failing({"kind": "construction-not-deterministic", "schedule": s})
            if not ok:
                disagreements += 1
                if disagreements <= 3:
                    ck.broken.append({"kind": "correspondence", "point": "Model.Sharing protocol vs get_kms_jobs_repository "
                                      "under a forced interleaving", "schedule": s, "real": real, "model": r})

    n_distinct = len(distinct)
    ck.coverage.update({
        "evaluations": evaluations,
        "distinct_nontrivial": n_distinct,
        "rule": "a case is (unit, context): unit = (job, environment variant, seeded plan generated against the validity "
                "view) or a BaselineEnvironmentProvider build (gear repository, potential table, optimizers); context = a "
                "sequential order in one fresh interpreter / an interleaving of all engines command by command / a thread "
                "round / another hash seed; each compared part by part (environment, every component dump, every "
                "operation log, every run_plan response; dict key order counts) with the same unit ALONE in a fresh "
                "interpreter under PYTHONHASHSEED=0.  Every context runs other units before or at the same time, or "
                "another hash seed, so every case is non-trivial.  evaluations = comparisons + deep snapshots",
        "samples": [{"unit": u, "plan": units[u]["lines"][:10]} for u in (U[:2] + B[:1])],
        "units": len(U) + len(B),
        "comparisons_per_context": per_context,
        "orders": [{"label": l, "length": len(o)} for l, o in orders],
        "thread_rounds": [{"kind": r["kind"], "threads": r["threads"], "units": len(r["order"])} for r in th_jobs],
        "methods_reading_module_level_mutable_objects": [f"{c}.{m}" for c, m in shared_targets],
        "their_calls_replayed_with_a_shared_state_snapshot": shared_calls,
        "build_path_functions_checked_by_the_effect_model": [r["name"] for r in build_fn_rows],
        "build_path_effect_programs": None if patch_table is None else
            [{"entry": e["name"], "obligation": e["api"], "accepted_by_the_effect_checker": e["wellFormed"],
              "recursive": e["recursive"], "statements": e["size"]} for e in patch_table["entries"]],
        "repository_constructions_per_thread_round": constructions,
        "thread_rounds_where_sessions_raced_on_the_empty_global": sum(1 for c in constructions if c > 1),
        "hash_seeds": [ref_seed] + other_seeds,
        "subprocess_wall_s": sub_walls,
        "frame_snapshots": frame_checks,
        "frame_cells": len(cell_names),
        "frame_cells_sample": [c for c in cell_names if not c.startswith("repository")][:6] +
                              [c for c in cell_names if c.startswith("repository")][:3],
        "lazily_created_cells_seen": sorted(lazy_seen),
        "containers_shared_between_built_engines_and_repository": {"probes": aliased_probes, "shared": aliased_total},
        "static_inventory_counts": inv_classes,
        "static_inventory": [e for e in inv if e["kind"] != "class-level mutable value" and e["name"] != "__all__"],
        "static_inventory_class_level": [f"{e['where']} {e['name']}" for e in inv if e["kind"] == "class-level mutable value"],
        "model_router_cases": len(router_in),
        "model_router_cases_with_stale_memo_after_late_install": stale,
        "model_protocol_forced_schedules": len(scheds),
        "model_protocol_schedules_with_two_or_more_constructions": raced,
        "model_disagreements": disagreements,
    })
    if aliased_total:
        ck.notes.append(f"{aliased_total} containers of built engines are the repository's own objects (latent aliasing)")
    ck.assumptions += [
        "hFrame (no step writes a cell reachable from the global after construction; construction deterministic): "
        "hypothesis of schedule_independent, observed here by the deep snapshots around every build and run",
        "dispatcher `includes` does not depend on state and the dispatcher list is fixed before the first call "
        "(EngineBuilder installs everything before build_operation_engine); a late install makes the memo stale "
        "(exhibited in the model and on the real router, not reachable through the public build path)",
        "thread interleavings and hash seeds are sampled, not exhausted",
    ]
    explanation = (
        "PROVED (Lean): the abstract sharing protocol only -- for every finite set of sessions and every interleaving of "
        "their atomic steps (check global / construct / write global / re-read / interpret / local engine step), incl. "
        "several sessions finding the global empty, each session's outputs equal those of running alone from an empty "
        "global, under hFrame; the heap-level interpret model (deep copy of the stored dict -- also the earlier shallow copy --, DFS rebuild, deepcopy-then-set) writes fresh "
        "cells only and returns the pure interpretation; the router memo with re-entrant dispatchers is transparent.  "
        "The router model and the protocol model are tied to RouterDispatcher and get_kms_jobs_repository by driver "
        "correspondences (the latter under forced line-level thread schedules).  OBSERVED (not proved): that the real "
        "code satisfies hFrame and has no other coupling -- CPython thread switching, hash randomisation, Lark's "
        "internal state and object aliasing are outside the model and are covered only by the differential "
        "(alone-in-fresh-interpreter vs orders / interleavings / thread pools / hash seeds) and the deep snapshots.")
    ck.coverage["explanation"] = explanation
    ck.finish("other",
              trusted_base=["Lean 4.33 kernel", "axioms ⊆ {propext, Classical.choice, Quot.sound}",
                            "hand-written model Simaple/Model/Sharing.lean (protocol, heap interpret, router)",
                            "the differential harness harness/c02_runner.py (fresh interpreters, canonical JSON, snapshots)",
                            "CPython 3.12 threads / sys.settrace for the forced schedules", "pydantic, json, yaml, Lark"],
              checker_cmd="cd lean && lake build Simaple.Props.C02 && lake env lean Simaple/Audit/C02.lean; "
                          "./check C02 quick",
              explanation=explanation)


if __name__ == "__main__":
    run_check("C02", main)
