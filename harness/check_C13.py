"""C13 -- reports add up: totals, shares, DPM and the best dealing window."""
from __future__ import annotations

import itertools
import math
from fractions import Fraction

from vlib import Check, run_check, frac_str, parse_frac

import simlib
from simaple.api.base import _extract_engine_history_as_response
from simaple.container.simulation import get_damage_calculator, get_operation_engine
from simaple.core.base import Stat
from simaple.simulate.report.base import DamageLog, SimulationEntry
from simaple.simulate.report.feature import DamageShareFeature, MaximumDealingIntervalFeature
from simaple.simulate.reserved_names import Tag

FUNC = "_find_maximum_dealing_interval"
TOL = 1e-9


def close(a, b) -> bool:
    return math.isclose(float(a), float(b), rel_tol=TOL, abs_tol=1e-6)


# ---------------------------------------------------------------------------------------- the window scan
def real_scan(seq, L):
    """the real function; exceptions as values"""
    try:
        d, s, e = MaximumDealingIntervalFeature(L)._find_maximum_dealing_interval(list(seq))
        return ("value", d, s, e)
    except Exception as ex:  # IndexError for L <= 0 (F12); anything else is reported as it is
        return ("raises", type(ex).__name__)


def loop_sum(seq, s, e):
    """the same left-to-right addition as the code (the builtin sum() compensates floats)"""
    t = 0.0
    for _, d in seq[s:e]:
        t += d
    return t


def brute(seq, L):
    """exhaustive specification: from every start the shortest window whose clock span reaches L"""
    best = 0
    n = len(seq)
    for i in range(n):
        for e in range(i, n):
            if seq[e][0] - seq[i][0] >= L:
                best = max(best, loop_sum(seq, i, e))
                break
    return best


def is_sorted(seq) -> bool:
    return all(seq[i][0] <= seq[i + 1][0] for i in range(len(seq) - 1))


def shortest_window(seq, L, s, e) -> bool:
    n = len(seq)
    return (0 <= s <= e < n and seq[e][0] - seq[s][0] >= L
            and all(seq[j][0] - seq[s][0] < L for j in range(s, e)))


def classes_of(seq, L) -> list[str]:
    c = []
    n = len(seq)
    if n == 0:
        c.append("empty")
    if n == 1:
        c.append("single")
    if any(seq[i][0] == seq[i + 1][0] for i in range(n - 1)):
        c.append("equal-clocks")
    if any(d == 0 for _, d in seq):
        c.append("zero-damage")
    if any(d < 0 for _, d in seq):
        c.append("negative-damage")
    gaps = {seq[i + 1][0] - seq[i][0] for i in range(n - 1)}
    if len(gaps) > 1:
        c.append("non-uniform")
    if not is_sorted(seq):
        c.append("unsorted")
    if L <= 0:
        c.append("nonpositive-window")
    if any(isinstance(x, float) for p in seq for x in p):
        c.append("float-valued")
    return c


def check_scan_property(ck: Check, seq, L, stats) -> None:
    """the property on the real function, for a clock-sorted sequence"""
    r = real_scan(seq, L)
    stats["property_evaluations"] += 1
    show = {"function": FUNC, "L": L, "seq": [list(p) for p in seq]}
    if r[0] == "raises":
        if L <= 0 and len(seq) > 0 and r[1] == "IndexError":
            ck.add_failing({**show, "kind": "nonpositive-window", "observed": "IndexError",
                            "expected": "a result (every start has the empty window of damage 0)"})
            stats["nonpositive_raises"] += 1
        else:
            ck.add_failing({**show, "kind": "exception", "observed": r[1], "expected": brute(seq, L)})
        return
    _, d, s, e = r
    exp = brute(seq, L)
    if d != exp:
        ck.add_failing({**show, "kind": "value-differs-from-exhaustive-search", "observed": [d, s, e], "expected": exp})
    elif d != loop_sum(seq, s, e):
        ck.add_failing({**show, "kind": "indices-do-not-reproduce-value", "observed": [d, s, e],
                        "expected": loop_sum(seq, s, e)})
    elif L > 0 and not ((d, s, e) == (0, 0, 0) or shortest_window(seq, L, s, e)):
        ck.add_failing({**show, "kind": "reported-window-does-not-qualify", "observed": [d, s, e], "expected": exp})
    if exp > 0 and len(seq) >= 2:
        stats["nontrivial"].add((tuple(seq), L))


GAPS = [Fraction(0), Fraction(0), Fraction(1), Fraction(2), Fraction(3), Fraction(7), Fraction(20),
        Fraction(1, 2), Fraction(3, 1024), Fraction(30), Fraction(720)]
DMGS = [Fraction(0), Fraction(0), Fraction(1), Fraction(5), Fraction(10), Fraction(100), Fraction(-3),
        Fraction(25, 2), Fraction(1, 8), Fraction(1000)]


def to_py(seq_fr, as_float: bool):
    def cv(x):
        return float(x) if (as_float or x.denominator != 1) else int(x)
    return [(cv(c), cv(d)) for c, d in seq_fr]


def gen_sequences(ck: Check):
    """(sequence of Fractions, window lengths, float-typed?, origin)"""
    rng = ck.rng
    quick = ck.tier == "quick"
    out = []
    # exhaustive over small alphabets
    gap_a, dmg_a = [Fraction(0), Fraction(1), Fraction(3)], [Fraction(0), Fraction(2), Fraction(5)]
    n_full = 4 if quick else 5
    for n in range(0, n_full + 1):
        for gaps in itertools.product(gap_a, repeat=n):
            clk = list(itertools.accumulate(gaps))
            for ds in itertools.product(dmg_a, repeat=n):
                out.append((list(zip(clk, ds)), [1, 2, 4], False, f"exhaustive-n{n}"))
    gap_b, dmg_b = [Fraction(0), Fraction(2)], [Fraction(0), Fraction(3)]
    for n in range(n_full + 1, (6 if quick else 7) + 1):
        for gaps in itertools.product(gap_b, repeat=n):
            clk = list(itertools.accumulate(gaps))
            for ds in itertools.product(dmg_b, repeat=n):
                out.append((list(zip(clk, ds)), [1, 2, 3, 5], False, f"exhaustive2-n{n}"))
    # the repository's own test sequences
    base = [(0, 100), (1, 100), (2, 100), (3, 300), (3, 300), (4, 200), (5, 400), (5, 300), (6, 100), (7, 100)]
    out.append(([(Fraction(c), Fraction(d)) for c, d in base], [3, 1, 30, 0, -1], False, "repo-test"))
    # random
    for _ in range(2000 if quick else 20000):
        n = rng.choice([0, 1, 2, 3]) if rng.random() < 0.1 else rng.randint(0, 40)
        t = Fraction(rng.choice([0, 0, 5, 1000]))
        seq = []
        for _i in range(n):
            t += rng.choice(GAPS)
            seq.append((t, rng.choice(DMGS)))
        origin = "random"
        if rng.random() < 0.08:
            rng.shuffle(seq)
            origin = "random-shuffled"
        Ls = [rng.randint(1, 30) for _ in range(3)]
        if rng.random() < 0.3:
            Ls.append(Fraction(rng.randint(1, 60), 2))
        if rng.random() < 0.15:
            Ls.append(rng.choice([0, -1, -7]))
        out.append((seq, Ls, rng.random() < 0.5, origin))
    return out


# ---------------------------------------------------------------------------------------- real runs
def stat_vec(st: Stat) -> list[str]:
    d = st.model_dump()
    return [frac_str(d[n]) for n in Stat.model_fields]


def enc_event(ev) -> dict:
    p = ev.get("payload") or {}
    is_dmg = ev["tag"] in (Tag.DAMAGE, Tag.DOT)
    mod = p.get("modifier") if isinstance(p, dict) else None
    return {"name": ev["name"], "tag": ev["tag"] or "",
            "damage": frac_str(p["damage"]) if is_dmg else "0",
            "hit": frac_str(p["hit"]) if is_dmg else "0",
            "modifier": None if (mod is None or not is_dmg) else stat_vec(Stat.model_validate(mod))}


def expected_logs(pl, buff: Stat):
    """independent reading of the property: one log per DAMAGE/DOT event with damage != 0 and hit != 0,
    with the buff in force (entry buff + event modifier)"""
    res = []
    for ev in pl.events:
        if ev["tag"] not in (Tag.DAMAGE, Tag.DOT):
            continue
        p = ev["payload"]
        if p["damage"] == 0 or p["hit"] == 0:
            continue
        b = buff if p.get("modifier") is None else buff + Stat.model_validate(p["modifier"])
        res.append((ev["name"], p["damage"], p["hit"], ev["tag"], b))
    return res


def stats_close(a: Stat, b: Stat) -> bool:
    da, db = a.model_dump(), b.model_dump()
    return all(close(da[k], db[k]) for k in da)


def py_value(f):
    """('value', x) or ('raises', name)"""
    try:
        return ("value", f())
    except Exception as ex:
        return ("raises", type(ex).__name__)


def check_totals(ck: Check, entries, calc, stats, fail, engine=None):
    """totals three ways (+ the API records), shares, dpm on the real code"""
    # ---- totals three ways (+ the API records)
    per_action = [calc.calculate_damage(en) for en in entries]
    total = calc.calculate_total_damage(entries)
    per_log = [(l.name, calc.get_damage(l)) for en in entries for l in en.damage_logs]
    share = DamageShareFeature(calc)
    for en in entries:
        share.update(en)
    skill_sums = dict(share._damage_sum)
    by_name = {}
    for nme, v in per_log:
        by_name[nme] = by_name.get(nme, 0.0) + v
    if not close(total, math.fsum(per_action)):
        fail("total-vs-actions", total=total, sum_of_actions=math.fsum(per_action))
    if not close(total, math.fsum(v for _, v in per_log)):
        fail("total-vs-logs", total=total, sum_of_logs=math.fsum(v for _, v in per_log))
    if not close(total, math.fsum(skill_sums.values())):
        fail("total-vs-skills", total=total, sum_of_skills=math.fsum(skill_sums.values()), skills=skill_sums)
    if set(skill_sums) != set(by_name) or any(not close(skill_sums[k], by_name[k]) for k in by_name):
        fail("skill-sum-vs-its-logs", skills=skill_sums, expected=by_name)
    api_logs = [] if engine is None else [p for r in _extract_engine_history_as_response(engine, calc) for p in r.logs]
    if engine is not None and not close(total, math.fsum(p.total_damage for p in api_logs)):
        fail("total-vs-api-total_damage", total=total, api=math.fsum(p.total_damage for p in api_logs))
    for i, p in enumerate(api_logs):
        if not close(p.total_damage, math.fsum(r.damage for r in p.damage_records)):
            fail("api-total_damage-vs-damage_records", playlog=i, total_damage=p.total_damage,
                 records=[(r.name, r.damage) for r in p.damage_records])
    # ---- shares
    if total > 0:
        shares_v = py_value(share.compute)
        shares = shares_v[1] if shares_v[0] == "value" else {}
        if shares_v[0] == "raises":
            fail("shares", observed=shares_v[1], total=total, skills=skill_sums)
        elif any(v < 0 for v in shares.values()) or not close(math.fsum(shares.values()), 1.0) \
                or list(shares) != list(skill_sums) or any(not close(shares[k], skill_sums[k] / total) for k in shares):
            fail("shares", shares=shares, total=total)
        # a report that is read while the run goes on (a dashboard): the shares read at the end are those of a report
        # that was read only once, however often and whenever it was read before
        if len(entries) >= 2 and shares_v[0] == "value":
            live = DamageShareFeature(calc)
            cut1, cut2 = max(1, len(entries) // 3), max(2, (2 * len(entries)) // 3)
            for i, en in enumerate(entries):
                live.update(en)
                if i + 1 in (cut1, cut2):
                    py_value(live.compute)
                    py_value(live.compute)
            again = py_value(live.compute)
            if again[0] != "value" or list(again[1]) != list(shares) or any(not close(again[1][k], shares[k]) for k in shares):
                fail("shares-of-a-report-that-was-read-before", read_after_entries=[cut1, cut2],
                     observed=again[1], expected=shares)
    # ---- dpm
    if entries and entries[-1].clock > 0:
        dpm_v = py_value(lambda: calc.calculate_dpm(entries))
        dpm = dpm_v[1]
        if dpm_v[0] == "raises" or not close(dpm, total / entries[-1].clock * 60000) \
                or not close(dpm * (entries[-1].clock / 60000), total):
            fail("dpm", dpm=dpm, total=total, clock=entries[-1].clock, clocks=[en.clock for en in entries])
    return total, skill_sums


SYN_TAGS = [Tag.DAMAGE, Tag.DAMAGE, Tag.DOT, Tag.DOT, Tag.ACCEPT, Tag.REJECT, None, Tag.DELAY, Tag.ELAPSED]


def rand_sparse_stat(rng) -> Stat:
    names = list(Stat.model_fields)
    vals = {}
    for n in rng.sample(names, rng.randint(0, 5)):
        vals[n] = rng.randint(0, 400) / 8
    return Stat(**vals)


def synthetic_runs(ck: Check, calc, n_runs: int, reqs, expect, stats, samples):
    """hand-made play logs (every tag, zero damage / zero hit, with and without modifier) through the real
    SimulationEntry.build and the real calculator, and through the model"""
    from simaple.simulate.base import Checkpoint, PlayLog
    rng = ck.rng
    for k in range(n_runs):
        entries, playlogs, buffs = [], [], []
        clock = 0.0
        for _ in range(rng.randint(0, 6)):
            clock += rng.choice([0.0, 0.0, 30.0, 720.0, 1000.5, 0.6, 999.7, 250.25, 1000.3])
            events = []
            for _e in range(rng.randint(0, 7)):
                tag = rng.choice(SYN_TAGS)
                if tag in (Tag.DAMAGE, Tag.DOT):
                    payload = {"damage": rng.choice([0, 0.0, 100.0, 250.5, 1200.0]), "hit": rng.choice([0, 0.0, 1.0, 3.0, 12.0]),
                               "modifier": rng.choice([None, None, rand_sparse_stat(rng).model_dump()])}
                    if rng.random() < 0.15:
                        del payload["modifier"]         # payload.get("modifier") is None
                elif tag == Tag.DELAY:
                    payload = {"time": 30.0}
                else:
                    payload = {}
                events.append({"name": rng.choice(["A", "B", "C", "D"]), "payload": payload, "method": "use",
                               "tag": tag, "handler": None})
                if tag in (Tag.DAMAGE, Tag.DOT) and rng.random() < 0.3:
                    # the same hit again in the same play, differing only in its modifier (repeated ticks whose
                    # modifier changes mid-play, e.g. a consumed stack)
                    again = dict(events[-1])
                    again["payload"] = dict(payload, modifier=Stat(final_damage_multiplier=rng.choice([10.0, 25.0]),
                                                                 boss_damage_multiplier=rng.choice([0.0, 30.0])).model_dump())
                    events.append(again)
            pl = PlayLog(clock=clock, action={"name": "A", "method": "use", "payload": None}, events=events,
                         checkpoint=Checkpoint(store_ckpt={}))
            buff = rand_sparse_stat(rng)
            playlogs.append(pl); buffs.append(buff)
            entries.append(SimulationEntry.build(pl, buff))
        where = {"synthetic_run": k}

        def fail(kind, **kw):
            ck.add_failing({"function": "report", "kind": kind, **where, **kw})

        for i, (pl, buff, en) in enumerate(zip(playlogs, buffs, entries)):
            exp = expected_logs(pl, buff)
            stats["events"] += len(pl.events)
            stats["qualifying_events"] += len(exp)
            got = [(l.name, l.damage, l.hit, l.tag, l.buff) for l in en.damage_logs]
            ok = len(exp) == len(got) and all(a[:4] == b[:4] and stats_close(a[4], b[4]) for a, b in zip(exp, got))
            if not ok or en.clock != pl.clock or en.accepted != all(ev["tag"] != Tag.REJECT for ev in pl.events):
                fail("each-event-once", buff=buff.short_dict(),
                     events=[{kk: ev[kk] for kk in ("name", "tag", "payload")} for ev in pl.events],
                     expected_logs=[a[:4] for a in exp], observed_logs=[b[:4] for b in got])
            contrib = 0
            own = 0.0
            for a in exp:
                contrib += calc.get_damage(DamageLog(name=a[0], damage=a[1], hit=a[2], tag=a[3], buff=a[4]))
                st = calc.character_spec + a[4]
                factor = (calc.damage_logic.get_damage_factor if a[3] == Tag.DAMAGE else calc.damage_logic.get_dot_factor)(st, calc.armor)
                own += (a[1] * 0.01) * a[2] * factor * calc.level_advantage * calc.force_advantage
            if not close(contrib, calc.calculate_damage(en)):
                fail("entry-damage-vs-events", playlog=i, expected=contrib, observed=calc.calculate_damage(en),
                     events=[{kk: ev[kk] for kk in ("name", "tag", "payload")} for ev in pl.events])
            elif not close(own, calc.calculate_damage(en)):
                fail("entry-damage-vs-the-events-own-figures", playlog=i, expected=own, observed=calc.calculate_damage(en),
                     events=[{kk: ev[kk] for kk in ("name", "tag", "payload")} for ev in pl.events])
            if rng.random() < 0.5:
                reqs.append({"fn": "report_build", "clock": frac_str(pl.clock), "buff": stat_vec(buff),
                             "events": [enc_event(ev) for ev in pl.events]})
                expect.append(("build", en, {"synthetic_run": k, "playlog": i}))
        stats["run_evaluations"] += 1
        stats["synthetic_runs"] += 1
        total, sums = check_totals(ck, entries, calc, stats, fail)
        # the best window through the PUBLIC method (entries -> (clock, damage) sequence -> scan), on fractional clocks and
        # with window lengths that sit exactly on, just below and just above differences of (truncated) clocks
        seq = [(en.clock, calc.calculate_damage(en)) for en in entries]
        Ls = {1000, 30}
        for i_ in range(len(seq)):
            for j_ in range(i_ + 1, len(seq)):
                d_true, d_int = seq[j_][0] - seq[i_][0], int(seq[j_][0]) - int(seq[i_][0])
                Ls.update(x for x in (d_int, int(d_true), int(d_true) + 1) if x > 0)
        for L in sorted(Ls)[:12]:
            feat = MaximumDealingIntervalFeature(L).find_maximum_dealing_interval(entries, calc)
            direct = real_scan(seq, L)
            stats["feature_vs_scan"] = stats.get("feature_vs_scan", 0) + 1
            if direct != ("value", *feat):
                fail("find_maximum_dealing_interval-vs-scan", L=L, clocks=[c for c, _ in seq], observed=feat, expected=direct)
            elif is_sorted(seq):
                check_scan_property(ck, seq, L, stats)
        reqs.append({"fn": "report_totals", "entries": [
            {"clock": frac_str(en.clock), "logs": [[l.name, frac_str(calc.get_damage(l))] for l in en.damage_logs]}
            for en in entries]})
        expect.append(("totals", (entries, calc), {"synthetic_run": k}))
        if k == 0:
            samples.append({"synthetic_run": k, "entries": len(entries), "total": total, "skill_sums": sums})


def run_one(ck: Check, job: str, variant: int, n_cmds: int, reqs, expect, stats, samples):
    rng = ck.rng
    env = simlib.make_env(job, variant)
    plan = simlib.random_plan(rng, job, variant, n_cmds, with_console=True, max_elapse=8000.0)
    engine = get_operation_engine(env)
    for c in plan:
        engine.exec(c)
    calc = get_damage_calculator(env)
    playlogs = [pl for ol in engine.operation_logs() for pl in ol.playlogs]
    entries = list(engine.simulation_entries())
    where = {"job": job, "variant": variant, "plan": [simlib.command_text(c) for c in plan]}

    def fail(kind, **kw):
        ck.add_failing({"function": "report", "kind": kind, **where, **kw})

    # ---- every event exactly once, with the buff in force
    if len(entries) != len(playlogs):
        fail("entries-vs-playlogs", entries=len(entries), playlogs=len(playlogs))
    n_events = n_q = 0
    for i, (pl, en) in enumerate(zip(playlogs, entries)):
        buff = engine.get_viewer(pl)("buff")
        exp = expected_logs(pl, buff)
        n_events += len(pl.events)
        n_q += len(exp)
        got = [(l.name, l.damage, l.hit, l.tag, l.buff) for l in en.damage_logs]
        ok = len(exp) == len(got) and all(a[:4] == b[:4] and stats_close(a[4], b[4]) for a, b in zip(exp, got))
        if not ok or en.clock != pl.clock or en.accepted != all(ev["tag"] != Tag.REJECT for ev in pl.events):
            fail("each-event-once", playlog=i, events=[{k: ev[k] for k in ("name", "tag", "payload")} for ev in pl.events],
                 expected_logs=[a[:4] for a in exp], observed_logs=[b[:4] for b in got])
        # damage of the entry = sum of the contributions of all its events
        contrib = 0
        own = 0.0
        for a in exp:
            contrib += calc.get_damage(DamageLog(name=a[0], damage=a[1], hit=a[2], tag=a[3], buff=a[4]))
            # ... and computed here from the event itself: damage% x hits x the factor of the stat with the buff in force
            # (the factor functions are property C12's) x the two advantages -- every hit of the event counts
            st = calc.character_spec + a[4]
            factor = (calc.damage_logic.get_damage_factor if a[3] == Tag.DAMAGE else calc.damage_logic.get_dot_factor)(st, calc.armor)
            own += (a[1] * 0.01) * a[2] * factor * calc.level_advantage * calc.force_advantage
        if not close(contrib, calc.calculate_damage(en)):
            fail("entry-damage-vs-events", playlog=i, expected=contrib, observed=calc.calculate_damage(en))
        elif not close(own, calc.calculate_damage(en)):
            fail("entry-damage-vs-the-events-own-figures", playlog=i, expected=own, observed=calc.calculate_damage(en),
                 events=[{"name": a[0], "damage": a[1], "hit": a[2], "tag": str(a[3])} for a in exp])
    stats["events"] += n_events
    stats["qualifying_events"] += n_q
    # the calculator of this run against the model the composition theorems (Props/C13_Calc.lean) are about
    logic = calc.damage_logic
    sampled = [l for en in entries for l in en.damage_logs]
    rng_ = ck.rng
    for l in (rng_.sample(sampled, 10) if len(sampled) > 10 else sampled):
        reqs.append({"fn": "get_damage", "kind": type(logic).__name__,
                     "arc": frac_str(Fraction(logic.attack_range_constant)), "mastery": frac_str(Fraction(logic.mastery)),
                     "spec": stat_vec(calc.character_spec), "armor": str(calc.armor),
                     "la": frac_str(Fraction(calc.level_advantage)), "fa": frac_str(Fraction(calc.force_advantage)),
                     "damage": frac_str(Fraction(l.damage)), "hit": frac_str(Fraction(l.hit)), "buff": stat_vec(l.buff),
                     "tag": l.tag.value if hasattr(l.tag, "value") else str(l.tag)})
        expect.append(("get_damage", calc.get_damage(l), {"job": job, "log": l.name}))

    stats["runs"] += 1
    stats["run_evaluations"] += 1
    total, skill_sums = check_totals(ck, entries, calc, stats, fail, engine=engine)
    # ---- best dealing window of the run (floats; same additions as the code, so equality is exact)
    seq = [(en.clock, calc.calculate_damage(en)) for en in entries]
    run_Ls = [1000, 5000, 10000, 30000, rng.randint(1, 20000)]
    for L in run_Ls:
        feat = MaximumDealingIntervalFeature(L).find_maximum_dealing_interval(entries, calc)
        direct = real_scan(seq, L)
        if direct != ("value", *feat):
            fail("find_maximum_dealing_interval-vs-scan", L=L, observed=feat, expected=direct)
        if is_sorted(seq):
            check_scan_property(ck, seq, L, stats)
        else:
            fail("run-clocks-not-sorted", clocks=[c for c, _ in seq])

    # ---- the model on the same data
    dmg_pl = [i for i, pl in enumerate(playlogs) if any(ev["tag"] in (Tag.DAMAGE, Tag.DOT) for ev in pl.events)]
    other = [i for i in range(len(playlogs)) if i not in set(dmg_pl)]
    pick = rng.sample(dmg_pl, min(len(dmg_pl), 10 if ck.tier == "quick" else 40)) + other[:2]
    for i in pick:
        pl, en = playlogs[i], entries[i]
        buff = engine.get_viewer(pl)("buff")
        reqs.append({"fn": "report_build", "clock": frac_str(pl.clock), "buff": stat_vec(buff),
                     "events": [enc_event(ev) for ev in pl.events]})
        expect.append(("build", en, {"job": job, "playlog": i}))
    cuts = [len(entries), 0, 1, rng.randint(0, len(entries))]
    for k in cuts:
        part = entries[:k]
        reqs.append({"fn": "report_totals", "entries": [
            {"clock": frac_str(en.clock), "logs": [[l.name, frac_str(calc.get_damage(l))] for l in en.damage_logs]}
            for en in part]})
        expect.append(("totals", (part, calc), {"job": job, "first_entries": k}))
    reqs.append({"fn": "mdi_many", "seq": [[frac_str(c), frac_str(d)] for c, d in seq], "Ls": [str(L) for L in run_Ls]})
    expect.append(("mdi-run", (seq, run_Ls), {"job": job}))
    if len(samples) < 4:
        samples.append({"run": job, "variant": variant, "commands": len(plan), "entries": len(entries),
                        "events": n_events, "damage_events_counted": n_q, "total": total,
                        "skills": len(skill_sums), "last_clock": entries[-1].clock if entries else None,
                        "best_window_10s": list(MaximumDealingIntervalFeature(10000).find_maximum_dealing_interval(entries, calc))})


def rollback_report(ck: Check, job: str, variant: int, stats):
    """the report after rollback + other commands equals the report of a fresh engine that executed the surviving commands
    (`simulation_entries` must not remember what was rolled back; console lines create history entries without plays)"""
    rng = ck.rng
    env = simlib.make_env(job, variant)
    calc = get_damage_calculator(env)
    plan = simlib.random_plan(rng, job, variant, 24, with_console=True, max_elapse=4000.0)
    tail = simlib.random_plan(rng, job, variant, 8, with_console=True, max_elapse=4000.0)
    engine = get_operation_engine(env)
    for c in plan:
        engine.exec(c)
    list(engine.simulation_entries())                       # somebody looked at the report before going back
    n_hist = len(list(engine.operation_logs()))
    idx = rng.randint(0, max(0, n_hist - 2))
    try:
        engine.rollback(idx)
        kept = [ol.command for ol in engine.operation_logs()][1:]
        for c in tail:
            engine.exec(c)
        got = list(engine.simulation_entries())
        fresh = get_operation_engine(env)
        for c in list(kept) + tail:
            fresh.exec(c)
        want = list(fresh.simulation_entries())
    except Exception as e:  # noqa: BLE001
        ck.add_failing({"function": "report", "kind": "rollback-report-raises", "job": job, "error": f"{type(e).__name__}: {e}"[:200],
                        "plan": [simlib.command_text(c) for c in plan], "rollback_to": idx})
        return
    stats["rollback_reports"] = stats.get("rollback_reports", 0) + 1
    a = [(en.clock, en.action, round(calc.calculate_damage(en), 3)) for en in got]
    b = [(en.clock, en.action, round(calc.calculate_damage(en), 3)) for en in want]
    if a != b:
        k = next((i for i, (x, y) in enumerate(zip(a, b)) if x != y), min(len(a), len(b)))
        ck.add_failing({"function": "report", "kind": "report-after-rollback-differs-from-fresh-run", "job": job,
                        "plan": [simlib.command_text(c) for c in plan], "rollback_to": idx,
                        "then": [simlib.command_text(c) for c in tail], "first_difference_at_entry": k,
                        "observed": a[k:k + 2], "expected": b[k:k + 2], "entries": [len(a), len(b)]})


def compare_totals(r, part, calc) -> bool:
    per_action = [calc.calculate_damage(en) for en in part]
    got_pa = [parse_frac(x) for x in r["per_action"]]
    if len(got_pa) != len(per_action) or not all(close(a, b) for a, b in zip(got_pa, per_action)):
        return False
    if not close(parse_frac(r["total"]), calc.calculate_total_damage(part)):
        return False
    d = py_value(lambda: calc.calculate_dpm(part))
    if d[0] == "raises":
        if r["dpm"].get("raises") != d[1]:
            return False
    elif "value" not in r["dpm"] or not close(parse_frac(r["dpm"]["value"]), d[1]):
        return False
    share = DamageShareFeature(calc)
    for en in part:
        share.update(en)
    sums = list(share._damage_sum.items())
    got = [(k, parse_frac(v)) for k, v in r["skill_sums"]]
    if [k for k, _ in got] != [k for k, _ in sums] or not all(close(a[1], b[1]) for a, b in zip(got, sums)):
        return False
    s = py_value(lambda: list(share.compute().items()))
    if s[0] == "raises":
        return r["shares"].get("raises") == s[1]
    if "value" not in r["shares"]:
        return False
    gs = [(k, parse_frac(v)) for k, v in r["shares"]["value"]]
    return [k for k, _ in gs] == [k for k, _ in s[1]] and all(close(a[1], b[1]) for a, b in zip(gs, s[1]))


def compare_build(r, en: SimulationEntry) -> bool:
    if parse_frac(r["clock"]) != Fraction(en.clock) or r["accepted"] != en.accepted:
        return False
    if len(r["logs"]) != len(en.damage_logs):
        return False
    for m, l in zip(r["logs"], en.damage_logs):
        if m["name"] != l.name or m["tag"] != l.tag or parse_frac(m["damage"]) != Fraction(l.damage) \
                or parse_frac(m["hit"]) != Fraction(l.hit):
            return False
        dump = l.buff.model_dump()
        if not all(close(parse_frac(x), dump[n]) for x, n in zip(m["buff"], Stat.model_fields)):
            return False
    return True


# ---------------------------------------------------------------------------------------- main
def main(ck: Check):
    rng = ck.rng
    quick = ck.tier == "quick"
    stats = {"property_evaluations": 0, "nonpositive_raises": 0, "nontrivial": set(), "events": 0,
             "qualifying_events": 0, "runs": 0, "run_evaluations": 0, "synthetic_runs": 0}
    reqs, expect = [], []
    samples = []
    class_count: dict[str, int] = {}
    origin_count: dict[str, int] = {}

    # ------------------------------------------------------------ generated sequences
    seqs = gen_sequences(ck)
    for seq_fr, Ls, as_float, origin in seqs:
        seq = to_py(seq_fr, as_float)
        Lp = [(float(L) if isinstance(L, Fraction) else L) for L in Ls]
        reqs.append({"fn": "mdi_many", "seq": [[frac_str(c), frac_str(d)] for c, d in seq_fr],
                     "Ls": [frac_str(L) for L in Ls]})
        expect.append(("mdi", (seq, Lp), {"origin": origin}))
        origin_count[origin] = origin_count.get(origin, 0) + len(Ls)
        for L in Lp:
            for c in classes_of(seq, L):
                class_count[c] = class_count.get(c, 0) + 1
            if is_sorted(seq):
                check_scan_property(ck, seq, L, stats)
        if origin == "random" and len(samples) < 2 and len(seq) >= 4:
            samples.append({"seq": [list(p) for p in seq], "L": Lp[0], "real": list(real_scan(seq, Lp[0])),
                            "exhaustive": brute(seq, Lp[0])})

    # ------------------------------------------------------------ hand-made play logs, then real runs
    synthetic_runs(ck, get_damage_calculator(simlib.make_env("archmagefb", 0)), 60 if quick else 600,
                   reqs, expect, stats, samples)
    jobs = list(simlib.JOBS)
    if quick:
        runs = [(j, rng.randint(0, 2)) for j in rng.sample(jobs, 3)]
        n_cmds = 40
    else:
        runs = [(j, v) for j in jobs for v in (0, 1 + rng.randint(0, 1))]
        n_cmds = 90
    for job, variant in runs:
        if ck.time_left() < (25 if quick else 200):
            ck.notes.append(f"time budget: stopped before run {job}/{variant}")
            break
        run_one(ck, job, variant, n_cmds, reqs, expect, stats, samples)
        for _ in range(2 if ck.tier == "quick" else 6):
            rollback_report(ck, job, variant, stats)

    # ------------------------------------------------------------ proofs, then model vs code
    # (the Python-side work above needs no Lean; the project lock is held from regeneration to the last driver call)
    lean = ck.locked()
    lean.__enter__()
    ok_gen = ck.regenerate(["core"])        # the driver instantiates the buff block with the generated Stat
    proved = ok_gen and ck.prove("Simaple.Props.C13")
    if not quick and proved:
        ck.leanchecker(["Simaple.Props.C13"])

    res = ck.driver(reqs)
    lean.__exit__(None, None, None)
    disagreements = 0
    per_point: dict[str, int] = {}

    def disagree(point, req, model, impl, extra):
        nonlocal disagreements
        disagreements += 1
        if disagreements <= 5:
            ck.broken.append({"kind": "correspondence", "point": point, "request": req, "model": model,
                              "implementation": impl, **extra})

    if res is not None:
        for r, (what, data, extra), req in zip(res, expect, reqs):
            per_point[what] = per_point.get(what, 0) + 1
            if "ok" not in r:
                disagree(what, req, r, None, extra)
                continue
            r = r["ok"]
            if what == "mdi":
                seq, Lp = data
                if r["sorted"] != is_sorted(seq):
                    disagree("ClocksSorted", req, r["sorted"], is_sorted(seq), extra)
                for L, m in zip(Lp, r["results"]):
                    py = real_scan(seq, L)
                    if "raises" in m["scan"]:
                        mod = ("raises", m["scan"]["raises"])
                    else:
                        v = m["scan"]["value"]
                        mod = ("value", parse_frac(v[0]), int(v[1]), int(v[2]))
                    pyc = py if py[0] == "raises" else ("value", Fraction(py[1]), py[2], py[3])
                    if mod != pyc:
                        disagree(FUNC, {"seq": [list(p) for p in seq], "L": L}, m["scan"], list(py), extra)
                    # the executable specification of the theorem vs the Python brute force
                    if is_sorted(seq) and L > 0 and parse_frac(m["spec"]) != Fraction(brute(seq, L)):
                        disagree("exhaustiveBest", {"seq": [list(p) for p in seq], "L": L}, m["spec"], brute(seq, L), extra)
            elif what == "mdi-run":
                seq, Ls = data
                exact = [(Fraction(c), Fraction(d)) for c, d in seq]
                for L, m in zip(Ls, r["results"]):
                    py = real_scan(seq, L)
                    if "value" not in m["scan"] or py[0] != "value":
                        disagree(FUNC + " (run)", {"L": L, **extra}, m["scan"], list(py), {"seq": seq})
                        continue
                    v = m["scan"]["value"]
                    window = sum((d for _, d in exact[py[2]:py[3]]), Fraction(0))
                    if not close(parse_frac(v[0]), py[1]) or not close(window, parse_frac(v[0])):
                        disagree(FUNC + " (run)", {"L": L, **extra}, m["scan"], list(py), {"seq": seq})
            elif what == "get_damage":
                if not close(parse_frac(r), data):
                    disagree("DamageCalculator.get_damage (logs of a real run)", req, r, data, extra)
            elif what == "build":
                if not compare_build(r, data):
                    disagree("SimulationEntry.build", req, r, data.model_dump(), extra)
            elif what == "totals":
                part, calc = data
                if not compare_totals(r, part, calc):
                    disagree("DamageCalculator/DamageShareFeature", req, r,
                             {"per_action": [calc.calculate_damage(en) for en in part],
                              "total": calc.calculate_total_damage(part)}, extra)

    ck.coverage.update({
        "evaluations": stats["property_evaluations"] + stats["run_evaluations"] + sum(
            len(d[1]) if w in ("mdi", "mdi-run") else 1 for (w, d, _e) in expect),
        "distinct_nontrivial": len(stats["nontrivial"]),
        "rule": "window scan: every sequence over clock gaps {0,1,3} x damages {0,2,5} up to the tier's length, over "
                "gaps {0,2} x damages {0,3} two lengths further, the repository's test sequence, and seeded random "
                "sequences (length 0..40; gaps 0, 1/2, 3/1024, 1..720; damages 0, negative, 1/8..1000; int- and "
                "float-typed; 8% shuffled = clocks not sorted, correspondence only), window lengths 1..30, halves, and "
                "0/negative. Each (sequence, L) is run through the Lean scan, the Lean exhaustive specification and the "
                "real _find_maximum_dealing_interval (compared exactly, exceptions included); on clock-sorted sequences "
                "the real result is compared with a Python brute force, its indices must reproduce the value and be "
                "(0,0) or a shortest qualifying window. Real runs: seeded plans (simlib.random_plan, ELAPSE <= 8 s) per "
                "job and hand-made play logs (all tags incl. DOT/None/REJECT, zero damage, zero hit, with/without modifier); entries -> DamageCalculator -> DamageShareFeature / API records, totals three ways, shares, dpm, "
                "every event counted once with buff+modifier, best window for 5 lengths; the same data through the Lean "
                "model (relative tolerance 1e-9 where floats are summed). A case is distinct/non-trivial if "
                "(sequence, L) is new, has >= 2 entries and a positive best window.",
        "samples": samples,
        "model_vs_code_requests": len(reqs),
        "model_vs_code_disagreements": disagreements,
        "per_correspondence_point": per_point,
        "sequence_window_pairs_per_origin": origin_count,
        "sequence_window_pairs_per_class": class_count,
        "property_evaluations_on_real_scan": stats["property_evaluations"],
        "nonpositive_window_index_errors": stats["nonpositive_raises"],
        "runs": stats["runs"],
        "synthetic_runs": stats["synthetic_runs"],
        "best_window_through_the_public_method_vs_scan": stats.get("feature_vs_scan", 0),
        "reports_after_rollback_compared_with_a_fresh_run": stats.get("rollback_reports", 0),
        "events_seen": stats["events"],
        "events_counted_as_damage": stats["qualifying_events"],
    })
    ck.assumptions += [
        "floats are modelled by exact rationals; generated sequences live on a dyadic grid where float arithmetic is "
        "exact (compared exactly); real-run sums are compared with relative tolerance 1e-9",
        "DamageCalculator.get_damage is a parameter of the model (its factor is property C12); the theorems hold for "
        "every such function",
        "'windows of at least the requested length' is read as: from each start the shortest window whose clock span "
        "reaches the length (the only reading under which the answer is not trivially the whole run); the reading is "
        "re-validated on every run against the real scan by the Python brute force",
        "shares are defined for a non-zero total (compute() divides by the total; theorem shares_zero_total documents "
        "the ZeroDivisionError otherwise)",
    ]
    ck.finish("proof",
              trusted_base=["Lean 4.33 kernel", "axioms: propext, Classical.choice, Quot.sound (checked by #print axioms)",
                            "Mathlib linarith/ring + List lemmas",
                            "hand-written model Simaple/Model/Report.lean (validated against the code in this run)",
                            "CPython float arithmetic ~ exact rationals (exact on the dyadic grid, 1e-9 on real runs)"],
              checker_cmd="cd lean && lake build Simaple.Props.C13 && lake env lean Simaple/Audit/C13.lean")


if __name__ == "__main__":
    run_check("C13", main)
