"""C11 -- stat blocks form a commutative monoid and every field takes part."""
from __future__ import annotations

import itertools
import math
from fractions import Fraction

from vlib import Check, run_check, frac_str, parse_frac

from simaple.core.base import ActionStat, ExtendedStat, LevelStat, Stat

TOL = 1e-9


def close(a: float, b: float) -> bool:
    return math.isclose(a, b, rel_tol=TOL, abs_tol=1e-7)


def rand_val(rng, name: str, kind: str) -> Fraction:
    """values on a 1/8 grid so that float arithmetic stays (nearly) exact"""
    if kind == "zero":
        return Fraction(0)
    if name == "ignored_defence":
        u = rng.random()             # the ends of the legal range are values of their own (all defence ignored / none)
        return Fraction(100) if u < 0.12 else Fraction(0) if u < 0.2 else Fraction(rng.randint(0, 800), 8)
    if name == "final_damage_multiplier":
        return Fraction(rng.randint(-400, 1600), 8)
    if kind == "sparse" and rng.random() < 0.6:
        return Fraction(0)
    return Fraction(rng.randint(-800, 40000), 8) if rng.random() < 0.3 else Fraction(rng.randint(0, 4000), 8)


def rand_block(rng, cls, kind="dense"):
    names = list(cls.model_fields)
    vals = {n: rand_val(rng, n, kind) for n in names}
    return vals


def mk(cls, vals):
    return cls(**{k: float(v) for k, v in vals.items()})


def vec(cls, vals):
    return [frac_str(vals[n]) for n in cls.model_fields]


def blocks_close(x, y) -> bool:
    dx, dy = x.model_dump(), y.model_dump()
    return dx.keys() == dy.keys() and all(close(dx[k], dy[k]) for k in dx)


def main(ck: Check):
    rng = ck.rng
    n_cases = 40 if ck.tier == "quick" else 600
    lean = ck.locked()
    lean.__enter__()
    ok_gen = ck.regenerate(["core", "effects"])
    proved = ok_gen and ck.prove("Simaple.Props.C11")
    if ck.tier == "thorough" and proved:
        ck.leanchecker(["Simaple.Props.C11"])

    # ---------------------------------------------------------------- correspondence: generated model vs code
    reqs, expect = [], []

    def add(req, py_vals, what):
        reqs.append(req)
        expect.append((py_vals, what, req))

    reqs.append({"fn": "stat_fields"}); expect.append((list(Stat.model_fields), "fields", reqs[-1]))
    reqs.append({"fn": "action_fields"}); expect.append((list(ActionStat.model_fields), "fields", reqs[-1]))
    reqs.append({"fn": "level_fields"}); expect.append((list(LevelStat.model_fields), "fields", reqs[-1]))
    kinds = ["dense", "sparse", "dense", "zero"]
    samples = []
    def correspondence_case(i):
        a = rand_block(rng, Stat, kinds[i % 4]); b = rand_block(rng, Stat, kinds[(i // 4) % 3])
        A, B = mk(Stat, a), mk(Stat, b)
        add({"fn": "stat_add", "a": vec(Stat, a), "b": vec(Stat, b)}, list((A + B).model_dump().values()), "Stat.__add__")
        C = A.model_copy(); C += B
        add({"fn": "stat_iadd", "a": vec(Stat, a), "b": vec(Stat, b)}, list(C.model_dump().values()), "Stat.__iadd__")
        n = rng.randint(0, 12)
        add({"fn": "stat_stack", "a": vec(Stat, a), "n": str(n)}, list(A.stack(n).model_dump().values()), "Stat.stack")
        k = rng.randint(0, 6)
        xs = [rand_block(rng, Stat, rng.choice(kinds)) for _ in range(k)]
        add({"fn": "stat_sum", "xs": [vec(Stat, x) for x in xs]},
            list(Stat.sum([mk(Stat, x) for x in xs]).model_dump().values()), "Stat.sum")
        aa, ab = rand_block(rng, ActionStat), rand_block(rng, ActionStat)
        add({"fn": "action_add", "a": vec(ActionStat, aa), "b": vec(ActionStat, ab)},
            list((mk(ActionStat, aa) + mk(ActionStat, ab)).model_dump().values()), "ActionStat.__add__")
        X = mk(ActionStat, aa); X += mk(ActionStat, ab)
        add({"fn": "action_iadd", "a": vec(ActionStat, aa), "b": vec(ActionStat, ab)},
            list(X.model_dump().values()), "ActionStat.__iadd__")
        la, lb = rand_block(rng, LevelStat), rand_block(rng, LevelStat)
        add({"fn": "level_add", "a": vec(LevelStat, la), "b": vec(LevelStat, lb)},
            list((mk(LevelStat, la) + mk(LevelStat, lb)).model_dump().values()), "LevelStat.__add__")
        lvl = rng.randint(0, 300)
        add({"fn": "level_get_stat", "a": vec(LevelStat, la), "level": str(lvl)},
            list(mk(LevelStat, la).get_stat(lvl).model_dump().values()), "LevelStat.get_stat")
        ea = ExtendedStat(stat=A, action_stat=mk(ActionStat, aa), level_stat=mk(LevelStat, la))
        eb = ExtendedStat(stat=B, action_stat=mk(ActionStat, ab), level_stat=mk(LevelStat, lb))
        es = ea + eb
        flat = list(es.stat.model_dump().values()) + list(es.action_stat.model_dump().values()) + list(es.level_stat.model_dump().values())
        add({"fn": "ext_add", "as": vec(Stat, a), "aa": vec(ActionStat, aa), "al": vec(LevelStat, la),
             "bs": vec(Stat, b), "ba": vec(ActionStat, ab), "bl": vec(LevelStat, lb)}, flat, "ExtendedStat.__add__")
        add({"fn": "ext_compute_by_level", "as": vec(Stat, a), "aa": vec(ActionStat, aa), "al": vec(LevelStat, la),
             "level": str(lvl)}, list(ea.compute_by_level(lvl).model_dump().values()), "ExtendedStat.compute_by_level")
        if i < 2:
            samples.append({"op": "Stat.__add__", "a": {k: str(v) for k, v in a.items() if v}, "b": {k: str(v) for k, v in b.items() if v}})

    raised_in_correspondence = []
    for i in range(n_cases):
        n_before = len(reqs)
        try:
            correspondence_case(i)
        except Exception as e:   # an operator of the real code raised on a legal block: a failing input, not a crash
            del reqs[n_before:]; del expect[n_before:]
            if len(raised_in_correspondence) < 3:
                raised_in_correspondence.append(f"{type(e).__name__}: {str(e)[:300]}")
    res = ck.driver(reqs)
    effect_rows = ck.effect_entries(11, "Simaple.Props.C11.operators_wellFormed")
    lean.__exit__(None, None, None)
    disagreements = 0
    seen_ops = {}
    if res is not None:
        for r, (py, what, req) in zip(res, expect):
            seen_ops[what] = seen_ops.get(what, 0) + 1
            if "ok" not in r:
                agree = False
            elif what == "fields":
                agree = r["ok"] == py
            else:
                got = [float(parse_frac(x)) for x in r["ok"]]
                agree = len(got) == len(py) and all(close(g, p) for g, p in zip(got, py))
            if not agree:
                disagreements += 1
                if disagreements <= 5:
                    ck.broken.append({"kind": "correspondence", "point": what, "request": req,
                                      "model": r, "implementation": py})

    # ---------------------------------------------------------------- the laws on the real operators
    laws_checked = 0
    distinct = set()

    def fail(law, **inputs):
        ck.add_failing({"law": law, "inputs": {k: (v.short_dict() if hasattr(v, "short_dict") else v) for k, v in inputs.items()}})

    def per_field_blocks():
        # one block per declared field with only that field set: "every field takes part"
        for n in Stat.model_fields:
            v = 12.5 if n != "ignored_defence" else 25.0
            yield n, Stat(**{n: v}), v

    for n, blk, v in per_field_blocks():
        laws_checked += 1
        other = Stat(**{n: 4.0})
        s = blk + other
        exp = v + 4.0
        if n == "final_damage_multiplier":
            exp = v + 4.0 + 0.01 * v * 4.0
        if n == "ignored_defence":
            exp = 100 - 0.01 * (100 - v) * (100 - 4.0)
        if not close(getattr(s, n), exp):
            fail("field takes part in +", field=n, a=blk, b=other)
        c = blk.model_copy(); c += other
        if not close(getattr(c, n), exp):
            fail("field takes part in +=", field=n, a=blk, b=other)
        if not close(getattr(Stat.sum([blk, other]), n), exp):
            fail("field takes part in sum", field=n, a=blk, b=other)
        if not close(getattr(blk.stack(3), n), v * 3):
            fail("field takes part in stack", field=n, a=blk, n=3)
        if not blocks_close(blk + Stat(), blk) or not blocks_close(Stat() + blk, blk):
            fail("adding the empty block", field=n, a=blk)
    for cls in (ActionStat, LevelStat):
        for n in cls.model_fields:
            laws_checked += 1
            x, y = cls(**{n: 7.5}), cls(**{n: 2.25})
            if not close(getattr(x + y, n), 9.75):
                fail(f"{cls.__name__} field takes part in +", field=n)
            if cls is ActionStat:
                z = x.model_copy(); z += y
                if not close(getattr(z, n), 9.75):
                    fail("ActionStat field takes part in +=", field=n)
    for msg in raised_in_correspondence:
        ck.add_failing({"law": "an operator raised on a legal stat block", "error": msg})

    def unchanged(before, objs):
        return all(o.model_dump() == d for o, d in zip(objs, before))

    def law_case(i):
        nonlocal laws_checked
        a, b, c = (mk(Stat, rand_block(rng, Stat, kinds[(i + j) % 4])) for j in range(3))
        distinct.add(tuple(sorted(a.short_dict().items())))
        laws_checked += 1
        # operands are never modified and results are new objects (the block handed in stays the caller's)
        for x, y in ((a, b), (a, Stat()), (Stat(), a), (a, Stat(STR=0.0))):
            before = [x.model_dump(), y.model_dump()]
            r = x + y
            if r is x or r is y:
                fail("a+b returns one of its operands (later += on the result rewrites the operand)", a=x, b=y)
            r += c
            if not unchanged(before, [x, y]):
                fail("(a+b) += c changed an operand of the +", a=x, b=y, c=c)
        before = [a.model_dump(), b.model_dump(), c.model_dump()]
        sm = Stat.sum([a, b, c])
        if any(sm is x for x in (a, b, c)):
            fail("sum returns one of its elements", xs=[a.short_dict(), b.short_dict(), c.short_dict()])
        sm += c
        st0 = a.stack(1)
        if st0 is a:
            fail("stack returns its operand", a=a)
        st0 += b
        if not unchanged(before, [a, b, c]):
            fail("sum/stack followed by += changed an operand", a=a, b=b, c=c)
        if not blocks_close(a + b, b + a):
            fail("a+b = b+a", a=a, b=b)
        if not blocks_close((a + b) + c, a + (b + c)):
            fail("(a+b)+c = a+(b+c)", a=a, b=b, c=c)
        if not blocks_close(a + Stat(), a):
            fail("a+0 = a", a=a)
        d = a.model_copy(); d += b
        if not blocks_close(d, a + b):
            fail("a+=b equals a+b", a=a, b=b)
        xs = [a, b, c] + [mk(Stat, rand_block(rng, Stat, "sparse")) for _ in range(rng.randint(0, 3))]
        folded = Stat()
        for x in xs:
            folded = folded + x
        if not blocks_close(Stat.sum(xs), folded):
            fail("sum(xs) equals repeated +", xs=[x.short_dict() for x in xs])
        ys = xs[:]; rng.shuffle(ys)
        if not blocks_close(Stat.sum(xs), Stat.sum(ys)):
            fail("sum is permutation invariant", xs=[x.short_dict() for x in xs], ys=[y.short_dict() for y in ys])
        ab = a + b
        if not close(1 + ab.final_damage_multiplier / 100, (1 + a.final_damage_multiplier / 100) * (1 + b.final_damage_multiplier / 100)):
            fail("final damage multiplicative", a=a, b=b)
        if not close(1 - ab.ignored_defence / 100, (1 - a.ignored_defence / 100) * (1 - b.ignored_defence / 100)):
            fail("ignored defence multiplicative", a=a, b=b)
        for n in Stat.model_fields:
            if n not in ("final_damage_multiplier", "ignored_defence") and not close(getattr(ab, n), getattr(a, n) + getattr(b, n)):
                fail("field additive", field=n, a=a, b=b)
        k = rng.randint(0, 9)
        st = a.stack(k)
        for n in Stat.model_fields:
            if not close(getattr(st, n), getattr(a, n) * k):
                fail("stack scales", field=n, a=a, n=k)
        sd = a.short_dict()
        if any(v == 0 for v in sd.values()) or {k_: v for k_, v in a.model_dump().items() if v != 0} != sd:
            fail("short_dict drops exactly the zero entries", a=a)
        ea = ExtendedStat(stat=a, action_stat=mk(ActionStat, rand_block(rng, ActionStat)), level_stat=mk(LevelStat, rand_block(rng, LevelStat)))
        eb = ExtendedStat(stat=b, action_stat=mk(ActionStat, rand_block(rng, ActionStat)), level_stat=mk(LevelStat, rand_block(rng, LevelStat)))
        l, r = ea + eb, eb + ea
        if not (blocks_close(l.stat, r.stat) and blocks_close(l.action_stat, r.action_stat) and blocks_close(l.level_stat, r.level_stat)):
            fail("ExtendedStat a+b = b+a", a=ea.model_dump(), b=eb.model_dump())
        z = ea + ExtendedStat()
        if not (blocks_close(z.stat, ea.stat) and blocks_close(z.action_stat, ea.action_stat) and blocks_close(z.level_stat, ea.level_stat)):
            fail("ExtendedStat a+0 = a", a=ea.model_dump())
        for e1, e2 in ((ea, eb), (ea, ExtendedStat()), (ea, ExtendedStat(action_stat=eb.action_stat))):
            before = [e1.model_dump(), e2.model_dump()]
            r = e1 + e2
            if any(p is q for p in (r.stat, r.action_stat, r.level_stat)
                   for q in (e1.stat, e1.action_stat, e1.level_stat, e2.stat, e2.action_stat, e2.level_stat)):
                fail("ExtendedStat a+b shares a block with an operand", a=e1.model_dump(), b=e2.model_dump())
            r.stat += c
            r.action_stat += eb.action_stat
            if not unchanged(before, [e1, e2]):
                fail("(ExtendedStat a+b).stat += c changed an operand", a=e1.model_dump(), b=e2.model_dump())

    for i in range(n_cases):
        try:
            law_case(i)
        except Exception as e:
            ck.add_failing({"law": "an operator raised on a legal stat block", "error": f"{type(e).__name__}: {str(e)[:300]}",
                            "case": i})

    ck.coverage.update({
        "evaluations": len(reqs) + laws_checked,
        "distinct_nontrivial": len(distinct),
        "rule": "seeded random stat blocks on a 1/8 grid (dense / sparse / zero; final damage -50..200, ignore 0..100); "
                "each generated definition evaluated by the Lean driver and by the Python operator on the same block "
                "(relative tolerance 1e-9: the theorems are about exact arithmetic, floats are not associative); the laws "
                "of the property evaluated directly on the real operators; a case is distinct/non-trivial if the first "
                "block's non-zero field set and values differ and it has a non-zero field",
        "samples": samples,
        "model_vs_code_requests": len(reqs),
        "operators_checked_by_the_effect_model": effect_rows,
        "model_vs_code_disagreements": disagreements,
        "per_operation": seen_ops,
        "laws_checked_on_implementation": laws_checked,
    })
    ck.assumptions += [
        "floats are modelled by exact rationals; implementation comparison uses relative tolerance 1e-9",
        "py2lean translator (tools/py2lean) is trusted to preserve the meaning of the translated subset; "
        "it is cross-checked on every run by evaluating every generated definition against the Python original",
    ]
    ck.finish("proof",
              trusted_base=["Lean 4.33 kernel", "axioms: propext, Classical.choice, Quot.sound (checked by #print axioms)",
                            "Mathlib ring/norm_num + List.Perm lemmas", "py2lean translator (validated by the self-check in this run)",
                            "CPython float arithmetic ~ exact rationals within 1e-9 on the sampled grid"],
              checker_cmd="cd lean && lake build Simaple.Props.C11 && lake env lean Simaple/Audit/C11.lean")


if __name__ == "__main__":
    run_check("C11", main)
