"""C17, part `Props/C17_Parts.lean`: the parts of a gear blueprint computed by the model.

Used by check_C17.py (block "C17_Parts").  Everything here compares the hand model `Simaple.Model.GearParts`
(driver entry points `gp_*` of `Simaple.DrvGearParts`) with the real code, exactly, and evaluates the part
theorems' statements directly on the real code:

* generated tables / enumerations / constants vs the live module objects;
* `SpellTrace.calculate_improvement`: EVERY GearType member x level bands x probabilities x stat kinds (+ orders,
  job masks on armor; + illegal probabilities / kinds) -- on the real code every legal case must be a Stat with all
  27 fields >= 0;
* `Scroll`, `ExceptionalEnhancement`, `BonusFactory.create(kind, grade).calculate_improvement` (grades -8..9),
  `BonusSpec` validation / `get_grade`;
* whole blueprints described only by (meta, spell traces, scrolls, stars, bonus specs, exceptional stat): the model
  computes every part itself.
"""
from __future__ import annotations

import contextlib
import io
import math
import time
from fractions import Fraction

import simaple.gear.improvements.spell_trace as stmod
from simaple.core import Stat, StatProps
from simaple.gear.blueprint.gear_blueprint import BonusSpec, GeneralizedGearBlueprint, PracticalGearBlueprint
from simaple.gear.bonus_factory import BonusFactory, BonusType
from simaple.gear.gear import GearMeta
from simaple.gear.gear_type import GearType
from simaple.gear.improvements.exceptional_enhancement import ExceptionalEnhancement
from simaple.gear.improvements.scroll import Scroll
from simaple.gear.improvements.spell_trace import SpellTrace
from simaple.gear.improvements.starforce import Starforce

from vlib import frac_str, parse_frac

ALL_FIELDS = list(Stat.model_fields)
MULT_IDX = [ALL_FIELDS.index("final_damage_multiplier"), ALL_FIELDS.index("ignored_defence")]
# the domain of `spellTrace_defined` spelled out (Lean: `legal_probabilities_spec`): weapon-likes take 100/70/30/15,
# gloves, armor, shoulder pads, accessories and machine hearts 100/70/30
LEGAL_PROBABILITIES = {"weapon": [100, 70, 30, 15], "glove": [100, 70, 30], "armor": [100, 70, 30],
                       "accessory": [100, 70, 30], "machine_heart": [100, 70, 30]}
LEGAL_KINDS = [StatProps.INT, StatProps.DEX, StatProps.LUK, StatProps.STR, StatProps.MHP]
LEVELS = [0, 30, 70, 71, 110, 111, 160, 250]


def call(f):
    try:
        return f()
    except Exception as e:  # noqa: BLE001 -- exceptions are results here
        return type(e).__name__


def quiet_call(f):
    with contextlib.redirect_stdout(io.StringIO()):
        return call(f)


def gear_class(t: GearType):
    """the class `SpellTrace.calculate_improvement` puts a gear type in (None: no class)"""
    if t.is_improved_as_weapon():
        return "weapon"
    if t == GearType.glove:
        return "glove"
    if t.is_armor() or t == GearType.shoulder_pad:
        return "armor"
    if t.is_accessory():
        return "accessory"
    if t == GearType.machine_heart:
        return "machine_heart"
    return None


def meta_key(meta: GearMeta):
    return [int(meta.type.value), int(meta.req_level), 1 if meta.superior_eqp else 0, int(meta.req_job),
            int(meta.max_scroll_chance)]


def stat_rats(stat: Stat):
    d = stat.model_dump()
    return [frac_str(Fraction(d[k])) for k in ALL_FIELDS]


def res_of(r):
    """a real result in the driver's format"""
    return stat_rats(r) if isinstance(r, Stat) else r


def gp_meta(meta: GearMeta):
    return {"m": meta_key(meta), "base": stat_rats(meta.base_stat), "boss": bool(meta.boss_reward),
            "exc": bool(meta.exceptional_enhancement)}


def gp_trace(t: SpellTrace):
    return [int(t.probability), t.stat_prop_type.value, int(t.order)]


def gp_scroll(s: Scroll):
    return {"stat": stat_rats(s.stat), "gear_types": [int(g.value) for g in s.gear_types]}


def gp_spec(s: BonusSpec):
    return [s.bonus_type.value, s.grade, s.rank]


def same_result(model, py, exact_all=True):
    """model/py: exception name or list of 27 'n/d' strings; exact, except 1e-9 on the two multiplicative fields
    when exact_all is False (Python computes those two in floating point)"""
    if isinstance(model, str) or isinstance(py, str):
        return model == py
    if len(model) != len(py):
        return False
    for i, (a, b) in enumerate(zip(model, py)):
        fa, fb = parse_frac(a), parse_frac(b)
        if fa == fb:
            continue
        if not exact_all and i in MULT_IDX and math.isclose(float(fa), float(fb), rel_tol=1e-9, abs_tol=1e-7):
            continue
        return False
    return True


class Parts:
    def __init__(self, ck, reqs: list, expect: list, describe):
        self.ck = ck
        self.reqs = reqs
        self.expect = expect
        self.grids: dict[int, tuple] = {}
        self.describe = describe
        self.rng = ck.rng
        self.thorough = ck.tier == "thorough"
        self.cov = {"spell_trace_calls": 0, "spell_trace_legal_cases": 0, "spell_trace_refused_cases": 0,
                    "bonus_calls": 0, "bonus_valid_cases": 0, "scroll_calls": 0, "exceptional_calls": 0,
                    "spec_cases": 0, "concrete_blueprints": 0, "concrete_blueprints_built": 0,
                    "adversarial_blueprints": 0, "adversarial_blueprint_outcomes": {}}
        self.distinct: set = set()
        self.samples: list = []
        self.n_fail = 0

    # ------------------------------------------------------------------------------------------ helpers
    def add(self, req: dict, py, what: str, short=None):
        """register a driver request with the real code's answer (`short`: what a replay shows as the request)"""
        self.reqs.append(req)
        self.expect.append((py, what, short if short is not None else req))

    def fail(self, item: dict):
        self.n_fail += 1
        if self.n_fail <= 12:
            self.ck.add_failing(item)

    def mk_meta(self, code, level, job=0, tuc=7, base=None, boss=False, exc=False, sup=False) -> GearMeta:
        return GearMeta(id=0, name="synthetic", base_stat=base or Stat(), type=GearType(code), req_level=level,
                        superior_eqp=sup, req_job=job, max_scroll_chance=tuc, boss_reward=boss,
                        exceptional_enhancement=exc)

    # ------------------------------------------------------------------------------------------ tables
    def tables(self):
        py1, py2 = {}, {}
        for n in dir(stmod):
            v = getattr(stmod, n)
            if isinstance(v, dict) and v and all(isinstance(k, int) for k in v):
                rows = [[k, val] for k, val in v.items()]
                if all(isinstance(x, list) and x and isinstance(x[0], list) for x in v.values()):
                    py2[n] = rows
                else:
                    py1[n] = rows
        probe = SpellTrace(probability=100, stat_prop_type=StatProps.STR)
        spec_fields = BonusSpec.model_fields
        py = {"PROBABILITIES": list(stmod.PROBABILITIES),
              "STAT_PROP_TYPES": [p.value for p in stmod.STAT_PROP_TYPES],
              "StatProps": [p.value for p in StatProps],
              "tables1": py1, "tables2": py2, "order_default": probe.order,
              "ranks": [probe.get_spell_trace_rank(self.mk_meta(100, l)) for l in LEVELS + [-5, 69, 109, 112, 300]],
              "bonus_type_values": [b.value for b in BonusType]}
        assert spec_fields is not None
        self.add({"fn": "gp_tables", "levels": LEVELS + [-5, 69, 109, 112, 300]}, py, "parts: generated tables")

    # ------------------------------------------------------------------------------------------ spell traces
    def spell_traces(self, shipped: dict):
        thorough = self.thorough
        probs = list(dict.fromkeys(list(stmod.PROBABILITIES) + [100, 70, 30, 15]))
        kinds = list(dict.fromkeys(list(stmod.STAT_PROP_TYPES) + LEGAL_KINDS))
        base_traces = [SpellTrace(probability=p, stat_prop_type=k) for p in probs for k in kinds]
        order_traces = [SpellTrace(probability=p, stat_prop_type=k, order=o) for p in probs[:3] for k in kinds
                        for o in ([4, 1, 0, 5] if thorough else [4])]
        illegal = [SpellTrace(probability=p, stat_prop_type=k) for p, k in
                   [(50, StatProps.STR), (0, StatProps.INT), (100, StatProps.MMP), (70, StatProps.attack_power),
                    (15, StatProps.MHP_multiplier), (-30, StatProps.LUK)]]
        groups: list[tuple[list[GearMeta], list[SpellTrace]]] = []
        # every GearType member x level bands
        metas = [self.mk_meta(int(t.value), l, job=self.rng.choice([0, 1, 2, 4, 8, 16]))
                 for t in GearType for l in LEVELS]
        groups.append((metas, base_traces + illegal))
        # armor kinds x job masks: the 4th-trace extra
        armor_types = [t for t in GearType if t.is_armor()]
        jobs = [0, 1, 2, 3, 4, 8, 16, 6, -1, 24]
        metas = [self.mk_meta(int(t.value), l, job=j) for t in armor_types for l in ([70, 71, 111] if thorough else [111])
                 for j in jobs]
        metas += [self.mk_meta(int(t.value), 150, job=j) for t in (GearType.ring, GearType.shoulder_pad, GearType.staff,
                                                                   GearType.machine_heart, GearType.katara)
                  for j in (0, 2)]
        groups.append((metas, order_traces))
        # shipped gears: distinct (type, level, job) of the enhanceable ones
        seen = {}
        for gid, m in shipped.items():
            if m.max_scroll_chance > 0:
                seen.setdefault((m.type, m.req_level, m.req_job), m)
        ship = list(seen.values())
        if not thorough:
            ship = [m for i, m in enumerate(ship) if i % 8 == 0]
        groups.append((ship, base_traces))
        self.cov["spell_trace_shipped_metas"] = len(ship)

        undefined_shipped = {}
        for gid, m in shipped.items():
            if m.max_scroll_chance > 0 and gear_class(m.type) is None:
                undefined_shipped.setdefault(m.type.name, []).append(gid)
        self.cov["shipped_gears_with_scroll_slots_outside_every_spell_trace_class"] = {
            k: {"count": len(v), "first": v[0]} for k, v in undefined_shipped.items()}

        for metas, traces in groups:
            expected = []
            for m in metas:
                cls = gear_class(m.type)
                row = []
                for t in traces:
                    self.cov["spell_trace_calls"] += 1
                    r = call(lambda: t.calculate_improvement(m))
                    row.append(res_of(r))
                    legal = cls is not None and t.probability in LEGAL_PROBABILITIES[cls] and t.stat_prop_type in LEGAL_KINDS
                    if legal:
                        self.cov["spell_trace_legal_cases"] += 1
                        if not isinstance(r, Stat):
                            self.fail({"kind": "spell-trace", "what": "a legal spell trace is not defined",
                                       "gear_type": m.type.name, "gear_class": cls, "req_level": m.req_level,
                                       "req_job": m.req_job, "gear": self.describe(m) if m.id else None,
                                       "probability": t.probability, "stat_prop_type": t.stat_prop_type.value,
                                       "order": t.order, "observed": r})
                            continue
                        d = r.model_dump()
                        neg = {k: v for k, v in d.items() if v < 0}
                        if neg:
                            self.fail({"kind": "spell-trace", "what": "negative field in a spell-trace improvement",
                                       "gear_type": m.type.name, "gear_class": cls, "req_level": m.req_level,
                                       "req_job": m.req_job, "probability": t.probability,
                                       "stat_prop_type": t.stat_prop_type.value, "order": t.order, "observed": neg})
                        self.distinct.add(("trace", cls, 2 if m.req_level > 110 else (1 if m.req_level > 70 else 0),
                                           t.probability, t.stat_prop_type.value, t.order == 4 and m.type.is_armor()
                                           and m.type != GearType.glove and (m.req_job == 0, m.req_job // 2 % 2)))
                        if len(self.samples) < 2 and t.probability == 30 and m.req_level > 110 and cls in ("armor", "weapon") \
                                and cls not in [s.get("gear_class") for s in self.samples]:
                            self.samples.append({"part": "spell trace", "gear_class": cls, "gear_type": m.type.name,
                                                 "req_level": m.req_level, "probability": 30,
                                                 "stat_prop_type": t.stat_prop_type.value, "improvement": r.short_dict()})
                    elif not isinstance(r, Stat):
                        self.cov["spell_trace_refused_cases"] += 1
                expected.append(row)
            tag = len(self.grids)
            self.grids[tag] = ([meta_key(m) for m in metas], [gp_trace(t) for t in traces])
            self.add({"fn": "gp_trace_grid", "metas": self.grids[tag][0], "traces": self.grids[tag][1]},
                     expected, "parts: SpellTrace.calculate_improvement (grid)",
                     short={"fn": "gp_trace_grid", "grid": tag, "metas": len(metas), "traces": len(traces)})

    # ------------------------------------------------------------------------------------------ scroll / exceptional
    def rand_int_stat(self) -> Stat:
        ks = self.rng.sample(["STR", "DEX", "INT", "LUK", "attack_power", "magic_attack", "MHP", "MMP",
                              "boss_damage_multiplier", "critical_rate", "ignored_defence"], self.rng.randint(1, 4))
        return Stat(**{k: float(self.rng.randint(1, 12)) for k in ks})

    def scrolls(self):
        types = list(GearType)
        for _ in range(400 if self.thorough else 60):
            t = self.rng.choice(types)
            m = self.mk_meta(int(t.value), self.rng.choice(LEVELS))
            gts = self.rng.choice([[], [t], self.rng.sample(types, 3), self.rng.sample(types, 2) + [t]])
            sc = Scroll(stat=self.rand_int_stat(), name="s", gear_types=gts)
            self.cov["scroll_calls"] += 1
            self.add({"fn": "gp_scroll", "m": meta_key(m), "scroll": gp_scroll(sc)},
                     res_of(call(lambda: sc.calculate_improvement(m))), "parts: Scroll.calculate_improvement")
            flag = self.rng.random() < 0.5
            m2 = self.mk_meta(int(t.value), 100, exc=flag)
            ex = ExceptionalEnhancement(stat=self.rand_int_stat())
            self.cov["exceptional_calls"] += 1
            self.add({"fn": "gp_exceptional", "meta": gp_meta(m2), "stat": stat_rats(ex.stat)},
                     res_of(call(lambda: ex.calculate_improvement(m2))),
                     "parts: ExceptionalEnhancement.calculate_improvement")

    # ------------------------------------------------------------------------------------------ bonus
    def bonuses(self, shipped: dict):
        factory = BonusFactory()
        seen = {}
        for gid, m in shipped.items():
            key = (m.type if m.type.is_weapon() else None, m.req_level, m.boss_reward,
                   m.base_stat.attack_power if m.type.is_weapon() else 0, m.base_stat.magic_attack if m.type.is_weapon() else 0)
            seen.setdefault(key, m)
        metas = list(seen.values())
        zero = [m for m in metas if m.type in (GearType.sword_zb, GearType.sword_zl)]
        if not self.thorough:
            rest = [m for m in metas if m not in zero]
            metas = zero[::3] + [m for i, m in enumerate(rest) if i % 25 == 0]
        self.cov["bonus_metas"] = len(metas)
        attack = (BonusType.attack_power, BonusType.magic_attack)
        for m in metas:
            cases, expected = [], []
            for bt in BonusType:
                grades = list(range(1, 8))
                if bt in attack:
                    grades += [-8, -7, -6, -1, 0, 8, 9]
                elif self.rng.random() < 0.2:
                    grades += [0, 8, -3]
                for g in grades:
                    self.cov["bonus_calls"] += 1
                    r = quiet_call(lambda: factory.create(bt, g).calculate_improvement(m))
                    cases.append([bt.value, g])
                    expected.append(res_of(r))
                    if 1 <= g <= 7 and not (m.boss_reward and g < 3):
                        self.cov["bonus_valid_cases"] += 1
                        if not isinstance(r, Stat):
                            self.fail({"kind": "bonus", "what": "a bonus option with a grade that exists on the gear is "
                                       "not defined", "gear": self.describe(m), "bonus_type": bt.value, "grade": g,
                                       "observed": r})
                            continue
                        neg = {k: v for k, v in r.model_dump().items() if v < 0}
                        if neg:
                            self.fail({"kind": "bonus", "what": "negative field in a bonus improvement",
                                       "gear": self.describe(m), "bonus_type": bt.value, "grade": g, "observed": neg})
                        self.distinct.add(("bonus", m.id, bt.value, g))
                        if bt == BonusType.attack_power and g == 5 and m.type.is_weapon() and \
                                "bonus" not in [s_.get("part") for s_ in self.samples]:
                            self.samples.append({"part": "bonus", "gear": self.describe(m), "bonus_type": bt.value,
                                                 "grade": g, "improvement": r.short_dict()})
            self.add({"fn": "gp_bonus_grid", "meta": gp_meta(m), "cases": cases}, expected,
                     "parts: BonusFactory.create(kind, grade).calculate_improvement (per gear)",
                     short={"fn": "gp_bonus_grid", "gear": self.describe(m), "cases": cases})
        # BonusSpec validation / get_grade
        for grade in [None, 0, 1, 2, 3, 7, 8, -1]:
            for rank in [None, 0, 1, 2, 7, 8, -1]:
                spec = call(lambda: BonusSpec(bonus_type=BonusType.STR, grade=grade, rank=rank))
                py = {"valid": isinstance(spec, BonusSpec),
                      "grade": call(spec.get_grade) if isinstance(spec, BonusSpec) else None}
                self.cov["spec_cases"] += 1
                self.add({"fn": "gp_spec", "spec": ["STR", grade, rank]}, py, "parts: BonusSpec validation / get_grade")

    # ------------------------------------------------------------------------------------------ blueprints
    def blueprint(self, bp, built, tag="random"):
        """one request for a blueprint of the real code, described WITHOUT any part contribution"""
        meta = bp.meta
        py = built if isinstance(built, str) else stat_rats(built.stat)
        if tag == "random":
            self.cov["concrete_blueprints"] += 1
            if not isinstance(built, str):
                self.cov["concrete_blueprints_built"] += 1
                self.distinct.add(("blueprint", self.cov["concrete_blueprints"]))
        if isinstance(bp, PracticalGearBlueprint):
            g = call(bp.translate_into_generalized_gear_blueprint)
            shape = {"star": g.starforce.star, "n_traces": len(g.spell_traces), "n_scrolls": len(g.scrolls)} \
                if isinstance(g, GeneralizedGearBlueprint) else None
            self.add({"fn": "gp_practical", "meta": gp_meta(meta),
                      "trace": gp_trace(bp.spell_trace) if bp.spell_trace is not None else None,
                      "scroll": gp_scroll(bp.scroll) if bp.scroll is not None else None,
                      "star": bp.star, "bonuses": [gp_spec(s) for s in bp.bonuses]},
                     {"shape": shape, "stat": py}, f"parts: PracticalGearBlueprint.build (concrete, {tag})")
        else:
            self.add({"fn": "gp_build", "meta": gp_meta(meta), "traces": [gp_trace(t) for t in bp.spell_traces],
                      "scrolls": [gp_scroll(s) for s in bp.scrolls], "star": bp.starforce.star,
                      "bonuses": [gp_spec(s) for s in bp.bonuses],
                      "exc": stat_rats(bp.exceptional_enhancement.stat) if bp.exceptional_enhancement is not None else None},
                     py, f"parts: GeneralizedGearBlueprint.build (concrete, {tag})")

    def adversarial_blueprints(self, repo, metas: dict):
        """blueprints that also leave the well-formed domain: any shipped gear (also without scroll slots or outside
        every spell-trace class), unlisted probabilities / stat kinds, scrolls restricted to gear types, rank 0,
        grades below 3 on boss rewards, an exceptional part on gears without the flag -- the model must raise the
        same exception class (or build the same stat) as the real code"""
        rng = self.rng
        ids = list(metas)
        types = list(GearType)
        odd = [gid for gid in ids if metas[gid].max_scroll_chance > 0 and gear_class(metas[gid].type) is None]
        for i in range(1200 if self.thorough else 140):
            gid = rng.choice(odd) if (odd and i % 9 == 0) else rng.choice(ids)
            meta = metas[gid]
            tuc = meta.max_scroll_chance

            def mk_trace():
                return SpellTrace(probability=rng.choice([100, 70, 30, 15, 15, 50]),
                                  stat_prop_type=rng.choice(LEGAL_KINDS + [StatProps.MMP]), order=rng.choice([-1, 1, 4]))

            def mk_scroll():
                return Scroll(stat=self.rand_int_stat(), name="s",
                              gear_types=rng.choice([[], [], [meta.type], [rng.choice(types)]]))

            specs = []
            for bt in rng.sample(list(BonusType), rng.randint(0, 3)):
                specs.append(rng.choice([BonusSpec(bonus_type=bt, grade=rng.randint(1, 7)),
                                         BonusSpec(bonus_type=bt, rank=rng.randint(0, 7))]))
            if specs and rng.random() < 0.3:     # the same kind twice with another grade
                specs.append(BonusSpec(bonus_type=specs[0].bonus_type, grade=rng.choice([g for g in range(1, 8) if g != specs[0].get_grade()])))
            star = rng.choice([rng.randint(0, 30), -1, 0, 40])
            if i % 2:
                bp = PracticalGearBlueprint(meta=meta, spell_trace=mk_trace() if rng.random() < 0.6 else None,
                                            scroll=mk_scroll() if rng.random() < 0.6 else None, star=star, bonuses=specs)
            else:
                bp = GeneralizedGearBlueprint(
                    meta=meta, spell_traces=[mk_trace() for _ in range(rng.randint(0, 3))],
                    scrolls=[mk_scroll() for _ in range(rng.randint(0, 2))], starforce=Starforce(star=star), bonuses=specs,
                    exceptional_enhancement=ExceptionalEnhancement(stat=self.rand_int_stat()) if rng.random() < 0.3 else None)
            built = quiet_call(bp.build)
            self.cov["adversarial_blueprints"] += 1
            key = built if isinstance(built, str) else "built"
            self.cov["adversarial_blueprint_outcomes"][key] = self.cov["adversarial_blueprint_outcomes"].get(key, 0) + 1
            self.blueprint(bp, built, tag="adversarial")

    # ------------------------------------------------------------------------------------------ comparison
    def agree(self, what: str, model, py, req=None):
        """(agree, detail)"""
        if what == "parts: generated tables":
            bad = [k for k in py if model.get(k) != py[k]]
            # the model's Kind names (C18 driver) must be the BonusType values, in order
            if model.get("bonus_kind_names") != py["bonus_type_values"]:
                bad.append("bonus_kind_names")
            return (not bad), ({"differing": bad, "model": {k: model.get(k) for k in bad[:3]},
                                "implementation": {k: py.get(k) for k in bad[:3]}} if bad else None)
        if what == "parts: SpellTrace.calculate_improvement (grid)":
            for i, (mrow, prow) in enumerate(zip(model, py)):
                for j, (a, b) in enumerate(zip(mrow, prow)):
                    if not same_result(a, b):
                        g = self.grids.get((req or {}).get("grid"), ([], []))
                        return False, {"meta": g[0][i] if i < len(g[0]) else i, "trace": g[1][j] if j < len(g[1]) else j,
                                       "model": a, "implementation": b}
            return len(model) == len(py), {"rows_model": len(model), "rows_implementation": len(py)}
        if what.startswith("parts: PracticalGearBlueprint.build"):
            ok = same_result(model["stat"], py["stat"], exact_all=False)
            if py["shape"] is not None:
                ok = ok and all(model[k] == py["shape"][k] for k in ("star", "n_traces", "n_scrolls"))
            return ok, None
        if what.startswith("parts: GeneralizedGearBlueprint.build"):
            return same_result(model, py, exact_all=False), None
        if what.startswith("parts: BonusFactory"):
            for i, (a, b) in enumerate(zip(model, py)):
                if not same_result(a, b):
                    return False, {"case": (req or {}).get("cases", [])[i] if req else i, "model": a, "implementation": b}
            return len(model) == len(py), {"cases_model": len(model), "cases_implementation": len(py)}
        if what == "parts: BonusSpec validation / get_grade":
            return model["valid"] == py["valid"] and (not py["valid"] or model["grade"] == py["grade"]), None
        return same_result(model, py), None

    def timed(self, name, f, *a):
        t0 = time.time()
        f(*a)
        self.cov.setdefault("seconds", {})[name] = round(time.time() - t0, 2)

    def coverage(self) -> dict:
        c = dict(self.cov)
        c["distinct_nontrivial"] = len(self.distinct)
        c["failing_cases_found"] = self.n_fail
        return c
