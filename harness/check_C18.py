"""C18 -- bonus-option inference is sound and complete.

proof:   lean/Simaple/Props/C18.lean over the hand model lean/Simaple/Model/Bonus.lean
tie:     the model's executable definitions (improvement of every kind x grade, SDIL table, candidate table,
         decompose_into_grades, _search_bonus, BonusCalculator.compute) evaluated by the Lean driver and by the
         real Python on the same gears / observed stats; results must be IDENTICAL (same accept/reject and the
         same option list: the model follows the search order of the code, so it finds the same decomposition)
direct:  on the real code, gears across level bands x boss / non-boss x weapon classes; every 1- and 2-kind
         option set over all valid grades, 3-4 kinds sampled: observed stat built with BonusFactory, then
         compute must not reject it and its answer must be sound; answers on perturbed (mostly invalid)
         observed stats must be sound whenever something is returned.
"""
from __future__ import annotations

import contextlib
import io
import itertools
import random
import time

from vlib import Check, run_check

from simaple.core import Stat
from simaple.gear.bonus_factory import BonusFactory, BonusType
from simaple.gear.compute.bonus import (
    BonusCalculator,
    CachedBonusTypeTable,
    SDIL,
    SDILTableBuilder,
    StatBonusCalculator,
    _stat_types,
)
from simaple.gear.gear_repository import GearRepository
from simaple.gear.gear_type import GearType
from simaple.gear.improvements.bonus import (
    AllstatBonus,
    AttackTypeBonus,
    BossDamageMultiplierBonus,
    DamageMultiplierBonus,
    DualStatBonus,
    ResourcePointBonus,
    SingleStatBonus,
    bonus_key_func,
)

KINDS = list(BonusType)
OBS_FIELDS = ["STR", "DEX", "INT", "LUK", "STR_multiplier", "DEX_multiplier", "INT_multiplier", "LUK_multiplier",
              "MHP", "MMP", "attack_power", "magic_attack", "boss_damage_multiplier", "damage_multiplier"]
SINGLE_FIELDS = ["MHP", "MMP", "attack_power", "magic_attack", "boss_damage_multiplier", "damage_multiplier"]


def kind_of(bonus) -> str:
    """the BonusType value of a Bonus object"""
    if isinstance(bonus, SingleStatBonus):
        return bonus.stat_type.value
    if isinstance(bonus, DualStatBonus):
        return bonus.stat_type_pair[0].value + "_" + bonus.stat_type_pair[1].value
    if isinstance(bonus, AllstatBonus):
        return "all_stat_multiplier"
    if isinstance(bonus, BossDamageMultiplierBonus):
        return "boss_damage_multiplier"
    if isinstance(bonus, DamageMultiplierBonus):
        return "damage_multiplier"
    if isinstance(bonus, ResourcePointBonus):
        return bonus.stat_type
    if isinstance(bonus, AttackTypeBonus):
        return bonus.attack_type.value
    raise TypeError(type(bonus))


def wclass(meta) -> str:
    if not meta.type.is_weapon():
        return "notWeapon"
    if meta.type == GearType.sword_zb:
        return "swordZB"
    if meta.type == GearType.sword_zl:
        return "swordZL"
    return "weapon"


def meta_json(meta) -> dict:
    return {"req_level": str(meta.req_level), "boss": bool(meta.boss_reward), "wclass": wclass(meta),
            "base_att": str(int(meta.base_stat.attack_power)), "base_matt": str(int(meta.base_stat.magic_attack))}


def integral(stat: Stat) -> bool:
    return all(float(v) == int(v) for v in stat.model_dump().values())


def obs_vec(stat: Stat) -> list[str]:
    return [str(int(getattr(stat, f))) for f in OBS_FIELDS]


def only_obs_fields(stat: Stat) -> bool:
    return all(v == 0 for k, v in stat.model_dump().items() if k not in OBS_FIELDS)


def quiet(f, *a):
    """AttackTypeBonus prints a message for unknown Zero weapons"""
    with contextlib.redirect_stdout(io.StringIO()):
        return f(*a)


def valid_grades(meta) -> list[int]:
    return [3, 4, 5, 6, 7] if meta.boss_reward else [1, 2, 3, 4, 5, 6, 7]


class Real:
    def __init__(self):
        self.bf = BonusFactory()
        self.calc = BonusCalculator()

    def improvement(self, meta, kind: BonusType, grade: int) -> Stat:
        return quiet(self.bf.create(kind, grade).calculate_improvement, meta)

    def observed(self, meta, opts) -> Stat:
        st = Stat()
        for k, g in opts:
            st = st + self.improvement(meta, k, g)
        return st

    def compute(self, stat, gear):
        """('value', [(kind, grade)...]) or ('raises', message)"""
        t = time.perf_counter()
        try:
            res = quiet(self.calc.compute, stat, gear)
        except ValueError as e:
            self.last_seconds = time.perf_counter() - t
            return ("raises", str(e)), None
        self.last_seconds = time.perf_counter() - t
        return ("value", [[kind_of(b), str(b.grade)] for b in res]), res


def soundness_defects(real: Real, gear, stat: Stat, res) -> list[str]:
    meta = gear.meta
    out = []
    if len(res) > 4:
        out.append(f"{len(res)} options returned")
    kinds = [kind_of(b) for b in res]
    if len(set(kinds)) != len(kinds):
        out.append(f"kinds not distinct: {kinds}")
    for b in res:
        if not (1 <= b.grade <= 7) or (meta.boss_reward and b.grade < 3):
            out.append(f"grade {b.grade} of {kind_of(b)} is not valid for the gear")
    try:
        total = Stat()
        for b in res:
            total = total + quiet(b.calculate_improvement, meta)
        if total != stat:
            diff = {k: (v, getattr(stat, k)) for k, v in total.model_dump().items() if v != getattr(stat, k)}
            out.append(f"improvements do not add up to the observed stat (sum, observed): {diff}")
    except ValueError as e:
        out.append(f"improvement raises: {e}")
    if [bonus_key_func(b) for b in res] != sorted(bonus_key_func(b) for b in res):
        out.append("result not sorted by bonus_key_func")
    return out


def band_of(meta) -> tuple:
    lv = meta.req_level
    band = 0 if lv < 40 else 1 if lv < 80 else 2 if lv < 120 else 3 if lv < 140 else 4 if lv < 160 else 5 if lv < 200 else 6
    return (band, bool(meta.boss_reward), wclass(meta))


def choose_gears(repo: GearRepository, rng, n: int):
    """deterministic (seeded) choice: one gear per (level band, boss, weapon class) cell, cells visited in a
    fixed round-robin that alternates boss/non-boss and weapon/armor and spreads the level bands"""
    cells: dict[tuple, list[int]] = {}
    for gid in sorted(int(i) for i in repo._bare_gears):
        meta = repo.get_gear_meta(gid)
        cells.setdefault(band_of(meta), []).append(gid)
    # the fixed priority of cells: high-level boss weapon, low-level plain armor, then the rest spread out
    prio = [(5, True, "weapon"), (2, False, "notWeapon"), (4, True, "notWeapon"), (6, False, "weapon"),
            (3, True, "weapon"), (0, False, "notWeapon"), (5, False, "swordZL"), (6, True, "notWeapon"),
            (1, False, "weapon"), (5, True, "notWeapon"), (4, False, "swordZB"), (6, True, "weapon"),
            (3, False, "notWeapon"), (0, True, "notWeapon"), (2, True, "weapon"), (4, False, "weapon")]
    order = [c for c in prio if c in cells] + sorted(c for c in cells if c not in prio)
    chosen = []
    for c in order[:n]:
        chosen.append(repo.get_by_id(rng.choice(cells[c])))
    return chosen, {str(k): len(v) for k, v in sorted(cells.items())}


def option_sets(meta, rng, n_sampled: int):
    """all 1- and 2-kind sets over the valid grades, then n_sampled sets of 3 and of 4 kinds"""
    gs = valid_grades(meta)
    for k in KINDS:
        for g in gs:
            yield [(k, g)]
    for k1, k2 in itertools.combinations(KINDS, 2):
        for g1 in gs:
            for g2 in gs:
                yield [(k1, g1), (k2, g2)]
    stat_kinds = [BonusType(t.value) for t in _stat_types]
    for size in (3, 4):
        for i in range(n_sampled):
            # half of the samples use only STR/DEX/INT/LUK kinds: the hard part of the search
            pool = stat_kinds if i % 2 == 0 else KINDS
            ks = rng.sample(pool, size)
            yield [(k, rng.choice(gs)) for k in ks]


def main(ck: Check):
    rng = ck.rng
    quick = ck.tier == "quick"
    repo = GearRepository()
    real = Real()
    n_gears = 2 if quick else 12
    n_sampled = 120 if quick else 250          # per size (3 kinds, 4 kinds) and gear
    n_corr_per_gear = 500 if quick else 1200
    pert_seconds = 3.0 if quick else 6.0       # time box of the perturbed stats per gear
    slow = 0.05                                # cases slower than this on the real code are not sent to Lean
    gears, cell_sizes = choose_gears(repo, rng, n_gears)

    # ------------------------------------------------------------------ the property on the real code
    t_direct = time.time()
    evaluations = 0
    distinct = set()
    per_size = {1: 0, 2: 0, 3: 0, 4: 0}
    per_gear = {}
    rejected = 0
    perturbed = perturbed_answered = skipped_slow = 0
    over_four = over_four_answered = 0
    slowest = 0.0
    truncated = False
    samples = []
    corr_cases = []            # (gear, stat, python answer) reused for the correspondence
    data_assumption_breaks = []
    for gear in gears:
        meta = gear.meta
        gname = f"{meta.name} (id {meta.id}, lv {meta.req_level}, boss={meta.boss_reward}, {wclass(meta)})"
        n_here = 0
        cases_here = []
        # independent seeded streams, so that the time box below cannot shift later random choices
        orng = random.Random(f"C18:{ck.seed}:{meta.id}:options")
        prng = random.Random(f"C18:{ck.seed}:{meta.id}:perturbed")
        srng = random.Random(f"C18:{ck.seed}:{meta.id}:sample")
        for opts in option_sets(meta, orng, n_sampled):
            if ck.time_left() < 0.4 * ck.budget_s:
                truncated = True            # keep time for the proofs and the model runs
                break
            try:
                stat = real.observed(meta, opts)
            except ValueError as e:
                if len(ck.failing) < 40:
                    ck.add_failing({"what": "calculate_improvement raises for a valid grade", "gear": gname,
                                    "gear_id": meta.id, "options": [[k.value, g] for k, g in opts], "raised": str(e)})
                continue
            if not integral(stat) or not only_obs_fields(stat):
                data_assumption_breaks.append({"gear": gname, "options": [(k.value, g) for k, g in opts]})
                continue
            ans, res = real.compute(stat, gear)
            evaluations += 1
            n_here += 1
            per_size[len(opts)] += 1
            distinct.add((meta.id, tuple(obs_vec(stat))))
            item = None
            if ans[0] == "raises":
                rejected += 1
                item = {"what": "valid option set rejected", "gear": gname, "gear_id": meta.id,
                        "options": [[k.value, g] for k, g in opts], "observed": stat.short_dict(),
                        "raised": ans[1]}
            else:
                bad = soundness_defects(real, gear, stat, res)
                if bad:
                    item = {"what": "answer is not sound", "gear": gname, "gear_id": meta.id,
                            "options": [[k.value, g] for k, g in opts], "observed": stat.short_dict(),
                            "returned": ans[1], "defects": bad}
            if item is not None and len(ck.failing) < 40:
                ck.add_failing(item)
            cases_here.append((gear, stat, ans, [[k.value, g] for k, g in opts], real.last_seconds))
            slowest = max(slowest, real.last_seconds)
            if len(samples) < 4 and len(opts) >= 2 and n_here % 977 == 5:
                samples.append({"gear": gname, "options": [[k.value, g] for k, g in opts],
                                "observed": stat.short_dict(), "returned": ans[1]})
        # perturbed observed stats: mostly not a sum of options; whatever is returned must be sound.
        # An unsolvable STR/DEX/INT/LUK remainder makes the real search exponential (seconds per call when all
        # four stats are large), so the bases are 1-2-kind stats and the loop is time boxed.
        n_pert = 300 if quick else 1500
        bases = [c[1] for c in cases_here if len(c[3]) <= 2]
        t_pert = time.time()
        for i in range(n_pert):
            if time.time() - t_pert > pert_seconds or not bases:
                break
            base = prng.choice(bases)
            d = {f: getattr(base, f) for f in OBS_FIELDS}
            mode = i % 4
            if mode == 0:
                f = prng.choice(["STR", "DEX", "INT", "LUK"]); d[f] = max(0, d[f] + prng.choice([-2, -1, 1, 2, 3]))
            elif mode == 1:
                for f in ("STR", "DEX", "INT", "LUK"):
                    d[f] = 0
                for f in prng.sample(["STR", "DEX", "INT", "LUK"], prng.randint(1, 2)):
                    d[f] = prng.randint(1, 60)
            elif mode == 2:
                f = prng.choice(SINGLE_FIELDS); d[f] = max(0, d[f] + prng.choice([-1, 1, 2, 30]))
            else:
                v = prng.randint(0, 8)
                for f in ("STR_multiplier", "DEX_multiplier", "INT_multiplier", "LUK_multiplier"):
                    d[f] = v
                d["STR"] += prng.randint(0, 3)
            stat = Stat(**d)
            ans, res = real.compute(stat, gear)
            evaluations += 1
            perturbed += 1
            slowest = max(slowest, real.last_seconds)
            if ans[0] == "value":
                perturbed_answered += 1
                bad = soundness_defects(real, gear, stat, res)
                if bad and len(ck.failing) < 40:
                    ck.add_failing({"what": "answer on an arbitrary observed stat is not sound", "gear": gname,
                                    "gear_id": meta.id, "observed": stat.short_dict(), "returned": ans[1],
                                    "defects": bad})
            cases_here.append((gear, stat, ans, None, real.last_seconds))
        # more than four options: sums of 5-7 valid distinct-kind options (half of them without any STR/DEX/INT/LUK
        # component).  The inference may reject them, but whatever it returns must still be sound: at most four
        # options, distinct kinds, valid grades, adding up exactly.
        stat_kinds_set = {BonusType(t.value) for t in _stat_types}
        non_stat = [k for k in KINDS if k not in stat_kinds_set]
        gs5 = valid_grades(meta)
        n_over = 40 if quick else 200
        t_over = time.time()
        for i in range(n_over):
            if time.time() - t_over > pert_seconds:
                break
            size = prng.randint(5, 7)
            pool = non_stat if (i % 2 == 0 and len(non_stat) >= size) else KINDS
            size = min(size, len(pool))
            opts = [(k, prng.choice(gs5)) for k in prng.sample(pool, size)]
            try:
                stat = real.observed(meta, opts)
            except ValueError:
                continue
            ans, res = real.compute(stat, gear)
            evaluations += 1
            over_four += 1
            if ans[0] == "value":
                over_four_answered += 1
                bad = soundness_defects(real, gear, stat, res)
                if bad and len(ck.failing) < 40:
                    ck.add_failing({"what": "answer on the sum of more than four options is not sound", "gear": gname,
                                    "gear_id": meta.id, "options": [[k.value, g] for k, g in opts],
                                    "observed": stat.short_dict(), "returned": ans[1], "defects": bad})
        per_gear[gname] = n_here
        # correspondence sample: all 1-kind sets, then a seeded sample of the rest (3-4-kind sets and perturbed
        # stats first: they exercise the search most)
        ones = [c for c in cases_here if c[3] is not None and len(c[3]) == 1]
        hard = [c for c in cases_here if (c[3] is None or len(c[3]) >= 3) and c[4] < slow]
        twos = [c for c in cases_here if c[3] is not None and len(c[3]) == 2 and c[4] < slow]
        skipped_slow += sum(1 for c in cases_here if c[4] >= slow)
        srng.shuffle(hard)
        srng.shuffle(twos)
        hard = hard[: n_corr_per_gear // 2]
        corr_cases += [c[:4] for c in ones + hard + twos[: n_corr_per_gear - len(hard)]]
    # ---- one calculator answering a SEQUENCE of items: an answer may neither depend on the requests made before
    #      (compared with a fresh calculator) nor be changed by the requests made after it (re-read at the end)
    by_level: dict[int, dict[bool, list[int]]] = {}
    for gid in sorted(int(i) for i in repo._bare_gears):
        m = repo.get_gear_meta(gid)
        by_level.setdefault(m.req_level, {}).setdefault(bool(m.boss_reward), []).append(gid)
    both = sorted(lv for lv, d in by_level.items() if True in d and False in d and lv >= 100)
    hrng = random.Random(f"C18:{ck.seed}:history")
    hrng.shuffle(both)
    sequences = history_answers = 0
    t_hist = time.time()
    for lv in both[: (2 if quick else 8)]:
        gb = repo.get_by_id(hrng.choice(by_level[lv][True]))
        gn = repo.get_by_id(hrng.choice(by_level[lv][False]))
        for order in ((gb, gn, gb), (gn, gb, gn)):
            shared = Real()
            kept = []
            sequences += 1
            for gear in order:
                gs = valid_grades(gear.meta)
                low = [g for g in gs if g <= 2] or gs
                stat_kinds = [BonusType(t.value) for t in _stat_types]
                optsets = [[(hrng.choice(stat_kinds), hrng.choice(low))],
                           [(k, hrng.choice(low if i % 2 == 0 else gs)) for i, k in enumerate(hrng.sample(stat_kinds, 2))],
                           [(k, hrng.choice(gs)) for k in hrng.sample(KINDS, 3)]]
                for opts in optsets:
                    if time.time() - t_hist > (12 if quick else 90):
                        break
                    try:
                        stat = real.observed(gear.meta, opts)
                    except ValueError:
                        continue
                    if not integral(stat) or not only_obs_fields(stat):
                        continue
                    ans, res = shared.compute(stat, gear)
                    want, _ = Real().compute(stat, gear)
                    evaluations += 1
                    history_answers += 1
                    gname = f"{gear.meta.name} (id {gear.meta.id}, lv {gear.meta.req_level}, boss={gear.meta.boss_reward})"
                    if ans != want and len(ck.failing) < 40:
                        ck.add_failing({"what": "the answer depends on the items the same calculator was asked about before",
                                        "gear": gname, "gear_id": gear.meta.id, "options": [[k.value, g] for k, g in opts],
                                        "observed": stat.short_dict(), "reused_calculator": ans, "fresh_calculator": want,
                                        "asked_before": [k[0] for k in kept]})
                    kept.append((gname, gear, stat, ans, res, [[k.value, g] for k, g in opts]))
            for gname, gear, stat, ans, res, opts in kept:
                if res is None:
                    continue
                now = [[kind_of(b), str(b.grade)] for b in res]
                bad = soundness_defects(real, gear, stat, res)
                if (now != ans[1] or bad) and len(ck.failing) < 40:
                    ck.add_failing({"what": "an answer returned earlier was changed by later requests to the same calculator",
                                    "gear": gname, "gear_id": gear.meta.id, "options": opts, "observed": stat.short_dict(),
                                    "returned_then": ans[1], "same_list_now": now, "defects_now": bad})
    t_direct = time.time() - t_direct

    # ------------------------------------------------------------------ proofs (Lean lock held from here)
    lean = ck.locked()
    lean.__enter__()
    proved = ck.prove("Simaple.Props.C18")
    if ck.tier == "thorough" and proved:
        ck.leanchecker(["Simaple.Props.C18"])

    # ------------------------------------------------------------------ correspondence: model vs code
    reqs, expect = [], []

    def add(req, py, what):
        reqs.append(req)
        expect.append((py, what))

    add({"fn": "bonus_cand_table"}, [[t.value for t in row] for row in CachedBonusTypeTable().lookup],
        "CachedBonusTypeTable.lookup")
    # improvements of every kind x grade (incl. the grades that raise on boss rewards) on many gears
    ids = sorted(int(i) for i in repo._bare_gears)
    zero_ids = [i for i in ids if repo.get_gear_type(i) in (GearType.sword_zb, GearType.sword_zl)]
    imp_ids = [g.meta.id for g in gears] + rng.sample(zero_ids, min(len(zero_ids), 4 if quick else 40)) \
        + rng.sample(ids, 20 if quick else 400)
    for gid in imp_ids:
        meta = repo.get_gear_meta(gid)
        mj = meta_json(meta)
        for k in KINDS:
            for g in range(1, 8):
                try:
                    st = real.improvement(meta, k, g)
                    if not integral(st) or not only_obs_fields(st):
                        data_assumption_breaks.append({"gear_id": gid, "kind": k.value, "grade": g})
                    py = {"value": obs_vec(st)}
                except ValueError as e:
                    py = {"raises": str(e)}
                add({"fn": "bonus_improve", "meta": mj, "kind": k.value, "grade": str(g)}, py, "calculate_improvement")
    builder = SDILTableBuilder()
    for gear in gears:
        try:
            table = builder.build(gear)
            py = [[[str(x) for x in table[t][g].value] for g in range(8)] for t in _stat_types]
        except ValueError as e:
            py = {"raises": str(e)}
        add({"fn": "bonus_table", "meta": meta_json(gear.meta)}, py, "SDILTableBuilder.build")
    for i in range(40 if quick else 400):
        gs = rng.choice([[5, 4, 6, 3, 7], [5, 4, 6, 3, 2, 1, 7]])
        left = rng.randint(0, 4); sb = rng.randint(1, 14); db = rng.randint(1, 7)
        mx = rng.choice([rng.randint(0, 120), sb * rng.choice(gs) + db * rng.randint(0, 15)])
        py = [[str(a), None if b is None else [str(x) for x in b]]
              for a, b in SDIL((mx, 0, 0, 0)).decompose_into_grades(gs, left, sb, db)]
        add({"fn": "bonus_decompose", "grades": [str(x) for x in gs], "left": str(left), "sb": str(sb),
             "db": str(db), "max": str(mx)}, py, "SDIL.decompose_into_grades")
    # the STR/DEX/INT/LUK search alone, with fewer free slots than BonusCalculator leaves
    sbc = StatBonusCalculator()
    for i in range(60 if quick else 600):
        gear, stat, _, _ = rng.choice(corr_cases)
        left = rng.randint(0, 4)
        try:
            res = sbc.compute(stat, gear, left)
            py = {"some": [[kind_of(b), str(b.grade)] for b in res]}
        except ValueError:
            py = {"none": None}
        add({"fn": "bonus_search", "meta": meta_json(gear.meta), "left": str(left),
             "target": [str(int(stat.STR)), str(int(stat.DEX)), str(int(stat.INT)), str(int(stat.LUK))]},
            py, "StatBonusCalculator.compute")
    for gear, stat, ans, _ in corr_cases:
        if ans[0] == "raises":
            # the message for a single-valued field names the kind; the model keeps only the fixed part
            msg = "gear stat has invalid bonus" if ans[1].startswith("gear stat has invalid bonus at") else ans[1]
            py = {"raises": msg}
        else:
            py = {"value": ans[1]}
        add({"fn": "bonus_compute", "meta": meta_json(gear.meta), "obs": obs_vec(stat)}, py, "BonusCalculator.compute")
    t_corr = time.time()
    res = ck.driver(reqs)
    t_corr = time.time() - t_corr
    lean.__exit__(None, None, None)
    disagreements = 0
    per_point = {}
    if res is not None:
        for r, (py, what), req in zip(res, expect, reqs):
            per_point[what] = per_point.get(what, 0) + 1
            agree = "ok" in r and r["ok"] == py
            if not agree:
                disagreements += 1
                if disagreements <= 5:
                    ck.broken.append({"kind": "correspondence", "point": what, "request": req,
                                      "model": r, "implementation": py})
    if data_assumption_breaks:
        ck.broken.append({"kind": "modelling-assumption", "what": "improvement is not integral or touches a Stat "
                          "field outside the modelled ones", "cases": data_assumption_breaks[:5]})

    ck.coverage.update({
        "evaluations": evaluations + len(reqs),
        "history_sequences": sequences,
        "history_answers_compared_with_a_fresh_calculator": history_answers,
        "distinct_nontrivial": len(distinct),
        "rule": "gears: one seeded gear per (level band, boss reward, weapon class) cell of the gear repository in "
                "a fixed cell order (quick 2, thorough 12); per gear every 1-kind and 2-kind option set over all "
                "valid grades (17 kinds; grades 1-7, 3-7 on boss rewards), plus seeded samples of 3- and 4-kind sets "
                "(half of them restricted to the ten STR/DEX/INT/LUK kinds); observed stat = sum of the real "
                "calculate_improvement; BonusCalculator().compute must return (completeness) a list of <= 4 "
                "distinct-kind options with valid grades whose real improvements add up to the observed Stat on all "
                "fields (soundness); plus perturbed well-formed observed stats (non-negative, four all-stat "
                "multipliers equal) where only soundness of a returned answer is required. distinct_nontrivial = "
                "distinct (gear, observed stat) pairs built from option sets. Correspondence: exact equality of "
                "the model's and the code's answer (same accept/reject, same option list after the code's sort).",
        "samples": samples,
        "gears": list(per_gear),
        "option_sets_per_gear": per_gear,
        "option_sets_by_size": per_size,
        "valid_sets_rejected": rejected,
        "exploration_truncated_by_time_budget": truncated,
        "sums_of_more_than_four_options": over_four,
        "sums_of_more_than_four_options_answered": over_four_answered,
        "perturbed_stats": perturbed,
        "perturbed_stats_answered": perturbed_answered,
        "slowest_real_compute_s": round(slowest, 3),
        "cases_too_slow_for_the_lean_sample": skipped_slow,
        "gear_cells_in_repository": cell_sizes,
        "model_vs_code_requests": len(reqs),
        "model_vs_code_disagreements": disagreements,
        "per_point": per_point,
        "seconds_direct": round(t_direct, 1),
        "seconds_driver": round(t_corr, 1),
    })
    ck.assumptions += [
        "the observed stat is well formed: integral, the seven single-valued fields are >= 0, the four all-stat "
        "multipliers are equal and no other Stat field is set (compute does not look at anything else: "
        "Stat(STR_multiplier=3) alone is answered with AllstatBonus(3); Stat(critical_rate=5) with [])",
        "req_level >= 0 and integral base attack values (true for all 9253 gears of the repository)",
        "float ceil(basis * multiplier * level_multiplier / 100) equals the exact rational ceiling (cross-checked "
        "by the calculate_improvement correspondence on every run)",
    ]
    ck.finish("proof",
              trusted_base=["Lean 4.33 kernel", "axioms: propext, Classical.choice, Quot.sound (checked by #print axioms)",
                            "hand model lean/Simaple/Model/Bonus.lean (validated against the code in this run)"],
              checker_cmd="cd lean && lake build Simaple.Props.C18 && lake env lean Simaple/Audit/C18.lean")


if __name__ == "__main__":
    run_check("C18", main)
