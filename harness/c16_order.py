"""C16: the skill set built for a configuration is a function of the configuration -- not of the configurations that
were built before it in the process.

Run as a program: reads {"job": ..., "cfgs": [...]} from stdin, builds every configuration IN THE GIVEN ORDER in this
new interpreter -- once from the provider's own environment and once from the environment an in-memory memoizer shared
by the whole list hands out -- and prints, per configuration, the names of the built skills and every damage figure.
check_C16 runs the same list in two new interpreters, in opposite orders, and compares answer by answer."""
import json
import sys


def evaluate(job: str, cfgs: list) -> list:
    import check_C16 as c16
    from simaple.container.environment_provider import MinimalEnvironmentProvider
    from simaple.container.memoizer import InMemoryMemoizer
    from simaple.container.simulation import get_skill_components
    from simaple.core import ActionStat, JobType, Stat
    memo = InMemoryMemoizer()
    out = []
    for cfg in cfgs:
        row = {}
        kw = {k: v for k, v in cfg.items() if k != "passive_skill_level"}
        for path in ("provider", "memoizer"):
            try:
                prov = MinimalEnvironmentProvider(level=270, action_stat=ActionStat(), stat=Stat(**c16.REF_STAT),
                                                  jobtype=JobType(job), **kw)
                env = prov.get_simulation_environment() if path == "provider" else memo.compute_environment(prov)
                env = env.model_copy(update={"passive_skill_level": cfg.get("passive_skill_level", 0)})
                comps = get_skill_components(env)
                row[path] = {"names": [c.name for c in comps],
                             "damage": {c.name: c16.damage_numbers(c.model_dump()) for c in comps}}
            except Exception as e:  # noqa: BLE001 -- the exception type is the observation
                row[path] = {"raised": type(e).__name__}
        out.append(row)
    return out


if __name__ == "__main__":
    req = json.load(sys.stdin)
    print(json.dumps(evaluate(req["job"], req["cfgs"]), ensure_ascii=False))
