"""helpers around the real simulation engine: jobs, environments, plan generation, canonical forms"""
from __future__ import annotations

import json
import random
from fractions import Fraction
from typing import Any, Iterable, Optional

from simaple.container.environment_provider import MinimalEnvironmentProvider
from simaple.container.simulation import get_operation_engine
from simaple.core import ActionStat, JobType, Stat
from simaple.simulate.policy.base import ConsoleText, Operation, OperationLog

JOBS = ["archmagefb", "archmagetc", "bishop", "mechanic", "adele", "windbreaker", "soulmaster", "dualblade"]

REF_STAT = dict(STR=3000, DEX=3000, INT=3000, LUK=3000, STR_multiplier=100, DEX_multiplier=100,
                INT_multiplier=100, LUK_multiplier=100, attack_power=3000, magic_attack=3000,
                attack_power_multiplier=80, magic_attack_multiplier=80, critical_rate=100,
                critical_damage=60, boss_damage_multiplier=300, damage_multiplier=80,
                final_damage_multiplier=40, ignored_defence=94)

ENV_VARIANTS = [
    dict(action_stat=dict()),
    dict(action_stat=dict(cooltime_reduce=2000.0, buff_duration=50.0, cooltime_reduce_rate=5.0), hexa_skill_level=10,
         hexa_mastery_level=10, hexa_improvements_level=5),
    dict(action_stat=dict(cooltime_reduce=6000.0, summon_duration=20.0, buff_duration=195.0), v_skill_level=25,
         combat_orders_level=2, hexa_skill_level=30, hexa_mastery_level=30),
]

CONSOLE_TEXTS = ["viewer('clock')", "[v.name for v in viewer('validity') if available(v)][:5]",
                 "len(viewer('running'))"]


def make_env(job: str, variant: int = 0, **over):
    v = dict(ENV_VARIANTS[variant % len(ENV_VARIANTS)])
    action_stat = ActionStat(**v.pop("action_stat"))
    v.update(over)
    return MinimalEnvironmentProvider(level=270, action_stat=action_stat, stat=Stat(**REF_STAT),
                                      jobtype=JobType(job), **v).get_simulation_environment()


_SKILL_CACHE: dict = {}


def make_engine(job: str, variant: int = 0, **over):
    """a fresh engine for (job, environment variant).  Building the environment and the component list
    dominates the cost (0.5 s), so both are computed once per process and every engine gets its own deep
    copy of the component list (no object is shared between engines)."""
    import copy
    from simaple.container.simulation import get_skill_components
    from simaple.simulate.kms import get_builder
    key = (job, variant, canon(over))
    if key not in _SKILL_CACHE:
        env = make_env(job, variant, **over)
        _SKILL_CACHE[key] = (get_skill_components(env), env.character.action_stat)
    skills, action_stat = _SKILL_CACHE[key]
    return get_builder(copy.deepcopy(skills), action_stat.model_copy()).build_operation_engine()


def make_engine_uncached(job: str, variant: int = 0, **over):
    return get_operation_engine(make_env(job, variant, **over))


# ------------------------------------------------------------------ commands
def op(command: str, name: str = "", time: Optional[float] = None) -> Operation:
    if command == "ELAPSE":
        expr = f"ELAPSE {time}"
    elif time is None:
        expr = f'{command} "{name}"'
    else:
        expr = f'{command} "{name}" {time}'
    return Operation(command=command, name=name, time=time, expr=expr)


def console(text: str) -> ConsoleText:
    return ConsoleText(text=text)


def command_text(c) -> str:
    if isinstance(c, ConsoleText):
        return f"!debug {json.dumps(c.text, ensure_ascii=False)}"
    return c.expr


LONG_TIMES = [15000.0, 30000.0, 45000.0, 60000.0, 90000.0, 180000.0, 30000.5]
GRID_TIMES = [0.0, 1.0, 30.0, 100.0, 250.0, 500.0, 780.0, 1000.0, 1500.0, 2500.0, 4000.0, 0.5, 333.25, 7000.0]


OFFGRID_TIMES = [0.1, 1 / 3, 4e-7, 1.25e-5, 1e-9, 0.3, 0.7, 0.0000004, 2.0000005, 999.9999996]


def random_plan(rng: random.Random, job: str, variant: int, n: int, with_console: bool = True,
                max_elapse: float = 8000.0, offgrid: bool = False) -> list:
    """a plan of n commands, generated while running a scratch engine so that most CAST/USE target skills
    the validity view lists as usable; includes re-use during cooldown, RESOLVE after delays, key-down
    stops, zero and fractional elapses and debug lines"""
    eng = make_engine(job, variant)
    names = [v.name for v in eng.get_current_viewer()("validity")]
    cmds = []
    last_skill = None
    pending: list = []       # rest of a command pattern being emitted
    while len(cmds) < n:
        if pending:
            c = pending.pop(0)
            cmds.append(c)
            eng.exec(c)
            continue
        valid = [v.name for v in safe_view(eng, "validity", []) if v.valid]
        keydowns = [k.name for k in safe_view(eng, "keydown", []) if k.running]
        r = rng.random()
        if rng.random() < 0.08 and valid:
            # patterns whose meaning depends on what survives between commands: a delayed use, then debug lines
            # (logs without playlogs), then the command that reads the pending events
            s1 = rng.choice(valid)
            pat = rng.choice([
                [op("USE", s1), console(rng.choice(CONSOLE_TEXTS)), op("RESOLVE", s1)],
                [op("USE", s1), console(rng.choice(CONSOLE_TEXTS)), console(rng.choice(CONSOLE_TEXTS)), op("RESOLVE", s1)],
                [op("CAST", s1), console(rng.choice(CONSOLE_TEXTS)), op("ELAPSE", time=0.0), op("RESOLVE", s1)],
                [op("USE", s1), op("RESOLVE", rng.choice(names)), op("RESOLVE", s1)],
                [console(rng.choice(CONSOLE_TEXTS)), op("USE", s1), op("KEYDOWNSTOP", s1), op("RESOLVE", s1)],
                # a skill used again at once (its follow-up reaction stays pending and may be refused on cooldown), then
                # ANOTHER skill cast: the cast's play carries events of other components
                [op("CAST", s1), op("USE", s1), op("CAST", rng.choice(valid))],
                [op("USE", s1), op("USE", s1), op("CAST", rng.choice(valid)), op("RESOLVE", s1)],
            ])
            if rng.random() < 0.4:
                # `xN <op>` in a plan text: the parser returns THE SAME Operation object N times (a key-down skill
                # resolved repeatedly, as the shipped example plans do)
                kd = [k.name for k in safe_view(eng, "keydown", []) if k.name in valid]
                if kd and rng.random() < 0.7:
                    s1 = rng.choice(kd)          # a key-down skill: its successive RESOLVEs wait for different delays
                shared = op(rng.choice(["RESOLVE", "RESOLVE", "RESOLVE", "USE", "CAST"]), s1)
                pat = [op("USE", s1)] + [shared] * rng.randint(2, 4)
            last_skill = s1
            pending = pat[1:]
            c = pat[0]
            cmds.append(c)
            eng.exec(c)
            continue
        if keydowns and r < 0.25:
            c = op("KEYDOWNSTOP", rng.choice(keydowns))
        elif r < 0.30 and valid:
            last_skill = rng.choice(valid)
            c = op("CAST", last_skill)
        elif r < 0.50 and valid:
            last_skill = rng.choice(valid)
            c = op("USE", last_skill)
        elif r < 0.58:
            last_skill = rng.choice(names)          # possibly not ready: rejection path
            c = op(rng.choice(["USE", "CAST"]), last_skill)
        elif r < 0.72 and last_skill is not None:
            c = op("RESOLVE", last_skill if rng.random() < 0.8 else rng.choice(names))
        elif r < 0.77:
            c = op("KEYDOWNSTOP", rng.choice(names))
        elif r < 0.83 and with_console:
            c = console(rng.choice(CONSOLE_TEXTS))
        else:
            u = rng.random()
            if offgrid and rng.random() < 0.3:
                # times that are no multiple of any convenient grid (only for the checks that do not go through the
                # component models, whose time is on the 2^-10 ms grid): thirds, tenths, sub-microsecond steps; also
                # `x10 ELAPSE 0.1`, whose sum 0.9999999999999999 no short decimal represents
                t = rng.choice(OFFGRID_TIMES)
                if rng.random() < 0.3:
                    shared_e = op("ELAPSE", time=t)
                    pending = [shared_e] * rng.randint(2, 9)
            elif u < 0.12:
                t = rng.choice(LONG_TIMES)      # long enough for periodic skills, buffs and cooldowns to expire
            elif u < 0.75:
                t = min(rng.choice(GRID_TIMES), max_elapse)
            else:
                t = min(float(rng.randint(0, int(max_elapse))), max_elapse)
            c = op("ELAPSE", time=t)
        if not isinstance(c, ConsoleText) and c.command in ("USE", "CAST", "RESOLVE", "KEYDOWNSTOP") and rng.random() < 0.06:
            # the legal full form `<COMMAND> "<skill>" <time>`: the time of such an operation is not used by any handler
            c = op(c.command, c.name, time=rng.choice([200.0, 0.0, 1500.5]))
        cmds.append(c)
        eng.exec(c)
    return cmds[:n]


def perturbed_roundtrip(store_ckpt: dict) -> list:
    """every numeric / boolean leaf of every recorded entity, moved away from its recorded value one entity at a time,
    must survive `Checkpoint(...).restore().save()`: a field that restore drops (an alias, an excluded or renamed
    field) resets to its default on every resume, whatever state the plans happen to reach.  Values an entity's own
    validation refuses are skipped.  -> list of {entity, cls, field path, recorded (perturbed), after restore}"""
    import copy
    from simaple.simulate.base import Checkpoint
    bad = []

    def leaves(x, path=()):
        if isinstance(x, dict):
            for k, v in x.items():
                yield from leaves(v, path + (k,))
        elif isinstance(x, list):
            for i, v in enumerate(x):
                yield from leaves(v, path + (i,))
        elif isinstance(x, bool) or isinstance(x, (int, float)):
            yield path, x

    def put(x, path, v):
        for p in path[:-1]:
            x = x[p]
        x[path[-1]] = v

    for name, ent in store_ckpt.items():
        for path, val in list(leaves(ent.get("payload", {}))):
            for nv in ([not val] if isinstance(val, bool) else [val + 1, val + 2] if isinstance(val, int)
                       else [val + 1.25, val + 3.5]):
                d2 = {name: copy.deepcopy(ent)}
                put(d2[name]["payload"], path, nv)
                try:
                    again = Checkpoint(store_ckpt=d2).restore().save()
                except Exception:  # noqa: BLE001 -- the entity's own validation refuses this value
                    continue
                if again != d2:
                    bad.append({"entity": name, "cls": ent.get("cls"), "field": ".".join(map(str, path)),
                                "recorded": nv, "after_restore": again.get(name, {}).get("payload")})
                break
    return bad


def refused_commands() -> list:
    """commands the engine REFUSES with an exception (on the unchanged tree without any effect: no log, no clock
    change, the pending events stay): a caller that catches the error -- a plan editor -- goes on with the session"""
    return [Operation(command="ELAPSE", name="soon", time=None, expr='ELAPSE "soon"'),
            Operation(command="FOO", name="x", time=None, expr='FOO "x"'),
            console("1/0"), console("viewer('no such view')")]


def with_refused(rng: random.Random, cmds: list, k: int = 3) -> list:
    """the plan with up to k refused commands inserted: at the very start (the first dispatch of a kind in the engine's
    life), right after a USE / CAST (callbacks pending) and anywhere"""
    out = list(cmds)
    pool = refused_commands()
    after_use = [i + 1 for i, c in enumerate(out) if getattr(c, "command", "") in ("USE", "CAST")]
    for j in range(rng.randint(1, k)):
        r = rng.random()
        pos = 0 if (j == 0 and r < 0.4) else rng.choice(after_use) if (after_use and r < 0.8) else rng.randint(0, len(out))
        out.insert(pos, pool[0] if (pos == 0 or rng.random() < 0.5) else rng.choice(pool))
        after_use = [i + 1 for i, c in enumerate(out) if getattr(c, "command", "") in ("USE", "CAST")]
    return out


def is_refused(c) -> bool:
    return any(command_text(c) == command_text(r) for r in refused_commands())


def exec_safe(eng, c):
    """exec; None if the engine refuses the command with an exception"""
    try:
        return eng.exec(c)
    except Exception:  # noqa: BLE001 -- a refused command; what it left behind is what the checks look at
        return None


def safe_view(eng, name: str, default):
    """a view value for plan generation; a raising view must not crash the generator (the checks evaluate the views
    themselves and report a raising view as a failing input)"""
    try:
        return eng.get_current_viewer()(name)
    except Exception:
        return default


def rotation_plan(rng: random.Random, job: str, variant: int, rounds: int) -> list:
    """a busy rotation: every round casts a random subset of the skills the validity view lists as usable
    (and sometimes stops a key-down or re-uses a skill at once), then lets some time pass -- reaches states that
    short random plans rarely reach (gauges filled, stacks built, many periodics running at once)"""
    eng = make_engine(job, variant)
    cmds = []
    all_names = [v.name for v in safe_view(eng, "validity", [])]

    def do(c):
        cmds.append(c)
        eng.exec(c)
    for _ in range(rounds):
        valid = [v.name for v in safe_view(eng, "validity", []) if v.valid] or list(all_names)
        rng.shuffle(valid)
        for name in valid[: max(1, int(len(valid) * rng.choice([0.3, 0.6, 1.0])))]:
            do(op(rng.choice(["CAST", "CAST", "USE"]), name))
            if rng.random() < 0.12:
                do(op("USE", name))                      # immediately again
            if rng.random() < 0.15:
                do(op("ELAPSE", time=rng.choice([30.0, 100.0, 250.0, 0.5, 780.0])))
        for k in [k.name for k in safe_view(eng, "keydown", []) if k.running]:
            if rng.random() < 0.5:
                do(op("KEYDOWNSTOP", k))
        do(op("ELAPSE", time=rng.choice([500.0, 1000.0, 2000.0, 3000.0, 5000.0, 8000.0, 333.25, 15000.0])))
    return cmds


# ------------------------------------------------------------------ canonical forms
def canon(x: Any) -> str:
    return json.dumps(x, sort_keys=True, ensure_ascii=False, separators=(",", ":"))


def normnum(x: Any) -> Any:
    """identify 1 and 1.0 (equal in Python, different JSON text): used for interning checkpoints"""
    if isinstance(x, float) and x.is_integer() and abs(x) < 2 ** 62:
        return int(x)
    if isinstance(x, dict):
        return {k: normnum(v) for k, v in x.items()}
    if isinstance(x, (list, tuple)):
        return [normnum(v) for v in x]
    return x


def frac(x) -> str:
    fr = Fraction(x)
    return f"{fr.numerator}/{fr.denominator}"


def log_public(log: OperationLog) -> dict:
    """everything a log carries, as plain JSON-able data"""
    return json.loads(log.model_dump_json())


def logs_equal_report(a: list[OperationLog], b: list[OperationLog]) -> Optional[dict]:
    """first difference between two log lists (commands, actions, events, clocks, checkpoints,
    descriptions, previous hashes and hashes), or None"""
    if len(a) != len(b):
        return {"what": "length", "a": len(a), "b": len(b)}
    for i, (x, y) in enumerate(zip(a, b)):
        dx, dy = log_public(x), log_public(y)
        if dx != dy:
            for k in dx:
                if dx[k] != dy.get(k):
                    if k == "playlogs":
                        for j, (p, q) in enumerate(zip(dx[k], dy[k])):
                            for kk in p:
                                if p[kk] != q.get(kk):
                                    detail = {"a": p[kk], "b": q.get(kk)}
                                    if kk == "checkpoint":
                                        pa, pb = p[kk]["store_ckpt"], q[kk]["store_ckpt"]
                                        detail = {key: {"a": pa.get(key), "b": pb.get(key)}
                                                  for key in set(pa) | set(pb) if pa.get(key) != pb.get(key)}
                                    return {"what": f"log {i} playlog {j} field {kk}", "diff": detail}
                        return {"what": f"log {i} playlogs length", "a": len(dx[k]), "b": len(dy[k])}
                    return {"what": f"log {i} field {k}", "a": dx[k], "b": dy.get(k)}
        if x.hash != y.hash:
            return {"what": f"log {i} hash", "a": x.hash, "b": y.hash}
    return None


# ------------------------------------------------------------------ model encoding
class Interner:
    def __init__(self):
        self.ids: dict[str, int] = {}
        self.values: list[Any] = []

    def get(self, obj) -> int:
        key = canon(normnum(obj))
        if key not in self.ids:
            self.ids[key] = len(self.ids) + 1
            self.values.append(obj)
        return self.ids[key]


def enc_payload(p):
    if p is None:
        return None
    if isinstance(p, (int, float)) and not isinstance(p, bool):
        return frac(p)
    return canon(p)   # dict payload -> canonical JSON text (starts with '{')


def enc_action(a) -> dict:
    return {"name": a["name"], "method": a["method"], "payload": enc_payload(a["payload"])}


def enc_event(e) -> dict:
    payload = e.get("payload") or {}
    t = payload.get("time") if isinstance(payload, dict) else None
    return {"name": e["name"], "method": e["method"], "tag": e.get("tag") or "", "handler": e.get("handler") or "",
            "payload": canon(payload), "time": None if t is None else frac(t)}


def enc_command(c) -> dict:
    if not isinstance(c, ConsoleText) and c.command == "init" and c.name == "init":
        # the command of the initial log; the model writes it as this fixed placeholder
        return {"kind": "USE", "name": "init", "time": "0/1", "expr": "#init"}
    if isinstance(c, ConsoleText):
        return {"kind": "CONSOLE", "name": c.text, "time": "0/1", "expr": "!debug " + c.text}
    return {"kind": c.command, "name": c.name, "time": frac(c.time or 0), "expr": c.expr}


class Recorder:
    """builds the finite play/clock/view tables of the model from real operation logs: every pair of
    consecutive playlogs of a history is one edge (checkpoint before, action) -> (checkpoint after,
    events); the same key answered differently is a conflict (non-determinism, or state outside the
    checkpoint)"""

    def __init__(self):
        self.ckpts = Interner()
        self.play: dict[tuple[int, str], tuple[int, list]] = {}
        self.clock: dict[int, str] = {}
        self.view: dict[tuple[int, str], str] = {}
        self.conflicts: list[dict] = []

    def ckpt_id(self, playlog) -> int:
        return self.ckpts.get(playlog.checkpoint.store_ckpt)

    def add_history(self, logs: Iterable[OperationLog]):
        prev = None
        for log in logs:
            for pl in log.playlogs:
                cid = self.ckpt_id(pl)
                self.clock.setdefault(cid, frac(pl.clock))
                if self.clock[cid] != frac(pl.clock):
                    self.conflicts.append({"what": "clock of one checkpoint differs", "ckpt": cid})
                if prev is not None:
                    key = (prev, canon(enc_action(pl.action)))
                    val = (cid, [enc_event(e) for e in pl.events])
                    if key in self.play and self.play[key] != val:
                        self.conflicts.append({"what": "same (checkpoint, action) answered differently",
                                               "action": pl.action, "first": self.play[key], "second": val})
                    self.play.setdefault(key, val)
                prev = cid
            if isinstance(log.command, ConsoleText) and prev is not None:
                key = (prev, log.command.text)
                out = log.description or ""
                if key in self.view and self.view[key] != out:
                    self.conflicts.append({"what": "same (checkpoint, debug text) answered differently"})
                self.view.setdefault(key, out)

    def tables(self) -> dict:
        return {
            "play": [{"s": k[0], "a": json.loads(k[1]), "s2": v[0], "ev": v[1]} for k, v in self.play.items()],
            "clock": [{"s": k, "t": v} for k, v in self.clock.items()],
            "view": [{"s": k[0], "q": k[1], "out": v} for k, v in self.view.items()],
        }

    def enc_log(self, log: OperationLog) -> dict:
        return {
            "command": enc_command(log.command),
            "playlogs": [{"clock": frac(pl.clock), "action": enc_action(pl.action),
                          "events": [enc_event(e) for e in pl.events], "ckpt": self.ckpt_id(pl)}
                         for pl in log.playlogs],
            "description": log.description,
        }


def model_log_view(mlog: dict) -> dict:
    """the comparable part of a log answered by the Lean driver (hash values are driver-specific)"""
    return {"command": mlog["command"], "playlogs": mlog["playlogs"], "description": mlog["description"]}


def hash_structure(prevs: list[str], hashes: list[str]) -> list[int]:
    """previous-hash links as indices: for each log the index of the log whose hash it names (-1: empty
    previous hash, -2: names no log of the history)"""
    out = []
    for p in prevs:
        if p == "":
            out.append(-1)
        elif p in hashes:
            out.append(hashes.index(p))
        else:
            out.append(-2)
    return out


# ------------------------------------------------------------------ probes (C05, C06)
class ProbedEngine:
    """an engine with (a) a catch-all probe dispatcher installed through the public
    EngineBuilder.add_dispatcher extension point, recording every action the router dispatches, (b) the
    router's class swapped for a subclass that tracks the nesting depth of router calls (addons re-enter the
    router while an action is being handled) and the clock entity around every top-level call, and (c)
    play boundaries marked by wrapping `play` as imported by simaple.simulate.engine."""

    def __init__(self, job: str, variant: int = 0):
        import copy
        import simaple.simulate.engine as engine_mod
        from simaple.container.simulation import get_skill_components
        from simaple.simulate.base import RouterDispatcher, play as real_play
        from simaple.simulate.kms import get_builder

        key = (job, variant, canon({}))
        if key not in _SKILL_CACHE:
            env = make_env(job, variant)
            _SKILL_CACHE[key] = (get_skill_components(env), env.character.action_stat)
        skills, action_stat = _SKILL_CACHE[key]
        owner = self
        self.plays: list[dict] = []        # one per play: {"action", "queue": [...], "router": [...], "events"}
        self.current: Optional[dict] = None

        class Probe:
            def __call__(self, action, store):
                if owner.current is not None:
                    owner.current["all"].append((owner.depth, copy.deepcopy(dict(action))))
                return []

            def includes(self, signature):
                return True

            def init_store(self, store):
                return

        class RecordingRouter(RouterDispatcher):
            def __call__(self, action, store):
                top = owner.depth == 0
                if top and owner.current is not None:
                    before = store.read_entity("global.time", None).current_time
                owner.depth += 1
                try:
                    events = RouterDispatcher.__call__(self, action, store)
                finally:
                    owner.depth -= 1
                if top and owner.current is not None:
                    after = store.read_entity("global.time", None).current_time
                    owner.current["router"].append({"action": copy.deepcopy(dict(action)), "clock_before": before,
                                                    "clock_after": after, "events": copy.deepcopy(events)})
                return events

        self.depth = 0
        builder = get_builder(copy.deepcopy(skills), action_stat.model_copy())
        builder.add_dispatcher(Probe())
        builder._router.__class__ = RecordingRouter
        self.engine = builder.build_operation_engine()
        self.dispatchers = builder._router._dispatchers

        def wrapped_play(store, action, router):
            if router is not self.engine._router:
                return real_play(store, action, router)
            self.current = {"action": copy.deepcopy(dict(action)), "all": [], "router": []}
            try:
                res = real_play(store, action, router)
            finally:
                cur, self.current = self.current, None
            cur["events"] = copy.deepcopy(res[1])
            cur["queue"] = [a for d, a in cur["all"] if d == 1]
            self.plays.append(cur)
            return res

        self._engine_mod = engine_mod
        self._orig_play = engine_mod.play
        engine_mod.play = wrapped_play

    def close(self):
        self._engine_mod.play = self._orig_play
