"""part `Mech` of the L2 component correspondence (see complib._load_plugins): parameters / entity codecs for
the classes modelled in lean/Simaple/Model/ComponentMech.lean (driver: lean/Simaple/Model/DrvComponentMech.lean):
the job-specific classes of the shipped jobs mechanic and adele."""
from __future__ import annotations

CLASSES = {
    "RobotMasteryComponent",
    "RobotSetupBuff",
    "RobotSummonSkill",
    "HommingMissile",
    "FullMetalBarrageComponent",
    "MultipleOptionComponent",
    "MecaCarrier",
    "PenalizedBuffSkill",
    "AdeleEtherComponent",
    "AdeleCreationComponent",
    "AdeleOrderComponent",
    "AdeleGatheringComponent",
    "AdeleBlossomComponent",
    "AdeleRuinComponent",
    "AdeleRestoreBuffComponent",
    "AdeleStormComponent",
    "MagicCurcuitFullDriveComponent",
}


def _c():
    import complib
    return complib


def _mod_text(comp, modifier):
    """what `NamedEventProvider.dealt(.., modifier)` puts into the payload for a non-None `modifier`, as
    complib.enc_revents will encode it: None when it equals the component's default modifier (plain `dealt`),
    else the canonical JSON text of `modifier + default_modifier`"""
    from simlib import canon
    default = getattr(comp, "modifier", None)
    total = modifier if default is None else modifier + default
    dump = total.model_dump() if total else None
    default_dump = default.model_dump() if default is not None else None
    if dump == default_dump:
        return None
    return canon(dump)


def params_of(comp, state) -> dict:
    from simaple.core import Stat
    c = _c()
    units, ratq = c.units, c.ratq
    cls = type(comp).__name__
    if cls == "RobotMasteryComponent":
        return {"summon_increment": ratq(comp.summon_increment), "robot_damage_increment": ratq(comp.robot_damage_increment)}
    if cls == "AdeleEtherComponent":
        return {"stack_per_period": str(int(comp.stack_per_period)), "stack_per_trigger": str(int(comp.stack_per_trigger)),
                "stack_per_resonance": str(int(comp.stack_per_resonance))}
    dyn = state.dynamics.stat
    if cls == "AdeleRestoreBuffComponent":
        return {"last_eff": units(dyn.calculate_buff_duration(comp.lasting_duration)), "delay": units(comp.delay)}
    p = {"cd_eff": units(dyn.calculate_cooldown(comp.cooldown_duration)), "delay": units(comp.delay)}
    if cls == "RobotSetupBuff":
        # use_buff_trait(state, apply_buff_duration=False): lasting_duration * summon multiplier (float product)
        p.update(last_eff=units(comp._get_lasting_duration(state)))
    elif cls == "RobotSummonSkill":
        p.update(damage=ratq(comp.damage), hit=ratq(comp.hit), periodic_damage=ratq(comp.periodic_damage),
                 periodic_hit=ratq(comp.periodic_hit), lasting_eff=units(comp._get_lasting_duration(state)),
                 robot_mod=_mod_text(comp, state.robot_mastery.get_robot_modifier()))
    elif cls == "HommingMissile":
        p.update(periodic_damage=ratq(comp.periodic_damage), periodic_hit=ratq(comp.periodic_hit),
                 lasting_duration=units(comp.lasting_duration),
                 barrage_mod=_mod_text(comp, Stat(final_damage_multiplier=comp.final_damage_multiplier_during_barrage)))
    elif cls == "FullMetalBarrageComponent":
        p.update(maximum_keydown_time=units(comp.maximum_keydown_time), prepare_delay=units(comp.keydown_prepare_delay),
                 damage=ratq(comp.damage), hit=ratq(comp.hit), end_delay=units(comp.keydown_end_delay),
                 homing_penalty_duration=units(comp.homing_penalty_duration))
    elif cls == "MultipleOptionComponent":
        p.update(lasting_duration=units(comp.lasting_duration), missile_count=str(int(comp.missile_count)),
                 missile_damage=ratq(comp.missile_damage), missile_hit=ratq(comp.missile_hit),
                 gatling_count=str(int(comp.gatling_count)), gatling_damage=ratq(comp.gatling_damage),
                 gatling_hit=ratq(comp.gatling_hit),
                 robot_mod=_mod_text(comp, state.robot_mastery.get_robot_modifier()))
    elif cls == "MecaCarrier":
        p.update(lasting_duration=units(comp.lasting_duration), start_intercepter=str(int(comp.start_intercepter)),
                 damage_per_intercepter=ratq(comp.damage_per_intercepter), hit_per_intercepter=ratq(comp.hit_per_intercepter),
                 robot_mod=_mod_text(comp, state.robot_mastery.get_robot_modifier()))
    elif cls == "PenalizedBuffSkill":
        p.update(last_eff=units(dyn.calculate_buff_duration(comp.lasting_duration) if comp.apply_buff_duration
                                else comp.lasting_duration))
    elif cls == "AdeleCreationComponent":
        p.update(damage=ratq(comp.damage), hit_per_sword=ratq(comp.hit_per_sword), disable_validity=bool(comp.disable_validity))
    elif cls == "AdeleOrderComponent":
        p.update(periodic_damage=ratq(comp.periodic_damage), periodic_hit=ratq(comp.periodic_hit),
                 lasting_duration=units(comp.lasting_duration), maximum_stack=str(int(comp.maximum_stack)),
                 restore_maximum_stack=str(int(comp.restore_maximum_stack)))
    elif cls == "AdeleGatheringComponent":
        p.update(damage=ratq(comp.damage), hit_per_sword=ratq(comp.hit_per_sword))
    elif cls == "AdeleBlossomComponent":
        p.update(damage=ratq(comp.damage), hit_per_sword=ratq(comp.hit_per_sword),
                 exceeded_mod=_mod_text(comp, comp.exceeded_stat))
    elif cls == "AdeleRuinComponent":
        p.update(periodic_damage_first=ratq(comp.periodic_damage_first), periodic_hit_first=ratq(comp.periodic_hit_first),
                 lasting_duration_first=units(comp.lasting_duration_first),
                 periodic_damage_second=ratq(comp.periodic_damage_second), periodic_hit_second=ratq(comp.periodic_hit_second),
                 lasting_duration_second=units(comp.lasting_duration_second))
    elif cls in ("AdeleStormComponent", "MagicCurcuitFullDriveComponent"):
        p.update(periodic_damage=ratq(comp.periodic_damage), periodic_hit=ratq(comp.periodic_hit),
                 lasting_duration=units(comp.lasting_duration))
    return p


def enc_payload(comp, method, payload):
    """non-numeric reducer payloads: `HommingMissile.pause(payload: DelayPayload)` -> its time"""
    if type(comp).__name__ == "HommingMissile" and method == "pause":
        t = payload.time if hasattr(payload, "time") else payload["time"]
        return _c().units(t)
    return None


def enc_entity(ent):
    c = _c()
    units, ratq = c.units, c.ratq
    cls = type(ent).__name__
    if cls == "RobotMastery":
        return {"summon_increment": ratq(ent.summon_increment), "robot_damage_increment": ratq(ent.robot_damage_increment)}
    if cls == "Cycle":
        return {"tick": str(int(ent.tick)), "period": str(int(ent.period))}
    if cls == "Stack":
        return {"stack": str(int(ent.stack)), "maximum_stack": str(int(ent.maximum_stack))}
    if cls == "DynamicIntervalPeriodic":
        return {"interval_counter": units(ent.interval_counter), "interval": units(ent.interval),
                "time_left": units(ent.time_left), "count": str(int(ent.count)),
                "count_interval_penalty": units(ent.count_interval_penalty), "max_count": str(int(ent.max_count))}
    if cls == "OrderSword":
        return {"running_swords": [[units(cn), units(tl)] for (cn, tl) in ent.running_swords], "interval": units(ent.interval)}
    if cls == "EtherGauge":
        return {"stack": str(int(ent.stack)), "maximum_stack": str(int(ent.maximum_stack)),
                "creation_step": str(int(ent.creation_step)), "order_consume": str(int(ent.order_consume))}
    if cls == "RestoreLasting":
        return {"time_left": units(ent.time_left), "assigned_duration": units(ent.assigned_duration),
                "ether_multiplier": ratq(ent.ether_multiplier)}
    return None


def enc_view(value):
    return None
