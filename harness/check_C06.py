"""C06 -- the clock equals the time asked for; commands advance it as documented."""
from __future__ import annotations

import math
import random
from fractions import Fraction

from vlib import Check, run_check, pmap
import simlib
from simlib import JOBS, ProbedEngine, command_text, make_engine, op, random_plan

from simaple.simulate.policy.base import ConsoleText
from simaple.simulate.policy.handlers import get_next_elapse_time

TAG_DELAY, TAG_ELAPSED = "global.delay", "global.elapsed"


def close(a, b):
    return a == b or math.isclose(a, b, rel_tol=1e-12, abs_tol=1e-9)


def elapse_of(action) -> float:
    if action["name"] == "*" and action["method"] == "elapse":
        return action["payload"]
    return 0.0


def unit(job, variant, pi, seed, length):
    rng = random.Random(f"C06:{seed}:{job}:{variant}:{pi}")
    cmds = random_plan(rng, job, variant, length, offgrid=True)
    if pi % 2 == 1:
        cmds = simlib.with_refused(rng, cmds)     # commands the engine refuses with an exception; the session goes on
    pe = ProbedEngine(job, variant)
    out = {"commands": 0, "plays": 0, "router_calls": 0, "elapsed_events": 0, "failing": [], "kinds": {},
           "zero_elapse": 0, "fractional_elapse": 0, "reqs_actions": [], "expect_actions": [], "delay_cases": [],
           "sample": None, "offgrid": 0, "refused": 0}

    def fail(what, **kw):
        out["failing"].append({"kind": "clock", "job": job, "variant": variant, "what": what,
                               "plan": [command_text(c) for c in done], **kw})

    try:
        # static: no installed component dispatcher is bound to the clock entity
        for d in pe.dispatchers:
            base = getattr(d, "_base_dispatcher", None)
            adapter = getattr(base, "_store_adapter", None)
            if adapter is not None and "global.time" in adapter._get_bound_names().values():
                out["failing"].append({"kind": "clock", "job": job, "what": "a component dispatcher is bound to global.time",
                                       "component": getattr(base, "_name", "?")})
        done = []
        total = Fraction(0)
        exact = True
        last_play_events: list = []       # the events of the last play, tracked here (console lines have no play)
        for c in cmds:
            viewer = pe.engine.get_current_viewer()
            before = viewer("clock")
            buffered = last_play_events
            if simlib.canon(pe.engine.get_buffered_events()) != simlib.canon(last_play_events):
                out["failing"].append({"kind": "clock", "job": job, "variant": variant,
                                       "what": "the pending events the engine holds differ from the events of the last play",
                                       "plan": [command_text(x) for x in done], "next_command": command_text(c)})
            n_plays = len(pe.plays)
            if simlib.is_refused(c):
                log = simlib.exec_safe(pe.engine, c)
                done.append(c)
                out["refused"] += 1
                if log is not None:
                    fail("a malformed command was not refused", command=command_text(c))
                    break
                after = pe.engine.get_current_viewer()("clock")
                if after != before:
                    fail(f"a refused command changed the clock by {after - before}", command=command_text(c))
                    break
                continue
            log = pe.engine.exec(c)
            if log.playlogs:
                last_play_events = list(log.playlogs[-1].events)
            done.append(c)
            after = pe.engine.get_current_viewer()("clock")
            out["commands"] += 1
            kd = "CONSOLE" if isinstance(c, ConsoleText) else c.command
            out["kinds"][kd] = out["kinds"].get(kd, 0) + 1
            # per command
            if kd == "ELAPSE":
                want = c.time
                out["zero_elapse"] += c.time == 0
                out["fractional_elapse"] += c.time != int(c.time)
            elif kd == "CAST":
                want = get_next_elapse_time(log.playlogs[0].events)
                indep = next((e["payload"]["time"] for e in log.playlogs[0].events
                              if e["tag"] == TAG_DELAY and e["payload"]["time"] > 0), 0.0)
                if want != indep:
                    fail("get_next_elapse_time is not the first positive delay", events=log.playlogs[0].events[:6])
                out["delay_cases"].append(([simlib.enc_event(e) for e in log.playlogs[0].events], None, simlib.frac(indep)))
            elif kd == "RESOLVE":
                mine = [e for e in buffered if e["name"] == c.name]
                want = next((e["payload"]["time"] for e in mine if e["tag"] == TAG_DELAY and e["payload"]["time"] > 0), 0.0)
                out["delay_cases"].append(([simlib.enc_event(e) for e in buffered], c.name, simlib.frac(want)))
            else:
                want = 0.0
            if not close(after - before, want) or (Fraction(after) - Fraction(before) != Fraction(want) and exact and False):
                fail(f"{kd} advanced the clock by {after - before}, documented {want}", command=command_text(c))
                break
            if after < before:
                fail("the clock decreased", command=command_text(c))
                break
            # per play and per router call
            prev_clock = before
            for pl_rec, pl in zip(pe.plays[n_plays:], log.playlogs):
                out["plays"] += 1
                e_t = elapse_of(pl.action)
                if not close(pl.clock - prev_clock, e_t):
                    fail(f"playlog clock advanced by {pl.clock - prev_clock} for action {pl.action}")
                prev_clock = pl.clock
                for rc in pl_rec["router"]:
                    out["router_calls"] += 1
                    d = rc["clock_after"] - rc["clock_before"]
                    if not close(d, elapse_of(rc["action"])):
                        fail(f"a router call for {rc['action']['name']}.{rc['action']['method']} changed the clock by {d}")
                    if len(out["reqs_actions"]) < 300:
                        out["reqs_actions"].append(simlib.enc_action(rc["action"]))
                        out["expect_actions"].append(simlib.frac(d) if d == elapse_of(rc["action"]) else "approx")
                if e_t or (pl.action["name"] == "*" and pl.action["method"] == "elapse"):
                    for ev in pl.events:
                        if ev["tag"] == TAG_ELAPSED:
                            out["elapsed_events"] += 1
                            if ev["payload"].get("time") != pl.action["payload"]:
                                fail(f"an 'elapsed' notification of {ev['name']} carries {ev['payload'].get('time')} "
                                     f"for an elapse of {pl.action['payload']}")
                total += Fraction(e_t)
            if Fraction(after) != total:
                out["offgrid"] += 1
                if not close(after, float(total)):
                    fail(f"clock {after} is not the sum of the elapse times dispatched so far ({float(total)})")
                    break
            if out["failing"]:
                break
        out["sample"] = {"job": job, "plan": [command_text(c) for c in cmds][:10], "final_clock": pe.engine.get_current_viewer()("clock")}
    finally:
        pe.close()
    return out


def triple_unit(job, variant, seed, per_skill):
    """every skill cast, used again at once (its follow-up reactions stay pending, some are refused on cooldown) and
    then ANOTHER skill cast: the second cast's play carries events of other components -- rejections included -- and
    still advances the clock by the first positive delay it announces"""
    rng = random.Random(f"C06:triples:{seed}:{job}:{variant}")
    out = {"triples": 0, "foreign_reject_in_cast_play": 0, "failing": []}
    names = [v.name for v in make_engine(job, variant).get_current_viewer()("validity")]
    for s1 in names:
        for s2 in rng.sample(names, min(per_skill, len(names))):
            eng = make_engine(job, variant)
            plan = [op("CAST", s1), op("USE", s1), op("CAST", s2)]
            done = []
            for c in plan:
                before = eng.get_current_viewer()("clock")
                log = eng.exec(c)
                done.append(c)
                after = eng.get_current_viewer()("clock")
                want = 0.0
                if c.command == "CAST":
                    evs = log.playlogs[0].events
                    want = next((e["payload"]["time"] for e in evs if e["tag"] == TAG_DELAY and e["payload"]["time"] > 0), 0.0)
                    if want > 0 and any(e["tag"] == "global.reject" for e in evs):
                        out["foreign_reject_in_cast_play"] += 1
                if not close(after - before, want):
                    out["failing"].append({"kind": "clock", "job": job, "variant": variant,
                                           "what": f"{c.command} advanced the clock by {after - before}, documented {want}",
                                           "plan": [command_text(x) for x in done], "command": command_text(c)})
                    break
            out["triples"] += 1
            if len(out["failing"]) >= 2:
                return out
    # RESOLVE of every skill when it has nothing pending (never used, idle key-down skills announce NEGATIVE delays on
    # every elapse) and RESOLVE repeated past the end of a key-down: by the first POSITIVE pending delay of that skill,
    # else by nothing -- never backwards
    for s in names:
        eng = make_engine(job, variant)
        plan = [op("ELAPSE", time=1000.0), op("RESOLVE", s), op("CAST", s)] + [op("RESOLVE", s)] * 3 + \
               [op("ELAPSE", time=30000.0), op("RESOLVE", s)]
        done, buffered = [], []
        for c in plan:
            before = eng.get_current_viewer()("clock")
            log = eng.exec(c)
            done.append(c)
            after = eng.get_current_viewer()("clock")
            if c.command == "RESOLVE":
                mine = [e for e in buffered if e["name"] == c.name]
                want = next((e["payload"]["time"] for e in mine if e["tag"] == TAG_DELAY and e["payload"]["time"] > 0), 0.0)
                out["resolves"] = out.get("resolves", 0) + 1
                if not close(after - before, want) or after < before:
                    out["failing"].append({"kind": "clock", "job": job, "variant": variant,
                                           "what": f"RESOLVE advanced the clock by {after - before}, documented {want}",
                                           "plan": [command_text(x) for x in done], "command": command_text(c)})
                    return out
            if log.playlogs:
                buffered = list(log.playlogs[-1].events)
    return out


def runtime_unit(job, variant):
    """clocks do not talk to each other: a SimulationRuntime plays on the store of its builder (an operation engine works
    on a restored copy), so it is the runtimes that show whether two simulations of one process share a clock.  Every
    clock is the sum of the elapse times dispatched TO IT."""
    import copy
    from simaple.container.simulation import get_skill_components
    from simaple.simulate.kms import get_builder
    out = {"runtime_plays": 0, "failing": []}
    env = simlib.make_env(job, variant)
    skills = get_skill_components(env)

    def new_runtime():
        return get_builder(copy.deepcopy(skills), env.character.action_stat.model_copy()).build_simulation_runtime()

    def fail(what, **kw):
        out["failing"].append({"kind": "clock", "job": job, "variant": variant, "api": "SimulationRuntime", "what": what, **kw})

    a = new_runtime()
    total = 0.0
    for t in (1000.0, 0.5, 250.25):
        a.play({"name": "*", "method": "elapse", "payload": t})
        total += t
        out["runtime_plays"] += 1
        if not close(a.get_viewer()("clock"), total):
            fail(f"runtime clock {a.get_viewer()('clock')} after elapses summing to {total}")
            return out
    b = new_runtime()
    if b.get_viewer()("clock") != 0:
        fail(f"a NEW runtime starts at clock {b.get_viewer()('clock')} after another runtime of the process elapsed {total}")
        return out
    b.play({"name": "*", "method": "elapse", "payload": 7.0})
    out["runtime_plays"] += 1
    if not close(b.get_viewer()("clock"), 7.0) or not close(a.get_viewer()("clock"), total):
        fail(f"two runtimes: clocks {a.get_viewer()('clock')} / {b.get_viewer()('clock')}, elapsed {total} / 7.0")
        return out
    e = make_engine(job, variant)
    if e.get_current_viewer()("clock") != 0:
        fail(f"a NEW engine starts at clock {e.get_current_viewer()('clock')} after runtimes of the process elapsed")
        return out
    e.exec(op("ELAPSE", time=3.0))
    if not close(e.get_current_viewer()("clock"), 3.0) or not close(a.get_viewer()("clock"), total):
        fail(f"engine clock {e.get_current_viewer()('clock')} after ELAPSE 3.0 (runtimes elapsed {total} / 7.0)")
    return out


def main(ck: Check):
    quick = ck.tier == "quick"
    variants = [0, 1] if quick else [0, 1, 2]
    plans_per = 2 if quick else 18
    length = (25, 40) if quick else (60, 140)
    rng = ck.rng
    work = [(job, v, pi, ck.seed, rng.randint(*length)) for job in JOBS for v in variants for pi in range(plans_per)]
    tot = {"commands": 0, "plays": 0, "router_calls": 0, "elapsed_events": 0, "zero_elapse": 0, "fractional_elapse": 0,
           "offgrid": 0, "refused": 0}
    kinds: dict[str, int] = {}
    samples, acts, acts_expect, delays = [], [], [], []
    for args, out in pmap(unit, work, ck.budget_s * 0.7):
        if args is None:
            ck.notes.append(f"budget reached: {out}")
            if out["done"] < max(4, out["total"] // 2):
                raise TimeoutError(f"only {out['done']}/{out['total']} units finished within the budget")
            continue
        for k in tot:
            tot[k] += out[k]
        for k, v in out["kinds"].items():
            kinds[k] = kinds.get(k, 0) + v
        for f in out["failing"][:3]:
            ck.add_failing(f)
        if len(samples) < 3 and out["sample"]:
            samples.append(out["sample"])
        acts.extend(out["reqs_actions"][:60])
        acts_expect.extend(out["expect_actions"][:60])
        delays.extend(out["delay_cases"][:20])

    tri = {"triples": 0, "foreign_reject_in_cast_play": 0, "resolves": 0}
    for args, out in pmap(triple_unit, [(job, v, ck.seed, 3 if quick else 12) for job in JOBS for v in variants[:2]],
                          ck.budget_s * 0.2):
        if args is None:
            ck.notes.append(f"budget reached (triples): {out}")
            continue
        for k in tri:
            tri[k] += out.get(k, 0)
        for f in out["failing"][:2]:
            ck.add_failing(f)
    tot.update(tri)
    rt_plays = 0
    for args, out in pmap(runtime_unit, [(job, 0) for job in JOBS], ck.budget_s * 0.15):
        if args is None:
            ck.notes.append(f"budget reached (runtimes): {out}")
            continue
        rt_plays += out["runtime_plays"]
        for f in out["failing"][:2]:
            ck.add_failing(f)
    tot["runtime_plays"] = rt_plays

    reqs = [{"fn": "elapse_of", "actions": acts}] + \
           [{"fn": "first_delay", "events": evs, **({"name": n} if n is not None else {})} for evs, n, _w in delays]
    with ck.locked():
        proved = ck.prove("Simaple.Props.C06")
        if not quick and proved:
            ck.leanchecker(["Simaple.Props.C06"])
        res = ck.driver(reqs, timeout=600)
    disagreements = 0
    if res is not None:
        got = res[0].get("ok", [])
        for a, g, w in zip(acts, got, acts_expect):
            if w != "approx" and g != w:
                disagreements += 1
                if disagreements <= 3:
                    ck.broken.append({"kind": "correspondence", "point": "elapseOf vs the clock change of a router call",
                                      "action": a, "model": g, "implementation": w})
        if len(got) != len(acts):
            ck.broken.append({"kind": "correspondence", "point": "elapse_of driver answer", "driver": res[0]})
        for r, (evs, n, w) in zip(res[1:], delays):
            if r.get("ok") != w:
                disagreements += 1
                if disagreements <= 3:
                    ck.broken.append({"kind": "correspondence", "point": "firstDelay vs get_next_elapse_time",
                                      "events": evs[:8], "name": n, "model": r, "implementation": w})
    ck.coverage.update({
        "evaluations": tot["commands"],
        "distinct_nontrivial": tot["plays"],
        "rule": "all 8 jobs x environment variants x seeded plans (ELAPSE incl. 0 and fractional ms, CAST/RESOLVE with and "
                "without pending delays, rejected casts, USE, KEYDOWNSTOP, !debug); per command the documented clock delta; per "
                "playlog clock = previous + elapse time of its action; per top-level router call (the hypothesis hRouter of the "
                "theorems) clock change = elapse time of that action; every 'elapsed' notification carries the elapse time; "
                "clock = exact sum of dispatched elapse times (Fraction; float rounding counted as offgrid and compared with "
                "tolerance); no component dispatcher is bound to global.time; every second plan also holds commands the engine "
                "refuses with an exception (malformed ELAPSE, unknown command word, raising debug line; also as the very "
                "first command): they must leave the clock alone and the session goes on. distinct_nontrivial = plays",
        "samples": samples,
        "command_kinds": kinds,
        **tot,
        "model_requests": len(reqs),
        "model_disagreements": disagreements,
    })
    ck.assumptions += ["hRouter: a router call changes the clock by exactly the elapse time of its action (observed on every "
                       "router call of every run here; the timer is the only dispatcher bound to global.time)",
                       "writing previous_callbacks does not change the clock"]
    ck.finish("proof",
              trusted_base=["Lean 4.33 kernel", "axioms ⊆ {propext, Classical.choice, Quot.sound}",
                            "hand-written model (Simaple/Model/Engine.lean) tied by C01/C03 replays and the router-call observation",
                            "float addition of on-grid times is exact; otherwise compared with tolerance 1e-9"],
              checker_cmd="cd lean && lake build Simaple.Props.C06 && lake env lean Simaple/Audit/C06.lean")


if __name__ == "__main__":
    run_check("C06", main)
