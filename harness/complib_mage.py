"""part `Mage` of the L2 component correspondence (see complib._load_plugins): parameters / entity codecs for
the classes modelled in lean/Simaple/Model/ComponentMage.lean (driver: lean/Simaple/Model/DrvComponentMage.lean)
— the job-specific classes of archmagefb / archmagetc / bishop and `Infinity`.

Modifiers (Stat blocks of damage events) are opaque tokens for the model: the canonical JSON text of the
Stat dump.  The tables the model indexes (`mod_plain`, `mod_shock`, `mod_none`, `mod_table`) are computed here
with the REAL functions (`get_frost_modifier`, `jupyter_thunder_shock_advantage`, `Stat.__add__`,
`NamedEventProvider.dealt`), like `cd_eff` is computed with the real `calculate_cooldown`.  Which entry
is used for which hit is decided by the model."""
from __future__ import annotations

from fractions import Fraction

CLASSES = {
    "FerventDrain", "PoisonNovaComponent", "PoisonChainComponent", "DotPunisherComponent", "IfrittComponent",
    "InfernalVenom", "FlameSwipVI", "FrostEffect", "JupyterThunder", "ThunderBreak", "ChainLightningVIComponent",
    "DivineAttackSkillComponent", "DivineMinion", "HexaAngelRayComponent", "Infinity",
}


def _c():
    import complib
    return complib


def _canon(x) -> str:
    import simlib
    return simlib.canon(x)


def _event_mod(comp, modifier) -> str:
    """canonical text of the modifier that `event_provider.dealt(.., modifier=modifier)` puts in the event"""
    return _canon(comp.event_provider.dealt(0.0, 0.0, modifier=modifier)["payload"].get("modifier"))


def _default_mod(comp) -> str:
    m = getattr(comp, "modifier", None)
    return _canon(m.model_dump() if m is not None else None)


def mark_token(stat) -> str:
    return "S:" + _canon(stat.model_dump() if hasattr(stat, "model_dump") else stat)


def _frost_tables(comp, state, shock: bool):
    from simaple.simulate.component.entity import Periodic, Stack
    from simaple.simulate.component.specific import archmagetc as tc
    top = max(int(state.frost_stack.maximum_stack), int(state.frost_stack.stack), 0)
    plain, shocked = [], []
    on = Periodic(interval=1.0, time_left=1.0)
    assert on.enabled()
    for k in range(top + 1):
        fs = Stack(stack=k, maximum_stack=max(top, 1))
        plain.append(_event_mod(comp, tc.get_frost_modifier(fs)))
        if shock:
            m = tc.get_frost_modifier(fs)
            m += tc.jupyter_thunder_shock_advantage(on)
            shocked.append(_event_mod(comp, m))
    return plain, shocked


def _mark_tables(comp, state):
    from simaple.core.base import Stat
    none = _event_mod(comp, Stat())
    table = []
    adv = state.divine_mark.advantage
    if adv is not None:
        table.append([mark_token(adv), _event_mod(comp, adv)])
    return none, table


def params_of(comp, state) -> dict:
    c = _c()
    units, ratq = c.units, c.ratq
    cls = type(comp).__name__
    if cls in ("FerventDrain", "FrostEffect"):
        return {}
    dyn = state.dynamics.stat
    p = {"cd_eff": units(dyn.calculate_cooldown(comp.cooldown_duration)), "delay": units(comp.delay),
         "disable_validity": bool(comp.disable_validity)}
    if cls == "PoisonNovaComponent":
        p.update(damage=ratq(comp.damage), hit=ratq(comp.hit), nova_remaining_time=units(comp.nova_remaining_time),
                 nova_damage=ratq(comp.nova_damage), nova_single_hit=str(int(comp.nova_single_hit)),
                 nova_hit_count=str(int(comp.nova_hit_count)), dot_damage=ratq(comp.dot_damage),
                 dot_lasting=units(comp.dot_lasting_duration))
    elif cls == "PoisonChainComponent":
        p.update(damage=ratq(comp.damage), hit=ratq(comp.hit), periodic_damage=ratq(comp.periodic_damage),
                 periodic_hit=ratq(comp.periodic_hit), lasting_duration=units(comp.lasting_duration),
                 periodic_damage_increment=ratq(comp.periodic_damage_increment))
        # the model adds `periodic_damage + increment * stack` exactly; skip the call if the float result differs
        for k in range(0, int(state.stack.maximum_stack) + 1):
            if Fraction(comp.periodic_damage + comp.periodic_damage_increment * k) != \
                    Fraction(comp.periodic_damage) + Fraction(comp.periodic_damage_increment) * k:
                raise c.OffGrid("PoisonChain damage not exact")
    elif cls == "DotPunisherComponent":
        p.update(damage=ratq(comp.damage), hit=ratq(comp.hit), multiple=str(int(comp.multiple)),
                 dot_damage=ratq(comp.dot_damage), dot_lasting=units(comp.dot_lasting_duration))
    elif cls == "IfrittComponent":
        p.update(damage=ratq(comp.damage), hit=ratq(comp.hit), periodic_damage=ratq(comp.periodic_damage),
                 periodic_hit=ratq(comp.periodic_hit), lasting_duration=units(comp.lasting_duration),
                 dot_damage=ratq(comp.dot_damage), dot_lasting=units(comp.dot_lasting_duration))
    elif cls == "InfernalVenom":
        p.update(lasting_duration=units(comp.lasting_duration), first_damage=ratq(comp.first_damage),
                 first_hit=ratq(comp.first_hit), second_damage=ratq(comp.second_damage), second_hit=ratq(comp.second_hit))
    elif cls == "FlameSwipVI":
        p.update(damage=ratq(comp.damage), hit=ratq(comp.hit), explode_damage=ratq(comp.explode_damage),
                 explode_hit=ratq(comp.explode_hit), dot_damage=ratq(comp.dot_damage),
                 dot_lasting=units(comp.dot_lasting_duration))
    elif cls == "JupyterThunder":
        plain, _ = _frost_tables(comp, state, False)
        p.update(periodic_damage=ratq(comp.periodic_damage), periodic_hit=ratq(comp.periodic_hit),
                 lasting_duration=units(comp.lasting_duration), max_count=str(int(comp.max_count)),
                 default_mod=_default_mod(comp), mod_plain=plain)
    elif cls == "ThunderBreak":
        from simaple.simulate.component.entity import Periodic
        plain, shocked = _frost_tables(comp, state, True)
        top = max(int(comp.max_count), int(state.periodic.count), 0) + 2
        damage_at = [ratq(comp.periodic_damage * comp._get_decay_factor(Periodic(interval=1.0, count=k)))
                     for k in range(top + 1)]
        p.update(periodic_hit=ratq(comp.periodic_hit), lasting_duration=units(comp.lasting_duration),
                 max_count=str(int(comp.max_count)), damage_at=damage_at, default_mod=_default_mod(comp),
                 mod_plain=plain, mod_shock=shocked)
    elif cls == "ChainLightningVIComponent":
        plain, shocked = _frost_tables(comp, state, True)
        cf = state.current_fields
        # `stable_rng_counter += electric_current_prob` is a FLOAT addition, the model adds exactly: `prob` is the
        # increment the float addition realises on this state (= electric_current_prob whenever the addition is
        # exact).  The following `-= 1.0` on a value in [1, 2) is exact in floats (Sterbenz).
        prob_eff = Fraction(cf.stable_rng_counter + comp.electric_current_prob) - Fraction(cf.stable_rng_counter)
        p.update(damage=ratq(comp.damage), hit=ratq(comp.hit), prob=ratq(prob_eff),
                 ec_damage=ratq(comp.electric_current_damage), ec_hit=ratq(comp.electric_current_hit),
                 default_mod=_default_mod(comp), mod_plain=plain, mod_shock=shocked)
    elif cls == "DivineAttackSkillComponent":
        none, table = _mark_tables(comp, state)
        p.update(damage=ratq(comp.damage), hit=ratq(comp.hit), default_mod=_default_mod(comp), mod_none=none,
                 mod_table=table, has_synergy=comp.synergy is not None)
    elif cls == "DivineMinion":
        p.update(damage=ratq(comp.damage), hit=ratq(comp.hit), periodic_damage=ratq(comp.periodic_damage),
                 periodic_hit=ratq(comp.periodic_hit), lasting_duration=units(comp.lasting_duration),
                 mark_advantage=mark_token(comp.mark_advantage), has_stat=comp.stat is not None)
    elif cls == "HexaAngelRayComponent":
        none, table = _mark_tables(comp, state)
        p.update(damage=ratq(comp.damage), hit=ratq(comp.hit), punishing_damage=ratq(comp.punishing_damage),
                 punishing_hit=ratq(comp.punishing_hit), stack_resolve_amount=str(int(comp.stack_resolve_amount)),
                 default_mod=_default_mod(comp), mod_none=none, mod_table=table)
    elif cls == "Infinity":
        p.update(last_eff=units(dyn.calculate_buff_duration(comp.lasting_duration) if comp.apply_buff_duration
                                else comp.lasting_duration),
                 final_damage_increment=ratq(comp.final_damage_increment),
                 increase_interval=units(comp.increase_interval),
                 default_final_damage=ratq(comp.default_final_damage),
                 maximum_final_damage=ratq(comp.maximum_final_damage))
    return p


def _enc_periodic(d) -> dict:
    units = _c().units
    return {"interval": units(d["interval"]),
            "initial_counter": None if d["initial_counter"] is None else units(d["initial_counter"]),
            "interval_counter": units(d["interval_counter"]), "time_left": units(d["time_left"]),
            "count": str(int(d["count"]))}


def enc_entity(ent):
    """entity encodings of Simaple/Model/DrvEntity.lean (getStack / getFervent / getNova / getCurrentField / getMark)"""
    c = _c()
    units, ratq = c.units, c.ratq
    cls = type(ent).__name__
    if cls == "Stack":
        return {"stack": str(int(ent.stack)), "maximum_stack": str(int(ent.maximum_stack))}
    if cls == "FerventDrainStack":
        return {"count": str(int(ent.count)), "max_count": str(int(ent.max_count))}
    if cls == "PoisonNovaEntity":
        return {"time_left": units(ent.time_left), "maximum_time_left": units(ent.maximum_time_left)}
    if cls == "CurrentField":
        d = ent.model_dump()
        return {"field_periodics": [_enc_periodic(x) for x in d["field_periodics"]],
                "field_interval": units(d["field_interval"]), "field_duration": units(d["field_duration"]),
                "max_count": str(int(d["max_count"])), "last_force_triggered": units(d["last_force_triggered"]),
                "force_trigger_interval": units(d["force_trigger_interval"]),
                "stable_rng_counter": ratq(d["stable_rng_counter"])}
    if cls == "DivineMark":
        return {"advantage": None if ent.advantage is None else mark_token(ent.advantage)}
    return None


def enc_view(value):
    return None
