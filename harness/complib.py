"""component-level observation of real runs: dispatcher proxies (C07), reducer/view call harvest (C08),
view evaluation and forked USE (C10)"""
from __future__ import annotations

import copy
import os
import json
import random
from typing import Any, Optional

import simlib
from simlib import canon, command_text, make_engine, random_plan

from simaple.simulate.base import Checkpoint, play
from simaple.simulate.component.base import ComponentMethodWrapper, ReducerMethodWrappingDispatcher
from simaple.simulate.reserved_names import Tag


def base_of(dispatcher):
    """the component's own dispatcher inside an installed (tandem) dispatcher, or None (timer, probes)"""
    b = getattr(dispatcher, "_base_dispatcher", dispatcher)
    return b if isinstance(b, ReducerMethodWrappingDispatcher) else None


def component_class_of(base: ReducerMethodWrappingDispatcher) -> str:
    for w in base.reducer_mappings.values():
        f = getattr(w, "_func", None)
        owner = getattr(f, "__self__", None)
        if owner is not None:
            return type(owner).__name__
    return "?"


class DispatcherProxy:
    """proxy around one installed dispatcher: whole-store snapshot (identity of every entity object plus a
    deep dump of the entities bound to this component) before and after the call, and the returned events"""

    def __init__(self, inner, sink):
        self._inner = inner
        self._sink = sink
        self._base = base_of(inner)
        self._cls = component_class_of(self._base) if self._base is not None else type(inner).__name__

    def includes(self, signature):
        return self._inner.includes(signature)

    def init_store(self, store):
        return self._inner.init_store(store)

    def __call__(self, action, store):
        ents = store._concrete_store._entities
        before_ids = dict(ents)
        bound = []
        if self._base is not None:
            local = store.local(self._base._name)
            for name, addr in self._base._store_adapter._get_bound_names().items():
                bound.append(local._resolve_address(addr))
        before_dump = {a: ents[a].model_dump() for a in bound if a in ents}
        events = self._inner(action, store)
        rejected = [e for e in events if e["tag"] == Tag.REJECT]
        rec = {"cls": self._cls, "name": getattr(self._base, "_name", "?"), "action": dict(action),
               "n_events": len(events), "rejected": bool(rejected)}
        if self._base is not None:
            mapping = self._base._find_mapping_name(simlib_signature(action))
            rec["method"] = self._base.method_mappings.get(mapping) if mapping else None
            rec["listened"] = mapping is not None and not (mapping.startswith(self._base._name + ".") or mapping.startswith("*."))
        if rejected:
            problems = []
            if len(events) != 1:
                problems.append({"kind": "reject-not-alone", "events": copy.deepcopy(events[:8])})
            changed = [a for a in set(before_ids) | set(ents) if before_ids.get(a) is not ents.get(a)
                       and (a not in before_ids or a not in ents or before_ids[a] != ents[a])]
            mutated = [a for a in before_dump if a in ents and ents[a].model_dump() != before_dump[a]]
            changed = sorted(set(changed) | set(mutated))
            if changed:
                problems.append({"kind": "state-changed-on-reject", "changed": changed[:6],
                                 "before": {a: before_dump.get(a) for a in changed[:3]},
                                 "after": {a: (ents[a].model_dump() if a in ents else None) for a in changed[:3]}})
            rec["problems"] = problems
        self._sink.append(rec)
        return events


def simlib_signature(action) -> str:
    return action["name"] if len(action["method"]) == 0 else f"{action['name']}.{action['method']}"


def proxied_engine(job, variant, sink):
    eng = make_engine(job, variant)
    router = eng._router
    router._dispatchers = [DispatcherProxy(d, sink) for d in router._dispatchers]
    router._route_cache.clear()
    return eng


# ------------------------------------------------------------------ C08 harvest
class Harvest:
    """records every reducer / view call made through ComponentMethodWrapper during real runs"""

    def __init__(self, per_key_limit: int, only=None):
        self.only = only          # optional set of (class name, method): harvest nothing else
        self.calls: dict[str, dict] = {}
        self.per_class: dict[tuple, int] = {}
        self.limit = per_key_limit
        self._orig = None

    def __enter__(self):
        harvest = self
        self._orig = ComponentMethodWrapper.__call__

        def recording(wrapper, *args):
            f = wrapper._func
            owner = getattr(f, "__self__", None)
            if owner is not None:
                key = (type(owner).__name__, f.__name__)
                if (harvest.only is None or key in harvest.only) and harvest.per_class.get(key, 0) < harvest.limit:
                    try:
                        sig = canon([key, [a.model_dump() if hasattr(a, "model_dump") else a for a in args]])
                    except Exception:
                        sig = None
                    if sig is not None and sig not in harvest.calls:
                        harvest.per_class[key] = harvest.per_class.get(key, 0) + 1
                        harvest.calls[sig] = {"owner": owner, "method": f.__name__, "args": copy.deepcopy(args),
                                              "is_view": len(args) == 1}
            return harvest._orig(wrapper, *args)

        ComponentMethodWrapper.__call__ = recording
        return self

    def __exit__(self, *exc):
        ComponentMethodWrapper.__call__ = self._orig


def dump_arg(a):
    return a.model_dump() if hasattr(a, "model_dump") else copy.deepcopy(a)


def purity_check(call) -> Optional[dict]:
    """call the real method twice on the same argument objects and once on deep copies; the input dump must
    not change and the three results must be equal"""
    owner, method, args = call["owner"], call["method"], call["args"]
    fn = getattr(owner, method)
    before = [dump_arg(a) for a in args]
    owner_before = owner.model_dump()
    clone = copy.deepcopy(args)

    def norm(res):
        if isinstance(res, tuple):
            return [dump_arg(x) if not isinstance(x, (list, type(None))) else x for x in res]
        return dump_arg(res) if hasattr(res, "model_dump") else res
    # what the dispatcher does before every call: build the state object from the store's own entities; pydantic
    # validators of the state class run there, on those very entity objects
    st = args[-1]
    if hasattr(st, "model_fields") and hasattr(type(st), "model_fields"):
        try:
            ents = {k: getattr(st, k) for k in type(st).model_fields}
            ent_before = {k: dump_arg(v) for k, v in ents.items()}
            type(st)(**ents)
            changed = [k for k, v in ents.items() if dump_arg(v) != ent_before[k]]
            if changed:
                return {"kind": "state-construction-mutates-entities", "entities": changed,
                        "before": {k: ent_before[k] for k in changed}, "after": {k: dump_arg(ents[k]) for k in changed}}
        except Exception:  # noqa: BLE001  (a state that cannot be rebuilt is not this check's business)
            pass
    try:
        r1 = norm(fn(*args))
        mid = [dump_arg(a) for a in args]
        r2 = norm(fn(*args))
        after = [dump_arg(a) for a in args]
        r3 = norm(fn(*clone))
    except Exception as e:
        return {"kind": "raised", "error": f"{type(e).__name__}: {e}"}
    if mid != before or after != before:
        idx = next(i for i, (x, y, z) in enumerate(zip(before, mid, after)) if x != y or x != z)
        return {"kind": "input-mutated", "argument_index": idx, "before": before[idx], "after": after[idx]}
    if owner.model_dump() != owner_before:
        return {"kind": "component-mutated"}
    if canon_safe(r1) != canon_safe(r2) or canon_safe(r1) != canon_safe(r3):
        return {"kind": "not-deterministic", "first": r1, "second": r2, "on_copy": r3}
    # the same call on a PRISTINE component rebuilt from the component's own description: a component that keeps
    # something between calls outside its declared fields (a private cache) answers differently from a new one
    try:
        pristine = type(owner).model_validate(owner_before)
        r4 = norm(getattr(pristine, method)(*copy.deepcopy(clone)))
    except Exception:  # noqa: BLE001  (a component that cannot be rebuilt from its dump: not this check's business)
        return None
    if canon_safe(r1) != canon_safe(r4):
        return {"kind": "depends-on-earlier-calls", "this_component": r1, "pristine_component": r4}
    return None


# ------------------------------------------------------------------ C08: calls that can be replayed in another interpreter
def portable_call(call) -> Optional[dict]:
    """a harvested call as plain JSON (component class + description, method, payload, state class + dump); None if it
    does not survive the trip (checked here: the rebuilt call answers like the original)"""
    import json
    owner, method, args = call["owner"], call["method"], call["args"]
    try:
        it = {"cls": [type(owner).__module__, type(owner).__qualname__], "owner": owner.model_dump(mode="json"),
              "method": method, "args": []}
        for a in args:
            if hasattr(a, "model_dump"):
                it["args"].append({"state": [type(a).__module__, type(a).__qualname__], "dump": a.model_dump(mode="json")})
            else:
                it["args"].append({"json": json.loads(json.dumps(a))})
        json.dumps(it)
        return it
    except Exception:  # noqa: BLE001
        return None


def twin_of(item: dict) -> Optional[dict]:
    """the same call on a component of the SAME NAME whose description differs in one number (its damage modifier if it
    has one): what an engine built for another configuration holds"""
    import json
    tw = json.loads(json.dumps(item))
    d = tw["owner"]
    if isinstance(d.get("modifier"), dict) or ("modifier" in d and d["modifier"] is None):
        m = dict(d["modifier"] or {})
        m["final_damage_multiplier"] = float(m.get("final_damage_multiplier", 0.0)) + 7.0
        d["modifier"] = m
        return tw
    for k in ("damage", "cooldown_duration", "lasting_duration", "delay", "hit"):
        if isinstance(d.get(k), (int, float)) and not isinstance(d.get(k), bool) and d[k] > 0:
            d[k] = d[k] * 1.5 if isinstance(d[k], float) else d[k] + 1
            return tw
    return None


def order_dependence(items: list, timeout: float = 240.0) -> list:
    """run the calls in two new interpreters, in the given and in the opposite order; the answers that differ"""
    import json
    import subprocess
    import sys
    from pathlib import Path
    script = str(Path(__file__).with_name("c08_order.py"))
    env = dict(os.environ, PYTHONHASHSEED="0")
    procs = [subprocess.Popen([sys.executable, script], stdin=subprocess.PIPE, stdout=subprocess.PIPE,
                              stderr=subprocess.PIPE, text=True, env=env) for _ in range(2)]
    outs = []
    for p, lst in zip(procs, (items, items[::-1])):
        try:
            o, _e = p.communicate(json.dumps(lst), timeout=timeout)
            outs.append(json.loads(o) if p.returncode == 0 else None)
        except Exception:  # noqa: BLE001
            p.kill()
            outs.append(None)
    if outs[0] is None or outs[1] is None or len(outs[0]) != len(items) or len(outs[1]) != len(items):
        return [{"error": "a helper interpreter gave no answer"}]
    back = outs[1][::-1]
    return [{"index": i, "in_list_order": a[:400], "in_reverse_order": b[:400]}
            for i, (a, b) in enumerate(zip(outs[0], back)) if a != b]


# ------------------------------------------------------------------ C08: observations for the effect model
_PRIMS = (int, float, str, bool, type(None), bytes, complex)


def _is_prim_value(v) -> bool:
    import enum
    if isinstance(v, _PRIMS) or isinstance(v, enum.Enum):
        return True
    if isinstance(v, (tuple, frozenset)):
        return all(_is_prim_value(x) for x in v)
    return False


def mutable_ids(obj, acc=None, path="", skip_fields=()):
    """id -> path of every mutable object (pydantic model, list, dict, set) reachable from obj"""
    acc = {} if acc is None else acc
    if _is_prim_value(obj):
        return acc
    if hasattr(obj, "model_fields") and hasattr(obj, "__dict__"):
        if id(obj) in acc:
            return acc
        acc[id(obj)] = path
        for k, v in obj.__dict__.items():
            if k in skip_fields:
                continue
            mutable_ids(v, acc, f"{path}.{k}", skip_fields)
        return acc
    if isinstance(obj, dict):
        if id(obj) in acc:
            return acc
        acc[id(obj)] = path
        for k, v in obj.items():
            mutable_ids(v, acc, f"{path}[{k!r}]", skip_fields)
        return acc
    if isinstance(obj, (list, set)):
        if id(obj) in acc:
            return acc
        acc[id(obj)] = path
        for i, v in enumerate(obj):
            mutable_ids(v, acc, f"{path}[{i}]", skip_fields)
        return acc
    if isinstance(obj, tuple):
        for i, v in enumerate(obj):
            mutable_ids(v, acc, f"{path}[{i}]", skip_fields)
        return acc
    if id(obj) not in acc:
        acc[id(obj)] = path
    return acc


def _conforms(v, ty, PRIM) -> bool:
    """does the run-time value respect every `immutable` claim of the static type?"""
    if ty == PRIM:
        return _is_prim_value(v)
    if ty[0] == "list" and isinstance(v, (list, set, tuple, frozenset)):
        return all(_conforms(x, ty[1], PRIM) for x in v)
    if ty[0] == "dict" and isinstance(v, dict):
        return all(_conforms(x, ty[1], PRIM) for x in v.values())
    if ty[0] == "htuple" and isinstance(v, tuple) and len(ty[1]) == len(v):
        return all(_conforms(x, t, PRIM) for x, t in zip(v, ty[1]))
    return True


def classification_mismatches(obj, ty_of_annotation, PRIM, seen=None, path="", out=None):
    """fields whose static type the translator treats as immutable but whose run-time value is a mutable object"""
    import typing
    out = [] if out is None else out
    seen = set() if seen is None else seen
    if _is_prim_value(obj) or id(obj) in seen:
        return out
    seen.add(id(obj))
    if hasattr(obj, "model_fields") and hasattr(obj, "__dict__"):
        cls = type(obj)
        try:
            hints = typing.get_type_hints(cls)
        except Exception:
            hints = {}
        import sys as _sys
        for k, v in obj.__dict__.items():
            f = cls.model_fields.get(k)
            if f is not None:
                ty = ty_of_annotation(hints.get(k, f.annotation), vars(_sys.modules[cls.__module__]))
                if not _conforms(v, ty, PRIM):
                    out.append(f"{path}.{k}: {cls.__name__}.{k} is statically {ty!r} but holds {type(v).__name__} {str(v)[:60]}")
            classification_mismatches(v, ty_of_annotation, PRIM, seen, f"{path}.{k}", out)
    elif isinstance(obj, dict):
        for k, v in obj.items():
            classification_mismatches(v, ty_of_annotation, PRIM, seen, f"{path}[{k!r}]", out)
    elif isinstance(obj, (list, tuple, set)):
        for i, v in enumerate(obj):
            classification_mismatches(v, ty_of_annotation, PRIM, seen, f"{path}[{i}]", out)
    return out


def effect_observation(call) -> dict:
    """what one real call did, in the terms of the effect model: which (entity, field) pairs of the state
    changed, and which mutable objects of the result already existed before the call"""
    owner, method, args = call["owner"], call["method"], call["args"]
    args = copy.deepcopy(args)
    fn = getattr(owner, method)
    pre = {}
    mutable_ids(list(args), pre, "args")
    mutable_ids(owner, pre, "self")
    obs = {"changed": [], "aliases": [], "raised": None, "attr_writes": [], "old_object_writes": []}
    state_in = args[-1]
    before = state_in.model_dump() if hasattr(state_in, "model_dump") else None
    # every attribute assignment to a pydantic object during the call (also transient ones that a dump would miss)
    import pydantic
    orig_setattr = pydantic.BaseModel.__setattr__
    log = []

    def tracing_setattr(self_, name, value):
        log.append((id(self_), type(self_).__name__, name))
        return orig_setattr(self_, name, value)

    pydantic.BaseModel.__setattr__ = tracing_setattr
    try:
        res = fn(*args)
    except Exception as e:
        obs["raised"] = f"{type(e).__name__}: {e}"
        res = None
    finally:
        pydantic.BaseModel.__setattr__ = orig_setattr
    for oid, cname, name in log:
        if name not in obs["attr_writes"]:
            obs["attr_writes"].append(name)
        if oid in pre and len(obs["old_object_writes"]) < 4:
            obs["old_object_writes"].append([pre[oid], cname, name])
    if obs["raised"] is not None:
        return obs
    if call["is_view"] or not isinstance(res, tuple):
        return obs
    state_out = res[0]
    if hasattr(state_out, "model_dump") and before is not None:
        after = state_out.model_dump()
        for ent, d0 in before.items():
            d1 = after.get(ent)
            if d0 == d1:
                continue
            if isinstance(d0, dict) and isinstance(d1, dict):
                for f in set(d0) | set(d1):
                    if d0.get(f) != d1.get(f):
                        obs["changed"].append([ent, f, isinstance(d0.get(f), (list, dict)) or isinstance(d1.get(f), (list, dict))])
            else:
                obs["changed"].append([ent, "", False])
    post = {}
    mutable_ids(state_out, post, "result")
    for i, pth in post.items():
        if i in pre:
            obs["aliases"].append([pth, pre[i]])
    return obs


def canon_safe(x):
    try:
        return canon(x)
    except TypeError:
        return repr(x)


# ------------------------------------------------------------------ C10
VIEW_NAMES = ["validity", "running", "buff", "keydown", "info", "clock"]


def eval_views(eng) -> tuple[dict, Optional[dict]]:
    viewer = eng.get_current_viewer()
    out = {}
    for v in VIEW_NAMES:
        try:
            out[v] = viewer(v)
        except Exception as e:
            return out, {"kind": "view-raised", "view": v, "error": f"{type(e).__name__}: {e}"}
    return out, None


def forked_use(eng, ckpt: Checkpoint, skill: str):
    """USE `skill` on a restored copy of the checkpoint; returns the events of the play"""
    store = ckpt.restore()
    _store, events = play(store, {"name": skill, "method": "use", "payload": None}, eng._router)
    return events


# ------------------------------------------------------------------ L2 model correspondence
from fractions import Fraction

UNIT = 1024          # grid: 2^-10 ms


class OffGrid(Exception):
    pass


def units(x) -> str:
    fr = Fraction(x) * UNIT
    if fr.denominator != 1:
        raise OffGrid(str(x))
    return str(fr.numerator)


def ratq(x) -> str:
    fr = Fraction(x)
    return f"{fr.numerator}/{fr.denominator}"


def enc_entity(ent) -> dict:
    cls = type(ent).__name__
    d = ent.model_dump()
    if cls == "Cooldown":
        return {"time_left": units(d["time_left"])}
    if cls == "Lasting":
        return {"time_left": units(d["time_left"]), "assigned_duration": units(d["assigned_duration"])}
    if cls == "Periodic":
        return {"interval": units(d["interval"]),
                "initial_counter": None if d["initial_counter"] is None else units(d["initial_counter"]),
                "interval_counter": units(d["interval_counter"]), "time_left": units(d["time_left"]),
                "count": str(int(d["count"]))}
    if cls == "ProgrammedPeriodic":
        return {"interval_counter": units(d["interval_counter"]), "intervals": [units(x) for x in d["intervals"]],
                "time_left": units(d["time_left"]), "count": str(int(d["count"]))}
    if cls == "Keydown":
        return {"interval": units(d["interval"]), "interval_counter": units(d["interval_counter"]),
                "time_left": units(d["time_left"])}
    for plug in PLUGINS:
        f = getattr(plug, "enc_entity", None)
        r = f(ent) if f is not None else None
        if r is not None:
            return r
    raise KeyError(cls)


MODELLED = {"BuffSkillComponent", "AttackSkillComponent", "DOTEmittingAttackSkillComponent",
            "PeriodicDamageConfiguratedAttackSkillComponent", "ProgrammedPeriodicComponent",
            "TriggableBuffSkillComponent", "KeydownSkillComponent"}


PLUGINS: list = []


def _load_plugins():
    """part models: harness/complib_<part>.py modules with CLASSES (set of component class names),
    params_of(comp, state) -> dict and optionally enc_entity(ent) / enc_view(value) returning None when
    not theirs; the matching Lean side is Simaple/Model/DrvComponent<Part>.lean"""
    import importlib
    import pathlib
    for f in sorted(pathlib.Path(__file__).parent.glob("complib_*.py")):
        PLUGINS.append(importlib.import_module(f.stem))


def all_modelled() -> set:
    out = set(MODELLED)
    for plug in PLUGINS:
        out |= set(plug.CLASSES)
    return out


def params_of(comp, state) -> dict:
    cls = type(comp).__name__
    for plug in PLUGINS:
        if cls in plug.CLASSES:
            return plug.params_of(comp, state)
    dyn = state.dynamics.stat
    p = {"cd_eff": units(dyn.calculate_cooldown(comp.cooldown_duration)), "delay": units(comp.delay),
         "disable_validity": bool(comp.disable_validity)}
    if cls in ("BuffSkillComponent", "TriggableBuffSkillComponent"):
        p["last_eff"] = units(dyn.calculate_buff_duration(comp.lasting_duration) if comp.apply_buff_duration
                              else comp.lasting_duration)
    if cls == "TriggableBuffSkillComponent":
        p.update(trigger_cooldown=units(comp.trigger_cooldown_duration), trigger_damage=ratq(comp.trigger_damage),
                 trigger_hit=ratq(comp.trigger_hit))
    if cls in ("AttackSkillComponent", "DOTEmittingAttackSkillComponent", "PeriodicDamageConfiguratedAttackSkillComponent",
               "ProgrammedPeriodicComponent"):
        p.update(damage=ratq(comp.damage), hit=ratq(comp.hit))
    if cls == "DOTEmittingAttackSkillComponent":
        p.update(dot_damage=ratq(comp.dot_damage), dot_lasting=units(comp.dot_lasting_duration))
    if cls in ("PeriodicDamageConfiguratedAttackSkillComponent", "ProgrammedPeriodicComponent"):
        p.update(periodic_damage=ratq(comp.periodic_damage), periodic_hit=ratq(comp.periodic_hit),
                 lasting_duration=units(comp.lasting_duration))
    if cls == "KeydownSkillComponent":
        p.update(maximum_keydown_time=units(comp.maximum_keydown_time), prepare_delay=units(comp.keydown_prepare_delay),
                 damage=ratq(comp.damage), hit=ratq(comp.hit), finish_damage=ratq(comp.finish_damage),
                 finish_hit=ratq(comp.finish_hit), end_delay=units(comp.keydown_end_delay))
    return p


def enc_state(state) -> dict:
    return {name: enc_entity(ent) for name, ent in dict(state).items() if name != "dynamics"}


def enc_revents(comp, events) -> list:
    """real reducer events -> the model's event shapes (before dispatcher tagging)"""
    if events is None:
        return []
    if not isinstance(events, list):
        events = [events]
    out = []
    default_modifier = comp.modifier.model_dump() if getattr(comp, "modifier", None) is not None else None
    for e in events:
        tag, payload = e["tag"], e["payload"]
        if tag == Tag.ELAPSED:
            out.append(["elapsed", units(payload["time"])])
        elif tag == Tag.REJECT:
            out.append(["rejected"])
        elif tag == Tag.DELAY:
            out.append(["delayed", units(payload["time"])])
        elif tag == Tag.DAMAGE:
            if payload.get("modifier") != default_modifier:
                out.append(["dealt_mod", ratq(payload["damage"]), ratq(payload["hit"]), canon(payload.get("modifier"))])
            else:
                out.append(["dealt", ratq(payload["damage"]), ratq(payload["hit"])])
        elif tag == Tag.KEYDOWN_END:
            out.append(["keydown_end"])
        elif tag == Tag.MOB and e["method"] == "add_dot":
            out.append(["add_dot", ratq(payload["damage"]), units(payload["lasting_time"])])
        else:
            out.append(["custom", tag or e.get("method") or "", canon(payload)])
    return out


def enc_view(value):
    name = type(value).__name__
    if name == "Validity":
        return {"time_left": units(value.time_left), "valid": value.valid,
                "stack": None if value.stack is None else str(int(value.stack))}
    if name == "Running":
        return {"time_left": units(value.time_left), "lasting_duration": units(value.lasting_duration),
                "stack": None if value.stack is None else str(int(value.stack))}
    if name == "KeydownView":
        return {"time_left": units(value.time_left), "running": value.running}
    if name == "Stat" or value is None:
        return value is not None         # the `buff` view: switched on or not (the block itself is a constant)
    for plug in PLUGINS:
        f = getattr(plug, "enc_view", None)
        r = f(value) if f is not None else None
        if r is not None:
            return r
    raise KeyError(name)


def model_request(call) -> Optional[tuple[dict, Any]]:
    """driver request and expected answer for one harvested reducer/view call of a modelled class;
    None if the class/method is not modelled; raises OffGrid if a time is off the 2^-10 ms grid"""
    comp, method, args = call["owner"], call["method"], call["args"]
    cls = type(comp).__name__
    if cls not in all_modelled() or method == "info":
        return None
    state = args[-1]
    params = params_of(comp, state)
    if call["is_view"]:
        value = getattr(comp, method)(copy.deepcopy(state))
        return ({"fn": "cview", "cls": cls, "view": method, "params": params, "state": enc_state(state)}, enc_view(value))
    payload = args[0]
    new_state, events = getattr(comp, method)(copy.deepcopy(payload), copy.deepcopy(state))
    enc_payload = None
    for plug in PLUGINS:                      # part models may encode non-numeric payloads (pydantic models, dicts)
        f = getattr(plug, "enc_payload", None)
        enc_payload = f(comp, method, payload) if f is not None else None
        if enc_payload is not None:
            break
    if enc_payload is None and isinstance(payload, (int, float)) and not isinstance(payload, bool):
        enc_payload = units(payload)
    req = {"fn": "reducer", "cls": cls, "method": method, "params": params, "state": enc_state(state),
           "payload": enc_payload}
    return (req, {"state": enc_state(new_state), "events": enc_revents(comp, events)})


def harvest_model_requests(cmds, job, variant, per_key=12, views=True):
    """run the plan with the call harvest on; return driver requests + expected answers for the calls of
    modelled classes, and counts per class (modelled / unmodelled / skipped off-grid)"""
    reqs, expect = [], []
    stats = {"modelled_calls": 0, "unmodelled_calls": 0, "offgrid_skipped": 0, "other_skipped": 0,
             "modelled_classes": {}, "unmodelled_classes": {}}
    with Harvest(per_key) as hv:
        eng = make_engine(job, variant)
        for i, c in enumerate(cmds):
            eng.exec(c)
            if views and i % 3 == 0:
                eval_views(eng)
    for _sig, call in hv.calls.items():
        cls = type(call["owner"]).__name__
        if cls not in all_modelled():
            stats["unmodelled_calls"] += 1
            stats["unmodelled_classes"][cls] = stats["unmodelled_classes"].get(cls, 0) + 1
            continue
        try:
            r = model_request(call)
        except OffGrid:
            stats["offgrid_skipped"] += 1
            continue
        except KeyError:
            stats["other_skipped"] += 1
            continue
        if r is None:
            continue
        stats["modelled_calls"] += 1
        key = f"{cls}.{call['method']}"
        stats["modelled_classes"][key] = stats["modelled_classes"].get(key, 0) + 1
        reqs.append(r[0])
        expect.append(r[1])
    return reqs, expect, stats


def merge_stats(total: dict, part: dict):
    for k, v in part.items():
        if isinstance(v, dict):
            slot = total.setdefault(k, {})
            for kk, vv in v.items():
                slot[kk] = slot.get(kk, 0) + vv
        else:
            total[k] = total.get(k, 0) + v


_load_plugins()
