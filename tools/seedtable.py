"""markdown table of the seeded changes and what the checks did with them (for DESIGN.md §10)"""
import json
from pathlib import Path
rows = []
for d in sorted((Path(__file__).resolve().parent.parent / "seeded").iterdir()):
    m = json.loads((d / "meta.json").read_text())
    v = m.get("verification", {})
    caught = "caught, failing input" if v.get("caught_with_failing_input") else ("caught (no-failing-input-found)" if v.get("caught") else "MISSED")
    how = "; ".join(v.get("no_longer_checks") or [])[:80]
    rows.append(f"| {d.name} | {m.get('summary', '')[:150].replace('|', '/')} | {m.get('needs', '')[:150].replace('|', '/')} | {caught} ({v.get('check_cmd', '').split(' ')[-1]}) | {how} |")
print("| id | change | needs | result | broken obligations |\n|----|--------|-------|--------|--------------------|")
print("\n".join(rows))
