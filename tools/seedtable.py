"""markdown table of the seeded changes and what the checks did with them (DESIGN.md §10).
Rows already in DESIGN.md are kept as they are (their notes were written when the change was handled); rows for new
seeds are built from seeded/<id>/meta.json and NOTES below.  usage: tools/seedtable.py [--write]"""
import json
import re
import sys
from pathlib import Path

VERIF = Path(__file__).resolve().parent.parent
NOTES = {
    "C02-r5change1": "first reported without a failing input (the effect checker rejects the write into the stored specification): the noise users of the shared data now include one that loads through the public loader WITH injected values",
    "C09-r5change1": "first reported without a failing input (model correspondence only): the views and ticks of both runs are equal, the crack counter is not -- the stack counters among the skill's own entities are now part of the compared status",
    "C19-r5change1": "missed at first: two random pre-assigned jobs rarely provide the same link skill; cases with two or three pre-assigned jobs that share one link (one slot, limit 1) are now generated",
    "C10-r5change1": "missed at first (the view and `use` disagree only when the ether gauge EQUALS the price): every numeric field of every entity of a harvested state is now set to the component's own thresholds (its numeric configuration values, 0, 1), one below and one above, with the cooldown ready; valid => `use` is not rejected",
    "C13-r5change1": "missed at first: the share report was read once, at the end; it is now also read twice in the middle of the run and its final shares must be those of a report read only once",
    "C04-r5change1": "missed at first: no plan had a hundred commands; a chain of long plans (104 -> 112 -> 95 -> 131 commands) is now run per job (two jobs in the quick tier)",
    "C04-r5change2": "missed at first (the state is reached only by one windbreaker skill cast with fewer than its three charges): every numeric / boolean field of every recorded entity is now moved away from its recorded value and must survive Checkpoint.restore().save() (simlib.perturbed_roundtrip; also in check_C01), and every checkpoint a result carries must restore to itself",
    "C06-r5change1": "missed at first: operation engines work on a restored copy of the store and never show a clock shared between stores; per job two SimulationRuntimes and a new engine are now advanced in one process and every clock must be the sum of the elapses dispatched to it",
    "C06-r5change2": "missed at first: RESOLVE was rarely aimed at a skill with nothing pending; per job and skill: ELAPSE, RESOLVE (idle key-down skills announce negative delays), CAST, three RESOLVEs, a long ELAPSE, RESOLVE -- each by the first positive pending delay, never backwards",
    "C16-r5change2": "missed at first (a data slip that the code reads back faithfully): two pairs of the replacement table that are crossed (X replaced by `Y VI` and Y by `X VI`) are now reported",
    "C16-r4change1": "missed at first (a sweep that visits low levels first never sees a cache keyed without the levels): per job a list of configurations that is NOT sorted is built in two new interpreters in opposite orders (harness/c16_order.py) and every skill set and damage figure must agree",
    "C16-r4change2": "missed at first (the mechanism belongs to C20, whose quick check reports it too): the same order test also builds every configuration from the environment an in-memory memoizer shared by the list hands out",
    "C17-r4change1": "first reported without a failing input: star force is now also computed for the same gear with ANOTHER base stat and the same reference stat -- the bonus must not change (it is computed on the gear as enhanced so far)",
    "C13-r4change2": "missed at first (same mechanism as C12-change2, which `./check C12 quick` catches): the entry damage was only compared with get_damage of its own logs; it is now also computed in the harness from the event's own figures (damage% x hits x the factor of the stat with the buff in force x the advantages)",
    "C15-r4change2": "missed at first (same mechanism as C02-change2, which `./check C02 quick` catches with a failing input): four threads now evaluate the same expressions under different bindings with a 1 microsecond switch interval and every answer must be the sequential one",
    "C19-r4change1": "first reported without a failing input: optimize() is now called a second time on the same optimizer object and must return the same state",
    "C10-r4change1": "crashed the harness at first (exit 2: the checkpoint of a reached state could not be restored): the views of the RECORDED state (engine.get_viewer(playlog)) are now evaluated at every fork point, must be defined and must show what the live views show",
    "C03-r4change1": "missed at first: no rollback went onto a command the components REJECT right after an action others react to; per job and skill the skill is now used, used again (mostly rejected on cooldown), rolled back onto the rejected command and onto the one before it, and the run goes on",
    "C05-r4change1": "missed at first: only the operation engine was driven; the actions of a plan are now also played on a SimulationRuntime (runtime.play / save / load) with checkpoints taken between any two actions -- the first before the first action -- and restored after further actions",
    "C08-r4change2": "first reported without a failing input (the module-level cache is rejected by the effect checker): a sample of the harvested reducer calls, each followed by its twin (same name, description differing in one number), is replayed in two new interpreters in opposite orders (harness/c08_order.py) and every answer must agree",
    "C11-r3change2": "first reported without a failing input: the generated blocks now take the ends of the legal range of `ignored_defence` (0 and exactly 100) with their own probability",
    "C12-r3change2": "missed at first: linearity of get_damage was only evaluated at ordinary magnitudes; it is now also evaluated at multiples 10^3, 10^6, 10^9 and 10^-3 of damage% and hit count, and the model correspondence of get_damage takes totals of every magnitude",
    "C16-r3change1": "missed at first: the exclusion check read the replacement's level back from the environment under test; it now takes the CONFIGURED level from the configuration and the profile's raw name lists, and the providers' glue is inside the model (Props/C16_Provider.lean, §9.9) with a correspondence through both providers",
    "C17-r3change1": "first reported without a failing input (the module-level cache is rejected by the effect checker): near-twins of one gear (reference stats differing in one field) are now asked in one order here and in the opposite order in a new interpreter (harness/c17_order.py)",
    "C04-r4change2": "missed at first: the only other-environment pair changed every setting at once; the same body is now also run under environments that differ in ONE setting (armour, mob level, force advantage, level, ...)",
    "C06-r4change1": "missed at first (needs a foreign rejection inside an accepted cast's play; about 1 cast in 450 on one job): every skill is now cast, used again at once and followed by the cast of another skill, on a fresh engine (triples), and the plan generator got the same pattern",
    "C06-r4change2": "missed at first: no plan held a command the engine refuses with an exception; every second plan now holds refused commands (malformed ELAPSE, unknown command word, raising debug line; also as the very first command), after which the session goes on",
    "C14-r4change1": "first reported without a failing input: metadata values now also end in the characters of the closing `---` line (`burst 0-`, `260-`, ...)",
    "C14-r4change2": "missed at first: skill names that differ only in their inner / outer blanks (two spaces, a tab) are now in the name pool, so that parse_dsl_to_operations sees both in one process",
    "C20-r4change1": "first reported without a failing input: the provider memoize() handed out for the previous request to a memoizer is asked again after the next request and must still answer what it answered then",
    "C01-r4change1": "missed at first: no plan held a refused command; plans now hold them (every second plan) and a targeted exploration uses every skill, lets time pass, issues a malformed ELAPSE, casts the other skills and resumes directly after the refused line",
    "C01-r4change2": "missed at first: the plans of this check were on the ms grid; every second plan now has off-grid times (sub-microsecond residues of cooldowns)",
    "C04-r3change1": "missed at first: every ELAPSE in the generated plans was a whole number of ms; the plan generator now also draws off-grid times (fractions of a ms, times a hair above / below a tick boundary)",
    "C06-r3change1": "missed at first: same as C04-r3change1 — off-grid ELAPSE times in the generated plans",
    "C06-r3change2": "missed at first: what RESOLVE should replay was read back from the engine's own buffer; the check now keeps its own record of the events of the last play",
    "C14-r3change1": "missed at first: only the renderer of the model's canonical text was compared; plans written through the API's own plan writer are now parsed back as well",
    "C14-r3change2": "missed at first: each text was parsed by a fresh parser state; a valid text is now also parsed straight after a text the parser rejects, and the two results compared",
    "C20-r3change1": "missed at first: every request was a new provider object; the star pattern now also edits ONE provider object in place (nested containers too) between requests on one memoizer handle, and an answer that did not go through memoize() is judged like any other answer",
    "C20-r3change2": "first reported without a failing input: the key-collision probe now also moves one number inside the stat / action_stat blocks by 4e-7, 1e-9, 1e-3 and one ulp (a shadowed variable had hidden these candidates); two characters that differ by that much then share a memo entry and the second answer is the first's",
    "C01-r3change1": "missed at first: the plans were built from separate command objects and the recorded logs were cut out of the FINISHED straight run; the plan generator now repeats THE SAME Operation object as `xN <op>` does in a plan text (preferably RESOLVE of a key-down skill), and a third resume mode records the logs when the run is at the cut (another engine runs the first k commands and its logs are dumped then)",
    "C10-r3change1": "missed at first: the views were only read going forward; after each plan the engine is rolled back (after the views were read), and what the viewer shows is compared with a fresh engine that ran the surviving commands; skills listed valid there are used on a fork",
    "C13-r3change1": "missed at first: reports were only taken from forward runs; the report after rollback + other commands is now compared with the report of a fresh engine that executed the surviving commands",
    "C13-r3change2": "missed at first: the best window was compared through the public method only on runs with (mostly) integral clocks; synthetic runs now have fractional clocks and window lengths exactly on, just below and just above differences of (truncated) clocks",
    "C02-r3change2": "missed at first (the plans do not reach a lightning hit with zero frost stacks while the shock is active; it is the mechanism of C08-change1): the check now asks the effect translator which reducers / views READ a module-level mutable object (none on the unchanged tree), replays their harvested calls and the states reached when time passes, and compares the snapshot of all module / class level state around them",
    "C07-r3change1": "missed at first: added time-advance forks (one long elapse from reached checkpoints so that buffs run out while cooldowns still run, then every skill pressed once on its own copy of the store); also rejected by the C08 effect checker (a query method that assigns)",
    "C07-r3change2": "MISSED by ./check C07 quick (needs Order swords, Storm cast and run out in one elapse step); a pydantic validator of a state class that writes an entity was a blind spot of the effect model too: validators / serializers / computed fields / __init__ / model_post_init of every entity, state and component class are now lowered and checked like methods (gen_effects.lower_hooks), the harvest replay rebuilds each state object and compares the entities, and the targeted search also visits the states reached when time passes; caught by `./check C08 quick` with a failing input",
    "C08-r3change2": "caught by the broken obligation only (the private cache is rejected by the translator / checker); a failing input needs two Storm uses with different sword counts on one component; the replay now also repeats every call on a pristine component rebuilt from the component's own dump",
    "C15-r3change1": "missed at first: added the same expression evaluated back to back under two bindings that hold the same values in the same dict order under swapped names",
    "C15-r3change2": "missed at first: added ceil / floor arguments a hair's breadth (1e-7 .. 1e-6) away from an integer, as literals and through variables",
    "C02-r2change1": "missed at first: no unit went through the plan-text API on the shipped example plans; every plan unit now records what parse_simaple_runtime / has_environment say about its job's example plan and then asks get_initial_plan_from_baseline for another character (also in the noise steps)",
    "C11-r2change1": "first reported without a failing input (translator refusal only); the laws evaluated on the real operators now include: the result of +, sum, stack is a new object and a later += on it leaves every operand unchanged",
    "C11-r2change2": "the harness crashed at first (ValidationError out of Stat.stack); an operator that raises on a legal block is now a failing input",
    "C12-r2change2": "missed at first: every log went to a fresh calculator; sequences of logs with different buffs now go through ONE DamageCalculator and are compared with fresh calculators (plus monotonicity in the buff)",
    "C14-r2change1": "the harness crashed at first while preparing plan cases; a line in canonical layout that the parser rejects is now a failing input",
    "C16-r2change1": "first reported without a failing input; the joint configurations now include per-skill mastery levels that mix 0 and >0 within one job",
    "C16-r2change2": "the harness crashed at first in the hand-model requests; a patch that raises inside the documented range is now data, and the failing build is found by the level sweep",
    "C17-r2change1": "missed at first: bonus kinds of a blueprint were always distinct; the generators now also list one kind twice with different grades",
    "C18-r2change1": "missed at first: added sequences through ONE BonusCalculator over boss / non-boss gears of the same level, each answer compared with a fresh calculator",
    "C18-r2change2": "missed at first: the answers of such a sequence are kept and re-read (and re-checked for soundness) after all later requests",
    "C20-r2change2": "first reported without a failing input; one-field changes that leave get_memoization_key() equal (cheap probe) are now requested first, with exactly those values",
}


def existing_rows():
    rows = {}
    txt = (VERIF / "DESIGN.md").read_text()
    m = re.search(r"\| id \| change \| needs, in order to manifest \| result \|\n\|[-|]+\|\n((?:\|.*\n)+)", txt)
    if m:
        for line in m.group(1).splitlines():
            rid = line.split("|")[1].strip()
            rows[rid] = line
    return rows, (m.span(1) if m else None), txt


def row_of(d: Path):
    m = json.loads((d / "meta.json").read_text())
    v = m.get("verification", {})
    cmd = v.get("check_cmd", "").split("./check ")[-1]
    if v.get("caught_with_failing_input"):
        res = f"`./check {cmd}`: caught with a failing input"
    elif v.get("caught"):
        res = f"`./check {cmd}`: caught (no-failing-input-found)"
    else:
        res = f"`./check {cmd}`: MISSED"
    broke = sorted({b.split(":")[0] + ":" + b.split(":", 1)[1][:60] for b in (v.get("no_longer_checks") or []) if b})
    if broke:
        res += " — also broke: " + "; ".join(broke[:2])
    if d.name in NOTES:
        res += " — " + NOTES[d.name]
    cut = lambda s: (s or "")[:170].replace("|", "/").replace("\n", " ")
    return f"| {d.name} | {cut(m.get('summary'))} | {cut(m.get('needs'))} | {res} |"


def main():
    rows, span, txt = existing_rows()
    for d in sorted((VERIF / "seeded").iterdir()):
        if d.name not in rows or d.name in NOTES:
            rows[d.name] = row_of(d)
    out = "\n".join(rows[k] for k in sorted(rows)) + "\n"
    if "--write" in sys.argv and span:
        (VERIF / "DESIGN.md").write_text(txt[:span[0]] + out + txt[span[1]:])
        print(f"{len(rows)} rows written")
    else:
        print(out)


if __name__ == "__main__":
    main()
