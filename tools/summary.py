"""per-property summary of what is proved (generated from the Props files and MANIFEST.json) for DESIGN.md §11"""
import json
import re
from pathlib import Path

VERIF = Path(__file__).resolve().parent.parent
LEAN = VERIF / "lean" / "Simaple"


def strip(src):
    out, i, depth, n = [], 0, 0, len(src)
    while i < n:
        if src.startswith("/-", i):
            depth += 1; i += 2
        elif depth and src.startswith("-/", i):
            depth -= 1; i += 2
        elif depth:
            i += 1
        elif src.startswith("--", i):
            j = src.find("\n", i); i = n if j < 0 else j
        else:
            out.append(src[i]); i += 1
    return "".join(out)


def main():
    man = json.loads((VERIF / "MANIFEST.json").read_text())
    total = 0
    lines = ["| property | level | theorems (files) | model / proof modules | `_partial` theorems (the full statement is false or unproved; see the file) |",
             "|---|---|---|---|---|"]
    for c in man["checks"]:
        pid = c["property_id"]
        files = [LEAN / "Props" / f"{pid}.lean"] + sorted((LEAN / "Props").glob(f"{pid}_*.lean"))
        names, imports = [], set()
        for f in files:
            src = strip(f.read_text())
            names += re.findall(r"^\s*theorem\s+([^\s:({\[]+)", src, re.M)
            imports |= set(re.findall(r"^import\s+(Simaple\.\S+)", src, re.M))
        total += len(names)
        mods = sorted(i.replace("Simaple.", "") for i in imports if not i.startswith("Simaple.Props"))
        partial = [n for n in names if "partial" in n]
        lines.append(f"| {pid} | {c['level_claimed']['category']} | {len(names)} ({len(files)}) | {', '.join(mods)} | {', '.join(partial)} |")
    lines.append(f"\nTotal: {total} audited theorems.")
    print("\n".join(lines))


if __name__ == "__main__":
    main()
