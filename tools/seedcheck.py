"""verify a seeded property-breaking change and run the check against it.

usage: tools/seedcheck.py <Cxx> <change dir> [--tier quick|thorough] [--skip-suite]
  1. fresh scratch worktree of /repo HEAD under /tmp
  2. demo.py on the clean worktree must exit 0
  3. git apply patch.diff; demo.py must exit non-zero
  4. the repository's test suite must still pass with the change (unless --skip-suite)
  5. VERIF_REPO=<worktree> ./check Cxx <tier>  -> expect exit 1 + VIOLATION
  6. store /verif/seeded/<id>/{patch.diff,demo.py,meta.json}; remove the worktree
"""
from __future__ import annotations

import json
import os
import re
import shutil
import subprocess
import sys
import time
from pathlib import Path

VERIF = Path(__file__).resolve().parent.parent


def run(cmd, cwd=None, env=None, timeout=3600):
    e = dict(os.environ)
    if env:
        e.update(env)
    p = subprocess.run(cmd, cwd=cwd, env=e, capture_output=True, text=True, timeout=timeout)
    return p.returncode, p.stdout + p.stderr


def main():
    pid, src = sys.argv[1], Path(sys.argv[2])
    tier = "quick"
    if "--tier" in sys.argv:
        tier = sys.argv[sys.argv.index("--tier") + 1]
    skip_suite = "--skip-suite" in sys.argv
    name = f"{pid}-{src.name}"
    if "--id" in sys.argv:
        name = sys.argv[sys.argv.index("--id") + 1]
    wt = Path(f"/tmp/sv_{name}")
    if wt.exists():
        run(["git", "-C", "/repo", "worktree", "remove", "--force", str(wt)])
    rc, out = run(["git", "-C", "/repo", "worktree", "add", "-q", str(wt), "HEAD"])
    assert rc == 0, out
    result = {"id": name, "property": pid}
    try:
        env = {"PYTHONPATH": str(wt), "PYTHONHASHSEED": "0"}
        rc0, out0 = run(["/venv/bin/python", str(src / "demo.py")], cwd=wt, env=env, timeout=900)
        result["demo_unchanged_exit"] = rc0
        rc, out = run(["git", "-C", str(wt), "apply", "--whitespace=nowarn", str(src / "patch.diff")])
        result["patch_applies"] = rc == 0
        if rc != 0:
            result["error"] = out[-500:]
            return result
        rc1, out1 = run(["/venv/bin/python", str(src / "demo.py")], cwd=wt, env=env, timeout=900)
        result["demo_changed_exit"] = rc1
        result["demo_changed_output_tail"] = out1[-400:]
        if not skip_suite:
            t0 = time.time()
            rcs, outs = run(["/venv/bin/python", "-m", "pytest", "-q", "-p", "no:cacheprovider", "--timeout=900", "-x"],
                            cwd=wt, env=env, timeout=2400)
            m = re.findall(r"=+ (.*) in [\d.]+s.*=+", outs)
            result["suite"] = m[-1] if m else outs[-200:]
            result["suite_passes"] = rcs == 0
        t0 = time.time()
        rcc, outc = run(["./check", pid, tier], cwd=VERIF, env={"VERIF_REPO": str(wt)}, timeout=3600)
        result["check_cmd"] = f"VERIF_REPO={wt} ./check {pid} {tier}"
        result["check_exit"] = rcc
        result["check_wall_s"] = round(time.time() - t0, 1)
        result["check_lines"] = [l for l in outc.splitlines() if l.startswith(("VIOLATION", "KNOWN-FINDING", "[" + pid))][-4:]
        vio = [l for l in outc.splitlines() if l.startswith("VIOLATION")]
        result["caught"] = rcc == 1 and bool(vio)
        result["caught_with_failing_input"] = result["caught"] and not vio[-1].endswith("no-failing-input-found")
        if vio:
            m = re.search(r"replay=(\S+)", vio[-1])
            if m and (VERIF / m.group(1)).exists():
                rep = json.loads((VERIF / m.group(1)).read_text())
                fi = rep.get("failing_inputs") or []
                result["first_failing_input"] = json.loads(json.dumps(fi[0], default=str))if fi else None
                if result["first_failing_input"] is not None:
                    s = json.dumps(result["first_failing_input"], ensure_ascii=False)
                    if len(s) > 1500:
                        result["first_failing_input"] = s[:1500] + "…"
                result["no_longer_checks"] = [b.get("kind") + ":" + str(b.get("point") or b.get("module") or b.get("theorem") or "")
                                              for b in rep.get("no_longer_checks", [])][:5]
                shutil.rmtree((VERIF / m.group(1)).parent, ignore_errors=True)
    finally:
        run(["git", "-C", "/repo", "worktree", "remove", "--force", str(wt)])
    dst = VERIF / "seeded" / name
    dst.mkdir(parents=True, exist_ok=True)
    shutil.copy(src / "patch.diff", dst / "patch.diff")
    shutil.copy(src / "demo.py", dst / "demo.py")
    meta = json.loads((src / "meta.json").read_text()) if (src / "meta.json").exists() else {}
    old = {}
    if (dst / "meta.json").exists():
        try:
            prev = json.loads((dst / "meta.json").read_text())
            old = prev.get("verification", {})
            for k in ("missed_at_first", "first_result"):
                if k in prev:
                    meta[k] = prev[k]
        except Exception:
            old = {}
    if result.get("suite_passes") is None and old.get("suite_passes") is not None:
        result["suite"], result["suite_passes"] = old.get("suite"), old.get("suite_passes")
    if old and (old.get("caught") is False or old.get("caught_with_failing_input") is False) and "first_result" not in meta:
        meta["missed_at_first"] = True
        meta["first_result"] = {k: old.get(k) for k in ("check_exit", "caught", "caught_with_failing_input", "check_lines")}
    meta["verification"] = result
    (dst / "meta.json").write_text(json.dumps(meta, indent=1, ensure_ascii=False))
    return result


if __name__ == "__main__":
    r = main()
    print(json.dumps({k: r.get(k) for k in ("id", "demo_unchanged_exit", "demo_changed_exit", "suite_passes", "suite",
                                             "check_exit", "caught", "caught_with_failing_input", "check_wall_s",
                                             "no_longer_checks")}, ensure_ascii=False))
