"""writes MANIFEST.json from the table below (single source of truth for the interface)"""
import json
from pathlib import Path

VERIF = Path(__file__).resolve().parent.parent
ALL = [f"C{i:02d}" for i in range(1, 21)]

CHECKS = {
 "C11": dict(
  category="proof",
  text="Lean 4 theorems over a model of Stat/ActionStat/LevelStat/ExtendedStat that is regenerated from simaple/core/base.py on every run: commutativity, associativity, identity, += equals +, sum equals repeated + (hence permutation invariance), multiplicative final-damage/defence-ignore, additivity of every other declared field and stack scaling quantified over the generated field list (so a dropped field falsifies a theorem). Arithmetic is exact (Rat); the float implementation is compared with tolerance.",
  design_ref="DESIGN.md §4 C11",
  note="Trusted: Lean kernel, propext/Classical.choice/Quot.sound, py2lean translator (self-checked per run against the Python operators on random blocks), float ~ rational within 1e-9.",
  technique="Lean 4 proof over a model regenerated from source by py2lean (+ translator self-check)"),
}

NOT_YET = "check not built yet in this round (work in progress; see DESIGN.md §6 build order)"

def main():
    checks = []
    for pid in ALL:
        if pid not in CHECKS:
            continue
        c = CHECKS[pid]
        checks.append({
            "property_id": pid,
            "quick_cmd": f"./check {pid} quick",
            "thorough_cmd": f"./check {pid} thorough",
            "evidence_file": f"evidence/{pid}.json",
            "replay_cmd_template": f"./check {pid} --replay {{path}}",
            "engine": "lean-model",
            "level_claimed": {"category": c["category"], "text": c["text"], "design_ref": c["design_ref"]},
            "level_note": c["note"],
            "technique": c["technique"],
        })
    man = {
        "version": 1,
        "setup_cmd": "./setup.sh",
        "hooks": {
            "guard": "SIMAPLE_VERIF",
            "enable": "no source hooks are needed: every observation point is reached through public API or by wrapping objects from the harness; SIMAPLE_VERIF is reserved and unused",
            "baseline_off_cmd": "cd /repo && /venv/bin/python -m pytest -ra -q -p no:cacheprovider --timeout=900 --continue-on-collection-errors",
            "source_commits": [],
            "add_only": True,
        },
        "engines": [{
            "name": "lean-model", "path": "lean",
            "serves_properties": [c["property_id"] for c in checks],
            "kind_free_text": "Lean 4 lake project Simaple: generated (py2lean) and hand-written executable models, property theorems in Simaple/Props, JSON-lines driver Driver.lean used by the Python correspondence harness",
        }],
        "checks": checks,
        "not_applicable": [{"property_id": p, "reason": NOT_YET} for p in ALL if p not in CHECKS],
        "notes": "All checks: regenerate generated models from /repo -> lake build of the property theorems + axiom audit -> correspondence of model and implementation -> on any break a failing-input search on the real code. See DESIGN.md.",
    }
    (VERIF / "MANIFEST.json").write_text(json.dumps(man, indent=1, ensure_ascii=False) + "\n")

if __name__ == "__main__":
    main()
