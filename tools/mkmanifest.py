"""writes MANIFEST.json from the table below (single source of truth for the interface)"""
import json
from pathlib import Path

VERIF = Path(__file__).resolve().parent.parent
ALL = [f"C{i:02d}" for i in range(1, 21)]

CHECKS = {
 "C11": dict(
  category="proof",
  text="Lean 4 proof on effect programs regenerated from the source (Props/C11_Effects.lean): Stat.__add__/sum/stack, ActionStat.__add__, LevelStat.__add__/get_stat, ExtendedStat.__add__/compute_by_level never write their operands and return new blocks. Lean 4 theorems over a model of Stat/ActionStat/LevelStat/ExtendedStat that is regenerated from simaple/core/base.py on every run: commutativity, associativity, identity, += equals +, sum equals repeated + (hence permutation invariance), multiplicative final-damage/defence-ignore, additivity of every other declared field and stack scaling quantified over the generated field list (so a dropped field falsifies a theorem). Arithmetic is exact (Rat); the float implementation is compared with tolerance.",
  design_ref="DESIGN.md §4 C11",
  note="Trusted: Lean kernel, propext/Classical.choice/Quot.sound, py2lean translator (self-checked per run against the Python operators on random blocks), float ~ rational within 1e-9.",
  technique="Lean 4 proof over a model regenerated from source by py2lean (+ translator self-check)"),
 "C01": dict(
  category="proof",
  text="Lean 4 theorem resume_eq_straight over a model of BasicOperationEngine/SimulationHistory/handlers that is parametric in the play function, the store, the checkpoint type, the clock, the debug view and the hash: for EVERY plan and cut, reload + continue yields the logs of the uninterrupted run; nothing_else_matters: engines with equal logs are bisimilar; refused_commands_leave_no_trace / resume_eq_straight_with_refusals (part file C01_Refused): the same for sessions in which commands are refused with an exception and the caller goes on (malformed ELAPSE, unknown command word, raising debug line), cut anywhere. The hypothesis StoreLaws (all that influences the future is in the saved store) is validated on the real code: checkpoint round trips of every reached store and every-cut resumed runs (memory and JSON) for all 8 jobs; the model is tied to the engine by replaying it over play tables recorded from real runs AND end to end: Model/JobRunner.lean instantiates the parametric engine with a concrete router built from the dispatcher model and all 62 component models, runs whole plans of all eight jobs in Lean and must reproduce the real engine play by play (events and the full store); for that instantiation StoreLaws is proved (C01_Job: job_store_laws, job_resume_eq_straight, job_rollback_replay, job_hint_sound_chain).",
  design_ref="DESIGN.md §4 C01",
  note="Trusted: Lean kernel + standard axioms; hand model tied by recorded-table replay; StoreLaws hypothesis (validated, not proved); pydantic dump/validate and json; a refused command is modelled by what _exec_operation / _console leave behind when the FIRST play raises (an exception in a later play of one operation is not modelled).",
  technique="Lean 4 proof (invariant + induction over commands) on a hand-written engine model + differential correspondence"),
 "C03": dict(
  category="proof",
  text="(Part file C03_Refused: rollback_replay_with_refusals — the same with commands that are refused with an exception anywhere in between.) Lean 4 theorems over the same parametric engine model: rollback_replay (any interleaving of exec/rollback leaves exactly the history of a fresh engine that ran the surviving commands, and the canonical engine state), chain_ok, hashes_distinct, hash_locates/hash_index_sound for get_hash_index (with an injective never-empty hash combiner). Validated on the real engine exhaustively for all exec/rollback programs up to a depth over a 4-command alphabet and on random programs for all jobs, against a fresh reference engine after every step, with independent sha1 recomputation.",
  design_ref="DESIGN.md §4 C03",
  note="Trusted: Lean kernel + standard axioms; hand model tied by recorded-table replay; StoreLaws; sha1 collision freedom.",
  technique="Lean 4 proof (induction over op sequences, hash-chain invariant) + differential correspondence"),
 "C12": dict(
  category="proof",
  text="Lean 4 theorems over definitions regenerated from simaple/core/damage.py, core/base.py and report/dpm.py on every run: monotonicity of the damage and DOT factors of all five damage logics in every beneficial stat (armour term non-negative), linearity in damage% and hits, cooldown never above base / never below the documented floors / antitone in flat and percent reduction for all base cooldowns, level advantage total on all integer pairs, within [0,1.2], antitone in the gap. Exhaustive level pairs and dense cooldown grids are compared with the real functions.",
  design_ref="DESIGN.md §4 C12",
  note="Trusted: Lean kernel + standard axioms; py2lean translator (self-checked per run); float ~ rational within 1e-9.",
  technique="Lean 4 proof over a model regenerated from source by py2lean (+ translator self-check)"),
 "C04": dict(
  category="proof",
  text="Lean 4 theorems hint_sound_one_step and hint_sound_chain over a model of _extract_engine_history_as_response / run_plan / run_plan_with_hint (three-way prefix test, walk-back to a restorable response, DummyCheckpoint, reload, re-extraction), parametric in the play function, store, views, hash and in what a DummyCheckpoint restores to: for EVERY previous plan, new plan and chain of edits the incremental result equals the full run; reload_point_is_real shows the only checkpoint restored after the reload is a kept one. Validated on the real API for all jobs with edits at every index around each checkpoint boundary, hints in memory and through JSON, and chains; the model runner is replayed over recorded play tables.",
  design_ref="DESIGN.md §4 C04",
  note="Trusted: Lean kernel + standard axioms; hand model tied by recorded-table replay; StoreLaws; response rendering is a function of playlog+checkpoint; Lark parser, pydantic, json, yaml.",
  technique="Lean 4 proof (list algebra over histories + C01 invariant) + differential correspondence"),
 "C13": dict(
  category="proof",
  text="(Part file C13_Calc: with the model of DamageCalculator.get_damage of property C12 in the place of the parameter — damage_event_contribution, dot_event_contribution, contribution_scales_with_hits: every hit of every DAMAGE / DOT event counts; tied by comparing get_damage on the logs of real runs with the model.) Lean 4 theorems over a model of SimulationEntry.build, DamageCalculator totals/dpm, DamageShareFeature and the two-pointer window scan: totals equal sums per action and per skill, shares non-negative and summing to one, every qualifying event counted exactly once with buff+modifier, and two_pointer_eq_exhaustive: for sorted clocks and positive window length the scan returns the exhaustive maximum over shortest qualifying windows and its indices reproduce the value (fuel sufficiency proved). The scan and the report pipeline are compared with the real code on exhaustive small and random sequences and on real runs.",
  design_ref="DESIGN.md §4 C13",
  note="Trusted: Lean kernel + standard axioms; hand model tied by differential correspondence; damage-per-log abstract (its formula is C12); known finding F12 (window length <= 0 raises).",
  technique="Lean 4 proof (loop invariant of the two-pointer scan, sum rearrangements) + differential correspondence"),
 "C05": dict(
  category="proof",
  text="Lean 4 theorems over a model of play/_get_event_callbacks with an arbitrary router and store: relay_exactly_once (the actions dispatched while handling the next action are exactly emitted(E) reversed, the action, done(E) for the events E of the previous action, by position, so each event is offered once before and once after), relay_never_again, relay_count, relay_survives_checkpoint, signature_shape. Tied to the code by a catch-all probe dispatcher installed through EngineBuilder.add_dispatcher that records every dispatched action on all jobs, with checkpoint/restore injected between actions.",
  design_ref="DESIGN.md §4 C05",
  note="Trusted: Lean kernel + standard axioms; hand model of play tied by the probe recording; store-cell law for previous_callbacks.",
  technique="Lean 4 proof (list algebra on the action queue) + probe-based correspondence"),
 "C06": dict(
  category="proof",
  text="Lean 4 theorems: play_clock (a play advances the clock by exactly the elapse time of its own action; relayed callbacks never do), per_command (ELAPSE t: +t; CAST: + first positive delay of its use, 0 if none; RESOLVE: + pending delay of the named skill; USE/KEYDOWNSTOP/debug: +0), refused_command_leaves_the_clock and clock_is_sum_with_refusals (part file C06_Refused: the same for sessions in which commands are refused with an exception and the caller goes on), clock_is_sum (every recorded clock is the previous one plus the elapse time of the action; the shown clock is the sum of all elapse times), clock_monotone, firstDelay_nonneg — for every router satisfying hRouter (only the timer writes the clock); hRouter is itself DERIVED (C06_Router) for the modelled router from the dispatcher frame theorem of C08 plus the static fact that no component is bound to global.time, and is observed on every router call of real runs of all jobs; per component class X_elapsed_carries_time (part files): exactly one 'elapsed' event with exactly the elapse time; together with the per-command deltas and the times carried by 'elapsed' notifications.",
  design_ref="DESIGN.md §4 C06",
  note="Trusted: Lean kernel + standard axioms; hand model tied by C01/C03 replays + router-call observation; hRouter hypothesis (observed, plus static check of bound addresses); on-grid float addition exact.",
  technique="Lean 4 proof (invariant over commands) + router-call observation"),
 "C17": dict(
  category="proof",
  text="Lean 4 proof on effect programs regenerated from the source (Props/C17_Effects.lean): GeneralizedGearBlueprint.build and PracticalGearBlueprint.build, with spell traces, scrolls, star force, the bonus factory and every bonus class, exceptional enhancement and potentials, write no object that existed before the call ('building never alters the blueprint or the base gear', on every heap, at every point of the call). Lean 4 theorems over a star-force model whose tables, star caps, gear type codes and is_* predicates are regenerated from starforce_configuration.py/starforce.py/gear_type.py on every run: every lookup inside the cap is defined and non-negative (decide +kernel over the generated tables), star force is non-negative and non-decreasing in every field for EVERY well-formed gear meta, equals the running sum of per-star increments computed on the gear as enhanced so far, stars beyond the cap are refused; blueprint_additive/order_irrelevant/defined_iff_within_cap for gear blueprints over the generated Stat monoid, and (C17_Parts) the concrete parts: spell trace tables, scrolls, exceptional enhancement and BonusSpec regenerated from source, spellTrace_defined/nonneg on the five traceable type classes, concrete_blueprint_additive and concrete_blueprint_defined with ALL part contributions computed by the model. Compared with the real code on all shipped gears x stars 0..cap+1 (thorough) and random blueprints; non-mutation of blueprint/base gear observed by snapshot.",
  design_ref="DESIGN.md §4 C17",
  note="Trusted: Lean kernel + standard axioms; py2lean table/predicate extraction (self-checked against live module objects); hand model of providers tied by exhaustive correspondence; part contributions of spell traces/bonus are inputs of the blueprint model.",
  technique="Lean 4 proof over generated tables (decide +kernel lifted) + exhaustive differential correspondence"),
 "C07": dict(
  category="proof",
  text="Lean 4 theorems for the dispatcher of component/base.py with an ARBITRARY reducer (tagging never creates or hides a rejection; nothing is appended to an answer containing a rejection; a reducer that rejects alone and returns its input state makes the dispatcher report that rejection alone and leave every store lookup unchanged) and, per component class — ALL 62 classes the eight shipped jobs instantiate are modelled (Model/Component*.lean), part files C07_Common/Mage/Mech/Wind — that every reducer that can reject answers a rejection alone with the state it was given (incl. bound foreign entities), and that the other reducers (elapse, listened triggers, ignore_rejected wrappers) never reject. Every dispatcher of every job is additionally observed through a proxy (whole-store snapshot before/after, returned events) on rejection-biased plans, on a fork sweep dispatching every mapped reducer (player and listened) on restored checkpoints, and on synthetic positive cooldowns; the component models are tied to the code by replaying harvested real reducer calls through the Lean driver with exact comparison.",
  design_ref="DESIGN.md §4 C07",
  note="Trusted: Lean kernel + standard axioms; hand models of the dispatcher and of the component classes tied by differential correspondence; known finding F8d (StackableBuffSkillComponent, latent: shipped cooldown 0).",
  technique="Lean 4 proof (dispatcher for arbitrary reducers + per-class reducer lemmas) + dispatcher-proxy exploration"),
 "C08": dict(
  category="proof",
  text="Lean 4 proof over programs REGENERATED from the source on every run: tools/py2lean/gen_effects.py lowers every reducer and view method of every shipped component class (316 methods; trait functions, component helpers, entity methods, properties, generators, ignore_rejected, NamedEventProvider and Stat/ActionStat arithmetic inlined) to an object-heap effect IR (Model/Effect.lean: deepcopy, allocation, load, store, non-deterministic control flow, abort for raise). Proofs/Effect.lean proves the effect checker sound: a program it accepts, started on ANY heap with ANY arguments, at EVERY point of the call (also where an exception ends it) has left every pre-existing object exactly as it was and has stored only into objects allocated during the call; a result derived fresh shares no object with anything that existed before. Props/C08_Effects*.lean run the checker inside the kernel on every generated program (316 of 316; no method is exempt: where a write is correlated with what a helper returned, the translator lowers the continuation once per return site and folds the constant test). Also proved: the dispatcher's frame for an arbitrary reducer (Props/C08.lean). Repeatability (same in, same out) is observed on every reducer/view call harvested from real runs of all jobs (replayed twice on the same objects and once on deep copies) and holds by construction in the functional L2 models tied by C07/C09/C10. Each harvested call is also compared with its effect program: observed (entity, field) changes must be stores of the program, results derived fresh must share no mutable object (by identity) with the arguments or the component, fields the translator treats as immutable must hold immutable values.",
  design_ref="DESIGN.md §4 C08, §9.7",
  note="Trusted: Lean kernel + standard axioms; the lowering Python AST -> effect IR (over-approximation, validated against every harvested call); CPython/pydantic deepcopy semantics (IsDeepCopy, observed by identity walks); static-type classification immutable/mutable (validated on harvested objects). Repeatability itself is observed, not proved, at the Python level.",
  technique="Lean 4 proof (sound effect checker + kernel evaluation on programs regenerated from the source) + correspondence on harvested calls"),
 "C14": dict(
  category="proof",
  text="Lean 4 theorems at character level over a hand-written lexer/parser for the plan DSL (following the Lark grammar incl. its Earley/dynamic-lexer behaviour): parse_render (every operation re-parses from its expr to itself), produced_in_range/reparse_of_parsed/produced_times_finite/reparse_of_parsed_total (EVERY operation the parser returns, from any text, re-parses from its expr to itself, under the single number law 'a finite float prints as one number token and reads back'), multiplier semantics, layout_irrelevant_partial for the explicit good-layout class + layout_rejected/never_changes_commands for everything else, body/plan round trip. Number printing and YAML are hypotheses sampled per run. The model is compared with the real Lark parser on tens of thousands of generated texts; re-parsed plans are executed on the real engine.",
  design_ref="DESIGN.md §4 C14",
  note="Trusted: Lean kernel + standard axioms; Lark's parsing algorithm and CPython float repr validated, not proved; known finding F13 (layout classes the grammar rejects); F16 (a time literal overflowing to inf) was repaired (eae4625): the model rejects it as the code does, except inside an operation that a multiplier <= 0 then drops (skipped by the harness).",
  technique="Lean 4 proof on a re-implementation of the grammar + differential correspondence with Lark"),
 "C15": dict(
  category="proof",
  text="Lean 4 theorems over a model of the spec expression grammar/evaluator and of DFSTraversePatch/ArithmeticPatch/Spec.interpret: parse_pretty at character level (usual precedence, left associativity), evaluate_pretty, every_template_replaced_partial (apply = an independent recursive specification, including templates evaluating to 0, for documents without template keys in front of containers) with the negation witness for that excluded class, interpret theorems. Compared with the real Lark evaluator and patches on generated expressions/documents and against an independent ast-based reference; all shipped specs under the real patch chains; deep snapshots of the repository before/after interpretation and after mutating results.",
  design_ref="DESIGN.md §4 C15",
  note="Trusted: Lean kernel + standard axioms; Lark Earley validated not modelled; floats as exact rationals (float-rounding divergences counted); known finding F18 (template key of a container value).",
  technique="Lean 4 proof (parser round trip, traversal = specification) + differential correspondence"),
 "C18": dict(
  category="proof",
  text="Lean 4 theorems infer_sound and infer_complete at full strength over an Int model of improvements/bonus.py, bonus_factory.py and compute/bonus.py that follows the search statement by statement (greedy stage, accumulating remainder, recursive search, candidate table): whatever compute returns has <= 4 distinct-kind options with valid grades summing exactly to the observed stat, and every sum of <= 4 valid distinct-kind options is accepted. The model returns the same decomposition as the real code on all compared inputs; soundness/completeness are also checked directly on real gears (1-2 kinds exhaustively, 3-4 sampled).",
  design_ref="DESIGN.md §4 C18",
  note="Trusted: Lean kernel + standard axioms; hand model tied by exact-answer correspondence; req_level >= 0, integral base attacks, well-formed observed stat (compute does not validate its input).",
  technique="Lean 4 proof (search invariant + completeness of the recursive search) + differential correspondence"),
 "C19": dict(
  category="proof",
  text="Lean 4 theorems over a model of StepwizeOptimizer (all step iterators, reward, first strict maximum above -1, iteration guard) for ARBITRARY cost/value functions: within_budget, within_limits, keeps_presets, never_worse (under value monotonicity along tried steps, shown necessary by a counterexample), no_single_step_improves at normal termination, determinism, guard_not_hit, clone_preserves_objective/keeps_armor, and for the weapon-potential brute force weapon_best_partial (maximal among legal combinations of the pruned lists) and weapon_best_of_dominated. The four REAL targets are inside the model as well (C19_Targets, over cost/stat tables regenerated from system/*.py and data/system/*.yaml): cost monotone/non-negative, budget table monotone, value monotone in every slot (from the C12 damage-factor theorems), which discharges the monotonicity hypothesis of never_worse for the real targets, with the instantiated corollaries. Tied to the code by replaying recorded cost/value oracles of real optimizer runs and by comparing the concrete get_cost/get_value and whole optimizer runs; budgets, limits, presets, armour, single-step optimality and an independent brute force are checked on the real optimizers.",
  design_ref="DESIGN.md §4 C19",
  note="Trusted: Lean kernel + standard axioms; recorded-oracle correspondence; unpruned weapon_best rests on the Dominated hypothesis (checked per run by brute force); float near-ties verified separately.",
  technique="Lean 4 proof (greedy invariants over abstract targets) + recorded-oracle replay"),
 "C20": dict(
  category="proof",
  text="Lean 4 theorem memo_eq_direct: from the empty world, after any history of requests/export/import/save/load/restart, a request through any live memoizer (in-memory or file-backed) has the outcome of the direct computation, given that equal keys imply equal memoizable parts and the serialization round trip (up to validation); no_sharing; independent_from_request. The key hypothesis is discharged for both provider classes from facts REGENERATED from the source on every run (fields read by the memoizable part, exclude/include sets, produced keys, statement shape of both memoize methods) by decide. Same histories run through the model and the real memoizers; one-field-difference request sequences across export/import and fresh processes compare memoized and direct environments.",
  design_ref="DESIGN.md §4 C20",
  note="Trusted: Lean kernel + standard axioms; py2lean read-set extraction (cross-checked by recorded attribute reads); injective canonical JSON + sha256; json round trip of dict[str,str].",
  technique="Lean 4 proof (state-machine invariant) over facts regenerated from source + differential correspondence"),
 "C16": dict(
  category="proof",
  text="Lean 4 theorems over definitions REGENERATED from the shipped YAML and data/jobs/patch.py on every run: formula_mono (every one of the ~164 damage formulas in skill_level is non-decreasing over its reachable level range, by a kernel-checked checker with a generic soundness proof, so a new non-monotone formula breaks the build), formula_no_zero_division, hexa/v improvement monotone, skill_level_mono/explicit_zero for a hand model of SkillLevelPatch.get_skill_level, exclude_hexa_iff for the lower-tier exclusion rule; and, for a hand model of the providers' glue (SkillProfile.get_skill_levels, _compute_skill_levels, _compute_hexa_improvement_levels and the providers' positional calls; part file C16_Provider): provider_levels_are_the_configured_levels, provider_levels_defined_iff, lower_tier_present_iff_configured_level_zero (the exclusion rule in terms of the levels the USER configured), tied to both providers by a correspondence on all jobs with dict order; and, on programs regenerated from the source (part file C16_Effects): build_path_never_alters_what_exists — build_skills, _exclude_hexa_skill and get_skill_components with the loader, the repository look-ups, Spec.interpret and the whole patch chain inlined write no object that existed before the call (no module-level cache), so a build cannot depend on earlier builds. Building, unique names, the exclusion rule, no damage figure decreasing when one level is raised, and random plans running to completion are EXPLORED on the real code over the level grid (boundary grid quick, every axis value + joint sample thorough) for all jobs.",
  design_ref="DESIGN.md §4 C16",
  note="Proof for monotonicity and exclusion; exploration for 'builds and runs'. Trusted: Lean kernel + standard axioms; py2lean YAML-formula translator (self-checked against the real patch results); level maxima taken from the property statement.",
  technique="Lean 4 proof over formulas regenerated from the YAML + level-grid exploration of builds"),
 "C10": dict(
  category="proof",
  text="Lean 4 theorems per component class — all 62 classes the eight shipped jobs instantiate are modelled (Model/Component*.lean; part files C10_Common/Mage/Mech/Wind) — plus the aggregated views (C10_Views: the total buff is the generated Stat.sum, i.e. the monoid sum, of the switched-on component buffs): the validity view never reports a negative remaining time, and whenever it reports the skill usable, `use` on that very state is not rejected, for EVERY state and parameter block (for key-down skills this needs the repaired validity; the unrepaired one is refuted by a witness). Views are total functions in the model. Where `use` can raise (Periodic.set_time_left) an explicit X_use_defined theorem states the parameter condition. The component models are tied to the code by replaying thousands of harvested real reducer/view calls through the Lean driver (exact equality). For ALL classes (modelled or not) every view is evaluated after every command of seeded plans on all jobs and every skill listed valid is USEd on a restored copy of the checkpoint.",
  design_ref="DESIGN.md §4 C10",
  note="Trusted: Lean kernel + standard axioms; hand component models tied by harvested-call replay; known finding F20 (engine-level: pending callbacks consume a shared stack before the proposed action; soulmaster); cooldown/buff-duration results are parameters (proved in C12).",
  technique="Lean 4 proof per component class + harvested-call replay + forked-USE exploration"),
 "C02": dict(
  category="other",
  text="Partial by nature: a functional model cannot exhibit CPython thread switching, hash randomisation or object aliasing. PROVED in Lean: schedule_independent (for every set of sessions and EVERY interleaving of their atomic steps around the lazily created shared repository, incl. racing constructions, each finished session's result equals its result when run alone, under the frame hypothesis that no step writes a cell reachable from the shared repository), every_session_can_finish, shared_data_unchanged, route_cache_transparent/exact (the router's memo returns the same store and events as the router without it, incl. re-entrant dispatchers), interpret_frame/interpret_pure over a hand-written heap model of Spec.interpret with object identity; and, on programs REGENERATED from the source on every run (tools/py2lean/gen_effects.py -> Props/C02_Patches.lean): patches_never_write_preexisting_objects / interpretation_leaves_the_repository_unchanged — Spec.interpret running ANY chain of the patch classes of simaple/spec/patch.py and simaple/data/jobs/patch.py (recursive DFS traversal as a procedure, hyper-skill and skill-improvement modifiers by class-hierarchy analysis) and DirectorySpecRepository.get/get_all write no object that existed before the call, on every heap and at every point of the call (the frame hypothesis hFrame for the build path); the same for every reducer and view call (Props/C08_Effects.lean). DECIDED by the differential the property describes on the real code: every (job, environment, plan) alone in a fresh interpreter vs the same batch in one process in several orders, interleaved command by command, on thread pools, and under several PYTHONHASHSEED values, plus a deep snapshot of all module/class-level shared state around every build and run; differences are shrunk to the smallest batch and order.",
  design_ref="DESIGN.md §4 C02",
  note="Protocol theorems assume hFrame (proved for Spec.interpret + patch chain and for the reducer/view layer on regenerated effect programs; observed by the snapshots for the rest: engine construction, dispatchers, stores, Lark) and state-independent `includes`; thread interleavings and hash seeds are sampled, not exhausted; Lark's internal state is covered only by the digests.",
  technique="Lean 4 proof of the sharing protocol and of the frame of the build path (effect programs regenerated from the source) + fresh-process differential (observation)"),
 "C09": dict(
  category="proof",
  text="Lean 4 theorems at two levels. Entities (Model/Entity.lean, every entity class incl. the mob's DOT tracker and job-specific timers, time as Int on the 2^-10 ms grid): elapse b (elapse a e) is equal or equivalent (up to fields that are dead once a timer expired, with congruence of every method and view) to elapse (a+b) e, tick counts add, for all a,b >= 0, plus multi-way splits — cooldown, lasting, lastingStack, consumable, periodic, keydown, dot, programmedPeriodic, dynamicIntervalPeriodic, currentField; orderSword only partially, with the negation witness (known finding F10). Components (part files C09_Common/Mage/Mech/Wind): X_chunk_independent for the component classes of all eight jobs (same damage ticks as a multiset, equivalent states, equal views), with preserved invariants. Every entity method is compared with the real pydantic entity; and for ALL components of all jobs the property is evaluated directly on the component's own dispatcher on two restored copies of harvested checkpoints with boundary and random splits.",
  design_ref="DESIGN.md §4 C09",
  note="Trusted: Lean kernel + standard axioms; hand entity/component models tied by exact correspondence on the time grid; float behaviour off the grid is not modelled; known finding F10 (AdeleOrderComponent).",
  technique="Lean 4 proof (loop-splitting lemmas per timer entity, lifted to components) + two-execution exploration on real dispatchers"),
}

NOT_YET = "check not built yet in this round (work in progress; see DESIGN.md §6 build order)"

def main():
    checks = []
    for pid in ALL:
        if pid not in CHECKS:
            continue
        c = CHECKS[pid]
        checks.append({
            "property_id": pid,
            "quick_cmd": f"./check {pid} quick",
            "thorough_cmd": f"./check {pid} thorough",
            "evidence_file": f"evidence/{pid}.json",
            "replay_cmd_template": f"./check {pid} --replay {{path}}",
            "engine": "lean-model",
            "level_claimed": {"category": c["category"], "text": c["text"], "design_ref": c["design_ref"]},
            "level_note": c["note"],
            "technique": c["technique"],
        })
    man = {
        "version": 1,
        "setup_cmd": "./setup.sh",
        "hooks": {
            "guard": "SIMAPLE_VERIF",
            "enable": "no source hooks are needed: every observation point is reached through public API or by wrapping objects from the harness; SIMAPLE_VERIF is reserved and unused",
            "baseline_off_cmd": "cd /repo && /venv/bin/python -m pytest -ra -q -p no:cacheprovider --timeout=900 --continue-on-collection-errors",
            "source_commits": [],
            "add_only": True,
        },
        "engines": [{
            "name": "lean-model", "path": "lean",
            "serves_properties": [c["property_id"] for c in checks],
            "kind_free_text": "Lean 4 lake project Simaple: generated (py2lean) and hand-written executable models, property theorems in Simaple/Props, JSON-lines driver Driver.lean used by the Python correspondence harness",
        }],
        "checks": checks,
        "not_applicable": [{"property_id": p, "reason": NOT_YET} for p in ALL if p not in CHECKS],
        "notes": "All checks: regenerate generated models from /repo -> lake build of the property theorems + axiom audit -> correspondence of model and implementation -> on any break a failing-input search on the real code. See DESIGN.md.",
    }
    (VERIF / "MANIFEST.json").write_text(json.dumps(man, indent=1, ensure_ascii=False) + "\n")

if __name__ == "__main__":
    main()
